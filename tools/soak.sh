#!/bin/sh
# soak: run every quick check at several seeds; print only non-clean results and a summary line per seed
cd "$(dirname "$0")/.." || exit 2
./setup.sh >/dev/null 2>&1
N=${1:-5}
i=1
while [ $i -le $N ]; do
  bad=0
  for id in C01 C02 C03 C04 C05 C06 C07 C08 C09 C10 C11 C12 C13 C14 C15 C16 C17 C18 C19 C20; do
    out=$(VERIF_SEED=$((i*7+3)) VERIF_EVIDENCE_DIR=$PWD/.build/soak-evidence VERIF_REPLAY_DIR=$PWD/.build/soak-replays ./check $id --tier quick 2>&1)
    rc=$?
    if [ $rc -ne 0 ]; then bad=$((bad+1)); echo "seed=$((i*7+3)) $id rc=$rc $(echo "$out" | grep -E '^(VIOLATION|INCONCLUSIVE)' | head -2 | cut -c1-400)"; fi
  done
  echo "soak round $i seed=$((i*7+3)) non-clean=$bad $(date +%H:%M:%S)"
  i=$((i+1))
done
