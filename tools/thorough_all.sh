#!/bin/sh
# runs every thorough check once, sequentially; prints one line per property (for vp run / manual use)
cd "$(dirname "$0")/.." || exit 2
./setup.sh >/dev/null 2>&1
for id in C01 C02 C03 C04 C05 C06 C07 C08 C09 C10 C11 C12 C13 C14 C15 C16 C17 C18 C19 C20; do
  s=$(date +%s)
  out=$(VERIF_EVIDENCE_DIR=${VERIF_EVIDENCE_DIR:-$PWD/.build/thorough-evidence} ./check $id --tier thorough 2>&1)
  rc=$?
  e=$(date +%s)
  echo "$id rc=$rc $((e-s))s $(echo "$out" | grep -E '^(property=|VIOLATION|INCONCLUSIVE)' | head -3 | tr '\n' ' ' | cut -c1-500)"
done
