package c12

import (
	"context"
	"fmt"
	"sort"
	"strings"
	"sync/atomic"
	"testing"
	"time"

	"github.com/atlassian/gostatsd"
	"github.com/atlassian/gostatsd/pkg/cachedinstances/cloudprovider"
	"github.com/sirupsen/logrus"
	"github.com/tilinna/clock"
	"golang.org/x/time/rate"
	"pgregory.net/rapid"

	"verifharness/internal/ev"
	"verifharness/internal/rig"
	"verifharness/internal/vt"
)

// TestSlowConsumer: many distinct sources are submitted while the client does not read answers (a cloud handler busy
// with its downstream); the answers pile up inside the provider. When the client reads again - in drawn bursts - it
// must receive exactly one answer per submitted source, each with what the provider said about that source.
var slowPatienceMs int64 = 30000

func TestSlowConsumer(t *testing.T) {
	rapid.Check(t, func(t *rapid.T) {
		prov := &provider{max: rapid.SampledFrom([]int{1, 2, 5, 20}).Draw(t, "max-batch"), force: -1}
		prov.script = rapid.SliceOfN(rapid.SampledFrom([]outcome{full, full, partial, empty, failPartial, failEmpty}), 8, 8).Draw(t, "provider-script")
		n := rapid.SampledFrom([]int{3, 17, 33, 34, 40, 64, 90, 200}).Draw(t, "sources")
		readBefore := rapid.SampledFrom([]int{0, 0, 1, 5, 16}).Draw(t, "answers-read-while-submitting")
		clk := rig.NewOwnedClock(time.Now())
		ccp := cloudprovider.NewCachedCloudProvider(logrus.StandardLogger(), rate.NewLimiter(rate.Inf, 1), prov,
			gostatsd.CacheOptions{CacheRefreshPeriod: 30 * time.Second, CacheEvictAfterIdlePeriod: 25 * time.Minute, CacheTTL: 15 * time.Minute, CacheNegativeTTL: 5 * time.Minute})
		ctx, cancel := context.WithCancel(clock.Context(context.Background(), clk))
		runDone := make(chan struct{})
		go func() { ccp.Run(ctx); close(runDone) }()
		defer func() {
			cancel()
			select {
			case <-runDone:
			case <-time.After(30 * time.Second):
			}
		}()
		if clk.Ticker(0, 30*time.Second) == nil {
			t.Fatalf("refresh ticker not created")
		}
		desc := fmt.Sprintf("max-batch %d script %v sources %d read-while-submitting %d", prov.max, prov.script, n, readBefore)
		// one case in forty: the provider does not come back for 5.3 s of real time (a cloud API under pressure); it then says
		// what its script says, and every source of every call still gets its answer
		if rapid.IntRange(0, 39).Draw(t, "provider-stalls-for-seconds") == 23 { // (rapid favours the ends of a range)
			hold := make(chan struct{})
			prov.mu.Lock()
			prov.hold = hold
			prov.mu.Unlock()
			stop := time.AfterFunc(5300*time.Millisecond, func() { close(hold) })
			defer stop.Stop()
			desc += " provider-stalls-5.3s"
		}
		patience := func() time.Duration { return time.Duration(atomic.LoadInt64(&slowPatienceMs)) * time.Millisecond }
		impatient := func() { atomic.StoreInt64(&slowPatienceMs, 3000) } // after a first failure (rapid shrinking it) wait 3 s instead of 30
		var got []answer
		read := func(k int, why string) {
			for i := 0; i < k; i++ {
				select {
				case info := <-ccp.InfoSource():
					got = append(got, answer{info.IP, info.Instance})
				case <-time.After(patience()):
					impatient()
					vt.Fail(t, "C12:answer-missing", "%d answers arrived, %d sources were submitted (%s; waited 30s %s)", len(got), n, desc, why)
				}
			}
		}
		// with repeats, every fifth source is submitted again straight away and a third time at the end: every submission is
		// a query of its own and gets an answer of its own, however many answers for that source are still waiting to be read
		repeats := rapid.SampledFrom([]bool{false, false, true}).Draw(t, "repeated-submissions")
		var subs []gostatsd.Source
		distinct := n
		for i := 0; i < distinct; i++ {
			s := gostatsd.Source(fmt.Sprintf("10.7.%d.%d", i/200, i%200))
			subs = append(subs, s)
			if repeats && i%5 == 0 {
				subs = append(subs, s)
			}
		}
		if repeats {
			for i := 0; i < distinct; i += 5 {
				subs = append(subs, gostatsd.Source(fmt.Sprintf("10.7.%d.%d", i/200, i%200)))
			}
			desc += fmt.Sprintf(" repeated-submissions (%d submissions)", len(subs))
		}
		n = len(subs)
		submitted := map[gostatsd.Source]int{}
		var srcs []gostatsd.Source
		for i := 0; i < n; i++ {
			s := subs[i]
			if submitted[s] == 0 {
				srcs = append(srcs, s)
			}
			submitted[s]++
			select {
			case ccp.IpSink() <- s:
			case <-time.After(30 * time.Second):
				vt.Fail(t, "C12:submit-not-accepted", "IpSink did not accept %q within 30s although answers are only waiting for their reader (%s)", s, desc)
			}
			if i == n/2 {
				read(min(readBefore, i), "while submitting")
			}
		}
		// the provider has said something about every source: all answers are waiting (or on their way)
		for deadline := time.Now().Add(patience()); ; time.Sleep(200 * time.Microsecond) {
			prov.mu.Lock()
			k := len(prov.answers)
			prov.mu.Unlock()
			if k >= n {
				break
			}
			if time.Now().After(deadline) {
				impatient()
				vt.Fail(t, "C12:never-queried", "the provider was asked about %d of %d submitted sources within 30s (%s)", k, n, desc)
			}
		}
		for len(got) < n {
			burst := rapid.SampledFrom([]int{1, 3, 16, 17, 40}).Draw(t, "read-burst")
			read(min(burst, n-len(got)), "draining")
			if rapid.Bool().Draw(t, "pause") {
				time.Sleep(300 * time.Microsecond)
			}
		}
		select {
		case info := <-ccp.InfoSource():
			vt.Fail(t, "C12:answer-surplus", "an answer for %q beyond the %d submitted sources (%s)", info.IP, n, desc)
		case <-time.After(3 * time.Millisecond):
		}
		prov.mu.Lock()
		said := map[gostatsd.Source]*gostatsd.Instance{}
		saidAny := map[gostatsd.Source]map[*gostatsd.Instance]bool{}
		for _, a := range prov.answers {
			said[a.ip] = a.inst
			if saidAny[a.ip] == nil {
				saidAny[a.ip] = map[*gostatsd.Instance]bool{}
			}
			saidAny[a.ip][a.inst] = true
		}
		calls := len(prov.calls)
		for _, c := range prov.calls {
			if len(c) > prov.max {
				prov.mu.Unlock()
				vt.Fail(t, "C12:batch-limit", "provider called with %d sources, limit %d", len(c), prov.max)
			}
		}
		prov.mu.Unlock()
		seen := map[gostatsd.Source]int{}
		for _, a := range got {
			seen[a.ip]++
			if repeats && submitted[a.ip] > 1 {
				// asked about several times: the answer is one of the things the provider said about it (or nothing)
				if a.inst != nil && !saidAny[a.ip][a.inst] {
					vt.Fail(t, "C12:answer-wrong", "answer for %q carries %v, which the provider never said (%s)", a.ip, a.inst, desc)
				}
				continue
			}
			if a.inst != said[a.ip] {
				vt.Fail(t, "C12:answer-wrong", "answer for %q carries %v, the provider said %v (%s)", a.ip, a.inst, said[a.ip], desc)
			}
		}
		var bad []string
		for _, s := range srcs {
			if seen[s] != submitted[s] {
				bad = append(bad, fmt.Sprintf("%s submitted x%d answered x%d", s, submitted[s], seen[s]))
			}
		}
		sort.Strings(bad)
		if len(bad) > 0 {
			vt.Fail(t, "C12:answer-missing", "not exactly one answer per submission: %s (%s)", strings.Join(bad, ", "), desc)
		}
		ev.C().Case(fmt.Sprintf("S|%s|%d", desc, calls), n >= 33, "slow-consumer", fmt.Sprintf("slow-consumer-sources=%d", n))
		if ev.C().WantSample() {
			ev.C().Sample(map[string]interface{}{"slow_consumer": desc, "provider_calls": calls})
		}
	})
}
