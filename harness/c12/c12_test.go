package c12

import (
	"context"
	"errors"
	"fmt"
	"io"
	"sort"
	"strings"
	"sync"
	"testing"
	"time"

	"github.com/atlassian/gostatsd"
	"github.com/atlassian/gostatsd/pkg/cachedinstances/cloudprovider"
	"github.com/sirupsen/logrus"
	"github.com/tilinna/clock"
	"golang.org/x/time/rate"
	"pgregory.net/rapid"

	"verifharness/internal/ev"
	"verifharness/internal/fakes"
	"verifharness/internal/rig"
	"verifharness/internal/vt"
)

func TestMain(m *testing.M) {
	logrus.SetOutput(io.Discard)
	logrus.SetLevel(logrus.PanicLevel)
	ev.C().Rule("rapid state machine over a real CachedCloudProvider with a scripted CloudProvider (per call: full / partial / empty / error with partial data; batch limit 1, 2 or 5; lookup limiter unlimited or 10^6/s with burst 1, 2 or 15) and an owned refresh ticker: actions submit(1..3 sources) / peek / tick(real now + k*10min) / emit / tickSlowProvider (refresh whose provider calls block) / release (the blocked calls return, possibly after the entries were evicted as idle) / idleAfterFailedRefresh (real-time bracketing of last use and failed refresh, then a tick between the two idle deadlines). TTL 15 / negative TTL 5 / idle 25 min, or TTL 40 / negative 35 / idle 25 min (unused but still fresh), so that every comparison has >= 5 min of margin against seconds of real drift. Oracle: answer-per-request multiset, cache model (never forgets good data), refresh and eviction sets, cache-size gauges; slow-consumer layer: 3..200 distinct sources submitted while the client does not read answers, then read in drawn bursts - exactly one answer per source, carrying what the provider said. Non-trivial = a success followed by a failed refresh of the same source, or >= 2 sources in one provider call, or a refresh answer arriving after its entry was evicted")
	vt.Main(m)
}

// cache timing, drawn per case: either both TTLs are shorter than the idle period (entries get refreshed while in use)
// or both are longer (an unused entry is evicted although it is still fresh)
var (
	ttl    = 15 * time.Minute
	negTTL = 5 * time.Minute
	idle   = 25 * time.Minute
)

const refresh = time.Minute

// two of the sources are other spellings of an address (of another source, of no other source): a source is what was submitted,
// and it is answered and cached under that
var sources = []gostatsd.Source{"10.0.0.1", "10.0.0.2", "10.0.0.3", "10.0.0.4", "::ffff:10.0.0.1", "2001:DB8::A"}

type outcome int

const (
	full outcome = iota
	partial
	empty
	failPartial
	failEmpty
)

type answer struct {
	ip   gostatsd.Source
	inst *gostatsd.Instance
}

type provider struct {
	mu       sync.Mutex
	max      int
	script   []outcome
	calls    [][]gostatsd.Source
	answers  []answer // expected answers in the order the dispatcher produces them
	gen      int
	bigBatch bool
	hold     chan struct{} // non-nil: calls block on entry until it is closed (a slow provider)
	force    int           // >= 0: outcome of every call while set (overrides the script)
}

func (p *provider) Name() string           { return "scripted" }
func (p *provider) MaxInstancesBatch() int { return p.max }
func (p *provider) EstimatedTags() int     { return 1 }
func (p *provider) Instance(ctx context.Context, ips ...gostatsd.Source) (map[gostatsd.Source]*gostatsd.Instance, error) {
	p.mu.Lock()
	hold := p.hold
	p.mu.Unlock()
	if hold != nil {
		select {
		case <-hold:
		case <-ctx.Done():
			return nil, ctx.Err()
		}
	}
	p.mu.Lock()
	defer p.mu.Unlock()
	o := p.script[len(p.calls)%len(p.script)]
	if p.force >= 0 {
		o = outcome(p.force)
	}
	p.calls = append(p.calls, append([]gostatsd.Source(nil), ips...))
	if len(ips) >= 2 {
		p.bigBatch = true
	}
	res := map[gostatsd.Source]*gostatsd.Instance{}
	var err error
	for i, ip := range ips {
		found := false
		switch o {
		case full:
			found = true
		case partial, failPartial:
			found = i%2 == 0
		}
		if found {
			p.gen++
			res[ip] = &gostatsd.Instance{ID: gostatsd.Source(fmt.Sprintf("i-%s-%d", ip, p.gen)), Tags: gostatsd.Tags{"gen:" + fmt.Sprint(p.gen)}}
		}
	}
	if o == failPartial || o == failEmpty {
		err = errors.New("scripted provider error")
	}
	for _, ip := range ips {
		p.answers = append(p.answers, answer{ip, res[ip]})
	}
	return res, err
}

type entry struct {
	inst    *gostatsd.Instance
	lastNeg bool // the last answer for this entry was nil (it then carries the negative TTL)
}

func TestInstanceCacheHistories(t *testing.T) {
	rapid.Check(t, func(t *rapid.T) {
		if rapid.Bool().Draw(t, "ttl-longer-than-idle") {
			ttl, negTTL, idle = 40*time.Minute, 35*time.Minute, 25*time.Minute
		} else {
			ttl, negTTL, idle = 15*time.Minute, 5*time.Minute, 25*time.Minute
		}
		prov := &provider{max: rapid.SampledFrom([]int{1, 2, 5}).Draw(t, "max-batch"), force: -1}
		prov.script = rapid.SliceOfN(rapid.SampledFrom([]outcome{full, full, partial, empty, failPartial, failEmpty}), 8, 8).Draw(t, "provider-script")
		clk := rig.NewOwnedClock(time.Now())
		// the lookup rate limiter: unlimited, or a fast finite one whose burst is below, at or above the provider's batch limit
		limiter := rate.NewLimiter(rate.Inf, 1)
		if b := rapid.SampledFrom([]int{0, 1, 2, 15}).Draw(t, "limiter-burst"); b > 0 {
			limiter = rate.NewLimiter(rate.Limit(1e6), b)
		}
		ccp := cloudprovider.NewCachedCloudProvider(logrus.StandardLogger(), limiter, prov,
			gostatsd.CacheOptions{CacheRefreshPeriod: refresh, CacheEvictAfterIdlePeriod: idle, CacheTTL: ttl, CacheNegativeTTL: negTTL})
		st := fakes.NewStatser()
		ctx, cancel := context.WithCancel(clock.Context(context.Background(), clk))
		runDone := make(chan struct{})
		go func() { ccp.Run(ctx); close(runDone) }()
		go ccp.RunMetrics(ctx, st)
		tick := clk.Ticker(0, 30*time.Second)
		if tick == nil {
			t.Fatalf("refresh ticker not created")
		}
		// drain InfoSource continuously so that the provider's loop never blocks on the client
		var amu sync.Mutex
		var received []answer
		drainDone := make(chan struct{})
		go func() {
			defer close(drainDone)
			for {
				select {
				case <-ctx.Done():
					return
				case info := <-ccp.InfoSource():
					amu.Lock()
					received = append(received, answer{info.IP, info.Instance})
					amu.Unlock()
				}
			}
		}()
		var held chan struct{}
		defer func() {
			cancel()
			if held != nil {
				close(held)
			}
			<-drainDone
			select {
			case <-runDone:
			case <-time.After(30 * time.Second):
			}
		}()

		model := map[gostatsd.Source]*entry{}
		applied := 0 // provider-side answers already folded into the model
		expected := 0
		var history []string
		keptAfterFailure := false

		fail := func(sig, f string, a ...interface{}) {
			vt.WriteCase(map[string]interface{}{"history": history, "max_batch": prov.max, "script": fmt.Sprint(prov.script)})
			vt.Fail(t, sig, "%s; max-batch %d script %v; history: %s", fmt.Sprintf(f, a...), prov.max, prov.script, strings.Join(history, " | "))
		}
		// waitAnswers waits until `expected` answers have reached the client, then folds the provider-side answers into the model
		waitAnswers := func() {
			deadline := time.Now().Add(30 * time.Second)
			for {
				amu.Lock()
				n := len(received)
				amu.Unlock()
				if n >= expected {
					break
				}
				if time.Now().After(deadline) {
					fail("C12:answer-missing", "%d answers expected on InfoSource, %d arrived within 30s", expected, n)
				}
				time.Sleep(200 * time.Microsecond)
			}
			prov.mu.Lock()
			ans := append([]answer(nil), prov.answers...)
			prov.mu.Unlock()
			for ; applied < len(ans); applied++ {
				a := ans[applied]
				e := model[a.ip]
				if e == nil {
					model[a.ip] = &entry{inst: a.inst, lastNeg: a.inst == nil}
					continue
				}
				if a.inst == nil {
					if e.inst != nil {
						keptAfterFailure = true
					}
					e.lastNeg = true
				} else {
					e.inst, e.lastNeg = a.inst, false
				}
			}
			// the multiset of answers the client saw equals what the provider produced, one per source per call
			amu.Lock()
			got := append([]answer(nil), received...)
			amu.Unlock()
			if len(got) != len(ans) {
				fail("C12:answer-count", "provider calls produced %d (source, result) pairs, the client received %d answers", len(ans), len(got))
			}
			key := func(a answer) string {
				if a.inst == nil {
					return string(a.ip) + "=nil"
				}
				return string(a.ip) + "=" + string(a.inst.ID)
			}
			var g, w []string
			for _, a := range got {
				g = append(g, key(a))
			}
			for _, a := range ans {
				w = append(w, key(a))
			}
			sort.Strings(g)
			sort.Strings(w)
			if strings.Join(g, ",") != strings.Join(w, ",") {
				fail("C12:answers-differ", "client received %v, provider calls produced %v", g, w)
			}
		}
		checkPeeks := func() {
			for _, s := range sources {
				in, hit := ccp.Peek(s)
				e := model[s]
				if (e != nil) != hit {
					fail("C12:peek-hit", "Peek(%q) hit=%v, model says present=%v", s, hit, e != nil)
				}
				if e != nil {
					if (e.inst == nil) != (in == nil) || (in != nil && in.ID != e.inst.ID) {
						fail("C12:peek-instance", "Peek(%q) returns %+v, model has %+v", s, in, e.inst)
					}
				}
			}
		}

		// emitBarrier makes the provider's event loop perform a stats emission: since the loop is a single goroutine,
		// everything it received before (a refresh tick, answers) has been fully handled when the emission is observed.
		emitBarrier := func() {
			_, n0 := st.GaugeValue("cloudprovider.cache_positive")
			chans := st.FlushChans()
			for i := 0; len(chans) == 0 && i < 100000; i++ {
				time.Sleep(20 * time.Microsecond)
				chans = st.FlushChans()
			}
			deadline := time.Now().Add(30 * time.Second)
			for {
				for _, c := range chans {
					c <- 0
				}
				ok := false
				for i := 0; i < 200; i++ {
					if _, n := st.GaugeValue("cloudprovider.cache_negative"); n > n0 {
						ok = true
						break
					}
					time.Sleep(50 * time.Microsecond)
				}
				if ok {
					break
				}
				if time.Now().After(deadline) {
					fail("C12:emit-never-lands", "stats emission not performed within 30s")
				}
			}
		}

		heldExpected := 0
		idleAfterRefresh := false
		var heldSet []gostatsd.Source
		heldBefore := 0
		evictedWhileHeld := false
		lateAnswerAfterEviction := false
		release := func() {
			history = append(history, "release")
			prov.mu.Lock()
			prov.hold = nil
			prov.mu.Unlock()
			close(held)
			held = nil
			expected += heldExpected
			heldExpected = 0
			waitAnswers()
			var queried []gostatsd.Source
			for _, c := range prov.snapshotCalls()[heldBefore:] {
				queried = append(queried, c...)
			}
			sort.Slice(queried, func(i, j int) bool { return queried[i] < queried[j] })
			if fmt.Sprint(queried) != fmt.Sprint(heldSet) {
				fail("C12:refresh-set", "slow provider released: it was asked for %v, the entries past their TTL at the tick were %v", queried, heldSet)
			}
			if evictedWhileHeld {
				lateAnswerAfterEviction = true
			}
			evictedWhileHeld = false
			checkPeeks()
		}
		t.Repeat(map[string]func(*rapid.T){
			"tickSlowProvider": func(t *rapid.T) {
				// a refresh tick whose provider calls do not return until "release": the refresh stays outstanding
				if held != nil || ttl > idle {
					t.Skip("provider already blocked, or nothing is ever refreshed in this configuration")
				}
				delta := 20 * time.Minute
				var refreshSet []gostatsd.Source
				for s := range model {
					refreshSet = append(refreshSet, s) // 20 min is past both TTLs and within the idle period
				}
				if len(refreshSet) == 0 {
					t.Skip("nothing cached")
				}
				sort.Slice(refreshSet, func(i, j int) bool { return refreshSet[i] < refreshSet[j] })
				history = append(history, fmt.Sprintf("tickSlowProvider(+%v)", delta))
				held = make(chan struct{})
				prov.mu.Lock()
				prov.hold = held
				prov.mu.Unlock()
				heldBefore = len(prov.snapshotCalls())
				select {
				case tick <- time.Now().Add(delta):
				case <-time.After(30 * time.Second):
					fail("C12:tick-not-taken", "refresh tick not taken within 30s")
				}
				emitBarrier()
				heldExpected = len(refreshSet)
				heldSet = refreshSet
				checkPeeks()
			},
			"idleAfterFailedRefresh": func(t *rapid.T) {
				// the idle period counts from an entry's last use, not from its last refresh: entries are used at real time
				// <= b, a refresh that finds nothing is handled at real time >= c, and a tick stamped between b+idle and
				// c+idle must evict them all
				if held != nil || len(model) == 0 || ttl > idle {
					t.Skip("needs cached entries, a responsive provider and TTLs below the idle period")
				}
				checkPeeks()
				b := time.Now()
				time.Sleep(30 * time.Millisecond)
				c := time.Now()
				var refreshSet []gostatsd.Source
				for s := range model {
					refreshSet = append(refreshSet, s)
				}
				prov.mu.Lock()
				prov.force = int(failEmpty)
				prov.mu.Unlock()
				history = append(history, "idleAfterFailedRefresh: failing refresh of everything, then a tick just past the idle period of the last use")
				select {
				case tick <- c.Add(20 * time.Minute):
				case <-time.After(30 * time.Second):
					fail("C12:tick-not-taken", "refresh tick not taken within 30s")
				}
				emitBarrier()
				expected += len(refreshSet)
				waitAnswers()
				prov.mu.Lock()
				prov.force = -1
				prov.mu.Unlock()
				select {
				case tick <- b.Add(idle).Add(c.Sub(b) / 2):
				case <-time.After(30 * time.Second):
					fail("C12:tick-not-taken", "refresh tick not taken within 30s")
				}
				emitBarrier()
				for s := range model {
					delete(model, s)
				}
				idleAfterRefresh = true
				checkPeeks()
			},
			"release": func(t *rapid.T) {
				if held == nil {
					t.Skip("provider not blocked")
				}
				release()
			},
			"submit": func(t *rapid.T) {
				if held != nil {
					t.Skip("the lookup dispatcher is inside the blocked provider call")
				}
				srcs := rapid.SliceOfN(rapid.SampledFrom(sources), 1, 3).Draw(t, "sources")
				history = append(history, fmt.Sprintf("submit%v", srcs))
				for _, s := range srcs {
					select {
					case ccp.IpSink() <- s:
					case <-time.After(30 * time.Second):
						fail("C12:submit-not-accepted", "IpSink did not accept %q within 30s", s)
					}
					expected++
				}
				waitAnswers()
				// every submitted source appears in some provider call
				prov.mu.Lock()
				seen := map[gostatsd.Source]int{}
				for _, c := range prov.calls {
					if len(c) > prov.max {
						prov.mu.Unlock()
						fail("C12:batch-limit", "provider called with %d sources, limit %d", len(c), prov.max)
					}
					for _, s := range c {
						seen[s]++
					}
				}
				prov.mu.Unlock()
				for _, s := range srcs {
					if seen[s] == 0 {
						fail("C12:never-queried", "submitted source %q never reached the provider", s)
					}
				}
				checkPeeks()
			},
			"peek": func(t *rapid.T) {
				history = append(history, "peek")
				checkPeeks()
			},
			"tick": func(t *rapid.T) {
				k := rapid.IntRange(0, 4).Draw(t, "k")
				if held != nil {
					// while a refresh is outstanding only ticks that queue nothing new: no time passed, or everything idle
					k = []int{0, 3, 3, 4, 4}[k]
					if k >= 3 && len(model) > 0 {
						evictedWhileHeld = true
					}
				}
				delta := time.Duration(k) * 10 * time.Minute
				history = append(history, fmt.Sprintf("tick(+%v)", delta))
				var refreshSet []gostatsd.Source
				cachedBefore := len(model)
				for s, e := range model {
					switch {
					case delta > idle:
						delete(model, s)
					case e.lastNeg && delta > negTTL, !e.lastNeg && delta > ttl:
						refreshSet = append(refreshSet, s)
					}
				}
				before := len(prov.snapshotCalls())
				// the harness stands in for the ticker's clock: a ticker the provider has stopped does not tick. Without a running
				// refresh ticker nothing cached is ever refreshed or evicted again.
				if clk.Len() == 0 && cachedBefore > 0 {
					fail("C12:refresh-ticker-stopped", "the provider has no running refresh ticker any more although %d entries are cached", cachedBefore)
				}
				select {
				case tick <- time.Now().Add(delta):
				case <-time.After(30 * time.Second):
					fail("C12:tick-not-taken", "refresh tick not taken within 30s")
				}
				emitBarrier() // the refresh has run when the emission that follows it is observed
				expected += len(refreshSet)
				waitAnswers()
				// exactly the refresh set was queried again
				var queried []gostatsd.Source
				for _, c := range prov.snapshotCalls()[before:] {
					queried = append(queried, c...)
				}
				sort.Slice(queried, func(i, j int) bool { return queried[i] < queried[j] })
				sort.Slice(refreshSet, func(i, j int) bool { return refreshSet[i] < refreshSet[j] })
				if fmt.Sprint(queried) != fmt.Sprint(refreshSet) {
					fail("C12:refresh-set", "tick at now+%v: provider was asked for %v, entries past their TTL are %v", delta, queried, refreshSet)
				}
				checkPeeks()
			},
			"emit": func(t *rapid.T) {
				history = append(history, "emit")
				emitBarrier()
				pos, neg := 0, 0
				for _, e := range model {
					if e.inst != nil {
						pos++
					} else {
						neg++
					}
				}
				gp, _ := st.GaugeValue("cloudprovider.cache_positive")
				gn, _ := st.GaugeValue("cloudprovider.cache_negative")
				if gp != float64(pos) || gn != float64(neg) {
					fail("C12:cache-gauges", "cache_positive=%v cache_negative=%v but the cache holds %d positive and %d negative entries", gp, gn, pos, neg)
				}
			},
		})
		if held != nil {
			release()
		}
		// no stray answers: wait longer than the batching delay and compare once more
		time.Sleep(25 * time.Millisecond)
		waitAnswers()
		checkPeeks()
		nt := keptAfterFailure || prov.bigBatch
		labels := []string{fmt.Sprintf("max-batch=%d", prov.max)}
		if keptAfterFailure {
			labels = append(labels, "good-data-kept-after-failed-refresh")
		}
		if prov.bigBatch {
			labels = append(labels, "multi-source-provider-call")
		}
		if idleAfterRefresh {
			labels = append(labels, "idle-eviction-after-failed-refresh")
		}
		if lateAnswerAfterEviction {
			labels = append(labels, "refresh-answer-after-idle-eviction")
			nt = true
		}
		if ev.C().WantSample() {
			ev.C().Sample(map[string]interface{}{"max_batch": prov.max, "script": fmt.Sprint(prov.script), "history": history, "provider_calls": fmt.Sprint(prov.snapshotCalls())})
		}
		ev.C().Case(fmt.Sprintf("%d|%v|%s", prov.max, prov.script, strings.Join(history, "|")), nt, labels...)
	})
}

func (p *provider) snapshotCalls() [][]gostatsd.Source {
	p.mu.Lock()
	defer p.mu.Unlock()
	return append([][]gostatsd.Source(nil), p.calls...)
}
