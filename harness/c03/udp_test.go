package c03

import (
	"bytes"
	"fmt"
	"testing"
	"time"

	"pgregory.net/rapid"

	"verifharness/internal/ev"
	"verifharness/internal/rig"
	"verifharness/internal/vt"
)

// TestUDPReceiver sends generated datagrams through a real UDP socket into the real DatagramReceiver (batched
// reads into pooled 64 KiB buffers) and DatagramParser. Oracle: neither goroutine dies or wedges, every line of
// every datagram is accounted as metric, event or bad line, and a good datagram afterwards is parsed.
func TestUDPReceiver(t *testing.T) {
	rapid.Check(t, func(t *rapid.T) {
		ns := rapid.SampledFrom([]string{"", "ns"}).Draw(t, "ns")
		ignoreHost := rapid.Bool().Draw(t, "ignore-host")
		batch := rapid.SampledFrom([]int{1, 2, 8, 50}).Draw(t, "receive-batch-size")
		u, err := rig.NewUDP(ns, ignoreHost, 2, batch)
		if err != nil {
			t.Skip("no loopback socket: " + err.Error())
		}
		defer u.Close()
		k := rapid.IntRange(1, 5).Draw(t, "datagrams")
		var wantTotal float64
		nontrivial := false
		var all [][]byte
		for i := 0; i < k; i++ {
			var d []byte
			if rapid.IntRange(0, 9).Draw(t, "empty") == 0 {
				d = []byte{}
			} else {
				d = datagramGen().Draw(t, "datagram")
			}
			if len(d) > 65507 {
				d = d[:65507] // the largest UDP payload
			}
			all = append(all, d)
			if p := u.Send(d); p != "" {
				vt.WriteCase(map[string]interface{}{"datagram": string(d), "outcome": p})
				switch {
				case p == "HANG":
					vt.Fail(t, "C03:parser-wedged", "receiver/parser did not finish datagram %q within 60s", trunc(d))
				case len(p) > 5 && p[:5] == "WRITE":
					t.Skip("client socket: " + p)
				}
				vt.Fail(t, "C03:parser-panic", "ingestion goroutine died on datagram %q received over UDP: %s", trunc(d), firstLine(p))
			}
			wantTotal += float64(len(segments(d))) + 1 // + the sentinel line
			// the parser adds to its counters after it has dispatched the batch: progress wait for the expected total
			m, e, b := u.Counters()
			for deadline := time.Now().Add(30 * time.Second); m+e+b < wantTotal && time.Now().Before(deadline); m, e, b = u.Counters() {
				time.Sleep(200 * time.Microsecond)
			}
			if m+e+b != wantTotal {
				vt.Fail(t, "C03:line-accounting", "after datagram %d (%q) over UDP: metrics %v + events %v + bad lines %v = %v, lines sent so far (with sentinels) %v", i, trunc(d), m, e, b, m+e+b, wantTotal)
			}
			if bytes.Contains(d, []byte("_e{")) || len(d) > 1500 || len(d) == 0 {
				nontrivial = true
			}
		}
		u.Sink.Reset()
		if p := u.Send([]byte("ok.metric:7|c\n_e{1,1}:a|b\nok.timer:1.5|ms|#t:1")); p != "" {
			vt.Fail(t, "C03:parser-dead-after", "ingestion did not serve the following datagram: %s", firstLine(p))
		}
		maps, evs := u.Sink.Snapshot()
		name := "ok.metric"
		if ns != "" {
			name = ns + ".ok.metric"
		}
		okc := false
		for _, mm := range maps {
			for _, c := range mm.Counters[name] {
				okc = okc || c.Value == 7
			}
		}
		if !okc || len(evs) != 1 || evs[0].Title != "a" {
			vt.Fail(t, "C03:later-input-lost", "the good datagram after %d generated ones was not parsed (maps=%d events=%d)", k, len(maps), len(evs))
		}
		canon := fmt.Sprintf("U|%s|%v|%d", ns, ignoreHost, batch)
		for _, d := range all {
			canon += "|" + string(d)
		}
		ev.C().Case(canon, nontrivial, "udp-receiver", fmt.Sprintf("receive-batch=%d", batch))
		if ev.C().WantSample() {
			var ds []string
			for _, d := range all {
				ds = append(ds, trunc(d))
			}
			ev.C().Sample(map[string]interface{}{"udp_datagrams": ds, "receive_batch_size": batch})
		}
	})
}
