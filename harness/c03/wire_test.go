package c03

import (
	"bufio"
	"fmt"
	"io"
	"log"
	"math"
	"net"
	"net/http"
	"net/http/httptest"
	"strconv"
	"strings"
	"testing"
	"time"

	"github.com/atlassian/gostatsd"
	"github.com/atlassian/gostatsd/pb"
	"github.com/atlassian/gostatsd/pkg/web"
	"github.com/sirupsen/logrus"
	"google.golang.org/protobuf/proto"
	"pgregory.net/rapid"

	"verifharness/internal/ev"
	"verifharness/internal/fakes"
	"verifharness/internal/gen"
	"verifharness/internal/vt"
)

// TestHTTPWire delivers requests to the ingestion router over a real TCP connection, so that everything a peer
// controls is generated: the body bytes, Content-Encoding, and the framing (honest Content-Length, chunked, a
// Content-Length that is smaller or - up to 2^63-1 - larger than what is actually sent before the peer stops).
// Oracle: every request is answered with an HTTP status (a handler panic makes net/http drop the connection
// without one; an unrecoverable runtime error kills the process, which the driver reports), nothing is dispatched
// unless the answer is 202, and a valid request afterwards is served.
func TestHTTPWire(t *testing.T) {
	sink := fakes.NewSink()
	srv, err := web.NewHttpServer(logrus.StandardLogger(), sink, "verif", "127.0.0.1:0", false, false, true, false, nil, nil)
	if err != nil {
		t.Fatal(err)
	}
	ts := httptest.NewUnstartedServer(srv.Router)
	ts.Config.ErrorLog = log.New(io.Discard, "", 0)
	ts.Start()
	defer ts.Close()
	addr := ts.Listener.Addr().String()
	goodRaw, _ := proto.Marshal(toProto(gen.MapFromMetrics([]*gostatsd.Metric{{Name: "after", Type: gostatsd.COUNTER, Value: 3, Rate: 1}})))
	goodEvent, _ := proto.Marshal(&pb.EventV2{Title: "after"})
	rapid.Check(t, func(t *rapid.T) {
		event := rapid.Bool().Draw(t, "event-endpoint")
		path := "/v2/raw"
		if event {
			path = "/v2/event"
		}
		bc := bodyGen(event).Draw(t, "body")
		if len(bc.body) > 1<<16 {
			bc.body = bc.body[:1<<16]
		}
		// HTTP strips optional whitespace around a header value: what the handler sees is the trimmed encoding
		switch strings.TrimSpace(bc.encoding) {
		case "", "identity":
			bc.passes = true
		case "deflate":
			_, err := fakes.Inflate("deflate", bc.body)
			bc.passes = err == nil
		case "lz4":
			_, err := fakes.Inflate("lz4", bc.body)
			bc.passes = err == nil
		default:
			bc.passes = false
		}
		framing := rapid.SampledFrom([]string{"honest", "honest", "chunked", "declared-smaller", "declared+1", "declared+1000", "declared=2^31", "declared=2^32+5", "declared=2^40", "declared=2^62", "declared=2^63-1"}).Draw(t, "framing")
		var head strings.Builder
		fmt.Fprintf(&head, "POST %s HTTP/1.1\r\nHost: verif\r\nConnection: close\r\n", path)
		if bc.encoding != "" {
			fmt.Fprintf(&head, "Content-Encoding: %s\r\n", bc.encoding)
		}
		payload := bc.body
		honest := false
		switch framing {
		case "honest":
			fmt.Fprintf(&head, "Content-Length: %d\r\n", len(bc.body))
			honest = true
		case "chunked":
			head.WriteString("Transfer-Encoding: chunked\r\n")
			cut := 0
			if len(bc.body) > 0 {
				cut = rapid.IntRange(0, len(bc.body)).Draw(t, "chunk-cut")
			}
			var b []byte
			for _, part := range [][]byte{bc.body[:cut], bc.body[cut:]} {
				if len(part) > 0 {
					b = append(b, []byte(strconv.FormatInt(int64(len(part)), 16)+"\r\n")...)
					b = append(b, part...)
					b = append(b, '\r', '\n')
				}
			}
			payload = append(b, []byte("0\r\n\r\n")...)
			honest = true
		case "declared-smaller":
			fmt.Fprintf(&head, "Content-Length: %d\r\n", len(bc.body)/2)
		default:
			var n uint64
			switch framing {
			case "declared+1":
				n = uint64(len(bc.body)) + 1
			case "declared+1000":
				n = uint64(len(bc.body)) + 1000
			case "declared=2^31":
				n = 1 << 31
			case "declared=2^32+5":
				n = 1<<32 + 5
			case "declared=2^40":
				n = 1 << 40
			case "declared=2^62":
				n = 1 << 62
			default:
				n = math.MaxInt64
			}
			fmt.Fprintf(&head, "Content-Length: %d\r\n", n)
		}
		head.WriteString("\r\n")
		sink.Reset()
		code, err := exchange(addr, append([]byte(head.String()), payload...))
		desc := fmt.Sprintf("%s %s framing=%s (%d body bytes)", path, bc.desc, framing, len(bc.body))
		if err != nil {
			vt.WriteCase(map[string]interface{}{"path": path, "encoding": bc.encoding, "framing": framing, "body_hex": fmt.Sprintf("%x", bc.body), "error": err.Error()})
			vt.Fail(t, "C03:http-no-answer", "%s: the connection ended without an HTTP status (%v): the handler did not survive the request", desc, err)
		}
		if !(code == 202 || (code >= 400 && code <= 599)) {
			vt.Fail(t, "C03:http-status", "%s answered %d", desc, code)
		}
		maps, evs := sink.Snapshot()
		if code != 202 && len(maps)+len(evs) > 0 {
			vt.Fail(t, "C03:http-dispatch-on-error", "%s answered %d but dispatched %d maps / %d events", desc, code, len(maps), len(evs))
		}
		if honest && !bc.passes && code == 202 {
			vt.Fail(t, "C03:http-accepted-undecodable", "%s: body does not decompress under its declared encoding but was answered 202", desc)
		}
		sink.Reset()
		var follow strings.Builder
		fmt.Fprintf(&follow, "POST /v2/raw HTTP/1.1\r\nHost: verif\r\nConnection: close\r\nContent-Length: %d\r\n\r\n", len(goodRaw))
		if c, err := exchange(addr, append([]byte(follow.String()), goodRaw...)); err != nil || c != 202 {
			vt.Fail(t, "C03:http-later-request", "valid /v2/raw after %s answered %d (%v)", desc, c, err)
		}
		if c := serve(t, srv.Router, "/v2/event", compress("deflate", goodEvent, 6), "deflate"); c != 202 {
			vt.Fail(t, "C03:http-later-request", "valid /v2/event after %s answered %d", desc, c)
		}
		maps, evs = sink.Snapshot()
		if len(maps) != 1 || len(evs) != 1 || evs[0].Title != "after" || maps[0].Counters["after"][""].Value != 3 {
			vt.Fail(t, "C03:http-later-request", "valid requests after %s were not dispatched (maps=%d events=%d)", desc, len(maps), len(evs))
		}
		labels := []string{"http-wire", "framing=" + framing, "http-status=" + strconv.Itoa(code)}
		ev.C().Case(fmt.Sprintf("T|%s|%s|%s|%x", path, bc.encoding, framing, bc.body), !honest, labels...)
		if ev.C().WantSample() {
			ev.C().Sample(map[string]interface{}{"path": path, "body": bc.desc, "framing": framing, "bytes": len(bc.body), "status": code})
		}
	})
}

// exchange writes one raw request, half-closes the connection and reads the status of the answer.
func exchange(addr string, raw []byte) (int, error) {
	c, err := net.DialTimeout("tcp", addr, 30*time.Second)
	if err != nil {
		return 0, nil // local resource exhaustion is not the server's doing; treated by the caller as no result
	}
	tc := c.(*net.TCPConn)
	defer func() {
		tc.SetLinger(0) // RST instead of TIME_WAIT: thousands of cases share the ephemeral port range
		tc.Close()
	}()
	tc.SetDeadline(time.Now().Add(45 * time.Second))
	if _, err := tc.Write(raw); err != nil {
		// the server may answer and close before a large body is written; the answer is still readable
	}
	tc.CloseWrite()
	resp, err := http.ReadResponse(bufio.NewReader(tc), nil)
	if err != nil {
		return 0, err
	}
	io.Copy(io.Discard, io.LimitReader(resp.Body, 1<<16))
	resp.Body.Close()
	return resp.StatusCode, nil
}
