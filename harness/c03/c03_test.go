package c03

import (
	"bytes"
	"context"
	"fmt"
	"golang.org/x/time/rate"
	"io"
	"net/http"
	"net/http/httptest"
	"runtime/debug"
	"strconv"
	"strings"
	"sync"
	"sync/atomic"
	"testing"
	"time"

	"github.com/atlassian/gostatsd"
	"github.com/atlassian/gostatsd/pb"
	"github.com/atlassian/gostatsd/pkg/stats"
	"github.com/atlassian/gostatsd/pkg/statsd"
	"github.com/atlassian/gostatsd/pkg/web"
	"github.com/atlassian/gostatsd/verifhooks"
	"github.com/sirupsen/logrus"
	"google.golang.org/protobuf/proto"
	"pgregory.net/rapid"

	"verifharness/internal/ev"
	"verifharness/internal/fakes"
	"verifharness/internal/gen"
	"verifharness/internal/vt"
)

func TestMain(m *testing.M) {
	logrus.SetOutput(io.Discard)
	logrus.SetLevel(logrus.PanicLevel)
	ev.C().Rule("rapid + exhaustive header-pair enumeration + native fuzz: datagrams (NUL bytes, many newlines, long lines, event headers with declared lengths around 0, the line length, 2^31, 2^32, 2^63, 2^64 and uint64-wrapping digit strings) through the lexer and a real DatagramParser followed by a known-good datagram; HTTP bodies (valid, truncated, bit-flipped, random, empty, wrong codec, highly compressible) x Content-Encoding through the ingestion router followed by a valid request. Non-trivial = datagram with an event header that passes the header grammar or >= 3 segments of mixed outcome; HTTP body that passes decompression or is a damaged valid message")
	vt.Main(m)
}

// ---------- generators ----------

var boundaryNumbers = func() []string {
	var out []string
	add := func(v uint64) { out = append(out, strconv.FormatUint(v, 10)) }
	for _, b := range []uint64{0, 1, 2, 3, 5, 8, 9, 10} {
		add(b)
	}
	for _, b := range []uint64{1 << 31, 1 << 32, 1 << 63} {
		for d := uint64(0); d <= 12; d++ {
			add(b - d)
			add(b + d)
		}
	}
	for d := uint64(0); d <= 12; d++ {
		add(^uint64(0) - d)
	}
	out = append(out, "4294967290", "18446744073709551616", "18446744073709551621", "99999999999999999999", "999999999999999999999999",
		"20496382304121724020", "20496382304121724029", "20496382304121724017", "2049638230412172402", "184467440737095516160", "36893488147419103232",
		"00000000000000000000000005", "0000000000000000000004294967296", "", "-1", "+1", "1e3", "0x10")
	return out
}()

var bodies = []string{"abcde|xyz", "a|b", "|", "", "abcde|xyz|d:1|#t", "ab", "abcde|xyz|d:18446744073709551615", "a|b|d:99999999999999999999|h:x"}

func headerLine(n, m, body string) string { return "_e{" + n + "," + m + "}:" + body }

var linePieces = []string{"a:1|c", "b:2.5|ms|@0.5|#x,y:z", "g:3|g", "s:u|s", "_e{1,1}:a|b", "_e{1,1}:a|b|p:low|#t", "bad", ":", "|", "a:|c", "a:1|", "_e{", "_e{1,", "_e{1,1}", "_e{1,1}:", "_e{1,1}:a", "_", "__", "\x00", "a\x00b:1|c", "a:1|c\x00", "x:1|c|@", "x:1|c|#", "x:1|c||", " ", "\r", "\xff\xfe:1|g", "é:1|c"}

func datagramGen() *rapid.Generator[[]byte] {
	return rapid.Custom(func(t *rapid.T) []byte {
		switch rapid.IntRange(0, 5).Draw(t, "shape") {
		case 0: // arbitrary bytes incl. NUL and newline
			return rapid.SliceOfN(rapid.Byte(), 0, 300).Draw(t, "raw")
		case 1: // boundary event header
			n := rapid.SampledFrom(boundaryNumbers).Draw(t, "n")
			m := rapid.SampledFrom(boundaryNumbers).Draw(t, "m")
			return []byte(headerLine(n, m, rapid.SampledFrom(bodies).Draw(t, "body")))
		case 2: // event header with lengths near the real lengths
			title := strings.Repeat("t", rapid.IntRange(0, 6).Draw(t, "tl"))
			text := strings.Repeat("x", rapid.IntRange(0, 6).Draw(t, "xl"))
			dn := rapid.IntRange(-2, 2).Draw(t, "dn")
			dm := rapid.IntRange(-2, 2).Draw(t, "dm")
			return []byte(fmt.Sprintf("_e{%d,%d}:%s|%s%s", len(title)+dn, len(text)+dm, title, text, rapid.SampledFrom([]string{"", "|", "|d:1", "|#a,b", "|p:low|t:error", "|x"}).Draw(t, "attrs")))
		case 3: // very long line
			n := rapid.SampledFrom([]int{257, 300, 1000, 8192, 65000, 65535}).Draw(t, "long")
			fill := rapid.SampledFrom([]string{"a", "|", ":", ",", "#", "1", "\x00", "_e{1,1}:a|b|#", "\x80", "\xbf\x80", "\xc3\xa9", "\xff"}).Draw(t, "fill")
			s := rapid.SampledFrom([]string{"name:1|c|#", "name:1|c|#", "", "n", "_e{300,300}:"}).Draw(t, "long-prefix") + strings.Repeat(fill, n/len(fill))
			if len(s) > 65535 {
				s = s[:65535]
			}
			return []byte(s)
		default: // many lines of mixed quality
			k := rapid.IntRange(0, 12).Draw(t, "lines")
			var parts []string
			for i := 0; i < k; i++ {
				if v := rapid.IntRange(0, 5).Draw(t, "valid"); v == 0 {
					parts = append(parts, gen.Line().Draw(t, "line").Line)
				} else if v == 5 {
					// a valid line whose tag list repeats tags, host: tags among them, in any position (the ignore-host branch
					// edits the tag list while it walks it)
					tags := rapid.SliceOfN(rapid.SampledFrom([]string{"host:h", "host:h", "host:g", "host:", "x", "y", "z:1"}), 0, 6).Draw(t, "host-tags")
					parts = append(parts, "f:2|"+rapid.SampledFrom([]string{"c", "g", "ms", "s"}).Draw(t, "host-type")+"|#"+strings.Join(tags, ","))
				} else {
					parts = append(parts, rapid.SampledFrom(linePieces).Draw(t, "piece"))
				}
			}
			s := strings.Join(parts, "\n")
			if rapid.Bool().Draw(t, "trailing-newline") {
				s += "\n"
			}
			return []byte(s)
		}
	})
}

func segments(d []byte) [][]byte {
	if len(d) == 0 {
		return nil
	}
	parts := bytes.Split(d, []byte{'\n'})
	if len(parts[len(parts)-1]) == 0 {
		parts = parts[:len(parts)-1]
	}
	return parts
}

// ---------- lexer entry point ----------

var lexerHung int32

func lexNoPanic(t vt.TB, l *verifhooks.Lexer, line []byte, ns string) (m *gostatsd.Metric, e *gostatsd.Event, err error) {
	buf := append([]byte(nil), line...)
	defer func() {
		if p := recover(); p != nil {
			vt.WriteCase(map[string]interface{}{"line": string(line), "panic": fmt.Sprint(p), "stack": string(debug.Stack())})
			vt.Fail(t, "C03:lexer-panic", "lexer panicked on line %q: %v", trunc(line), p)
		}
	}()
	// a line that is never finished wedges the parser goroutine for good: bounded wait (10 s, then 1 s once it has happened -
	// a lexer that is still spinning cannot be used again, later calls get a fresh one)
	if atomic.LoadInt32(&lexerHung) != 0 {
		l = verifhooks.NewLexer(4)
	}
	type res struct {
		m   *gostatsd.Metric
		e   *gostatsd.Event
		err error
		p   interface{}
		st  []byte
	}
	ch := make(chan res, 1)
	go func() {
		var r res
		defer func() {
			if p := recover(); p != nil {
				r.p, r.st = p, debug.Stack()
			}
			ch <- r
		}()
		r.m, r.e, r.err = l.Run(buf, ns)
	}()
	patience := 10 * time.Second
	if atomic.LoadInt32(&lexerHung) != 0 {
		patience = time.Second
	}
	select {
	case r := <-ch:
		if r.p != nil {
			vt.WriteCase(map[string]interface{}{"line": string(line), "panic": fmt.Sprint(r.p), "stack": string(r.st)})
			vt.Fail(t, "C03:lexer-panic", "lexer panicked on line %q: %v", trunc(line), r.p)
		}
		m, e, err = r.m, r.e, r.err
	case <-time.After(patience):
		atomic.StoreInt32(&lexerHung, 1)
		vt.WriteCase(map[string]interface{}{"line": string(line), "hang": true})
		vt.Fail(t, "C03:lexer-wedged", "the lexer did not finish line %q within %v (namespace %q): the parser goroutine that took it is gone for good", trunc(line), patience, ns)
	}
	if err == nil && (m == nil) == (e == nil) {
		vt.Fail(t, "C03:lexer-no-outcome", "line %q: neither error nor exactly one of metric/event", trunc(line))
	}
	if m != nil {
		m.Done()
	}
	return
}

func trunc(b []byte) string {
	if len(b) > 120 {
		return string(b[:120]) + fmt.Sprintf("…(%d bytes)", len(b))
	}
	return string(b)
}

func TestLexerNeverPanics(t *testing.T) {
	l := verifhooks.NewLexer(2)
	rapid.Check(t, func(t *rapid.T) {
		d := datagramGen().Draw(t, "datagram")
		ns := rapid.SampledFrom([]string{"", "ns"}).Draw(t, "ns")
		okc, bad := 0, 0
		segs := segments(d)
		for _, s := range segs {
			_, _, err := lexNoPanic(t, l, s, ns)
			if err != nil {
				bad++
			} else {
				okc++
			}
		}
		hdr := bytes.Contains(d, []byte("_e{"))
		ev.C().Case("L|"+string(d), hdr || (okc > 0 && bad > 0 && len(segs) >= 3), labelsFor(d, okc, bad)...)
	})
}

func labelsFor(d []byte, okc, bad int) []string {
	l := []string{}
	if bytes.Contains(d, []byte("_e{")) {
		l = append(l, "has-event-header")
	}
	if bytes.IndexByte(d, 0) >= 0 {
		l = append(l, "has-NUL")
	}
	if len(d) > 8000 {
		l = append(l, "long")
	}
	if okc > 0 {
		l = append(l, "some-accepted")
	}
	if bad > 0 {
		l = append(l, "some-rejected")
	}
	return l
}

// TestHeaderBoundaryPairs enumerates every (n, m) pair of the boundary set with every small body: exhaustive over that grid.
func TestHeaderBoundaryPairs(t *testing.T) {
	l := verifhooks.NewLexer(0)
	n := 0
	for _, a := range boundaryNumbers {
		for _, b := range boundaryNumbers {
			for _, body := range bodies {
				line := headerLine(a, b, body)
				lexNoPanic(t, l, []byte(line), "")
				n++
				ev.C().Case("H|"+line, true, "header-pair-grid")
			}
		}
	}
	ev.C().Extra("header_pairs_enumerated", int64(n))
	if ev.C().WantSample() || true {
		ev.C().Sample(map[string]interface{}{"header_grid_example": headerLine("4294967290", "5", "abcde|xyz"), "grid": fmt.Sprintf("%d numbers x %d numbers x %d bodies", len(boundaryNumbers), len(boundaryNumbers), len(bodies))})
	}
}

// ---------- real DatagramParser with accounting ----------

type parserRig struct {
	in      chan []*statsd.Datagram
	sink    *fakes.Sink
	st      *fakes.Statser
	cancel  context.CancelFunc
	panicCh chan interface{}
	badPrev float64
}

// parserOptions: bad-line logging (a rate limit > 0 enables it) and raw-metric logging are part of the parser's
// configuration; both touch every line, so they are drawn per case.
var (
	badLineLogRate rate.Limit
	logRawMetric   bool
)

func newRig(ns string, ignoreHost bool) *parserRig {
	r := &parserRig{in: make(chan []*statsd.Datagram), sink: fakes.NewSink(), st: fakes.NewStatser(), panicCh: make(chan interface{}, 2)}
	dp := statsd.NewDatagramParser(r.in, ns, ignoreHost, 0, r.sink, badLineLogRate, logRawMetric, logrus.StandardLogger())
	ctx, cancel := context.WithCancel(stats.NewContext(context.Background(), r.st))
	r.cancel = cancel
	go func() {
		defer func() {
			if p := recover(); p != nil {
				r.panicCh <- fmt.Sprintf("%v\n%s", p, debug.Stack())
			}
		}()
		dp.Run(ctx)
	}()
	go dp.RunMetricsContext(ctx)
	return r
}

// feed sends one batch and waits until the parser has finished it (a sentinel batch's DoneFunc runs after
// the previous batch's accounting). Returns a non-empty string if the parser goroutine panicked.
func (r *parserRig) feed(dgs []*statsd.Datagram) string {
	send := func(b []*statsd.Datagram) string {
		select {
		case r.in <- b:
			return ""
		case p := <-r.panicCh:
			return fmt.Sprint(p)
		case <-time.After(60 * time.Second):
			return "HANG"
		}
	}
	if p := send(dgs); p != "" {
		return p
	}
	done := make(chan struct{})
	if p := send([]*statsd.Datagram{{Msg: nil, DoneFunc: func() { close(done) }}}); p != "" {
		return p
	}
	select {
	case <-done:
	case p := <-r.panicCh:
		return fmt.Sprint(p)
	case <-time.After(60 * time.Second):
		return "HANG"
	}
	return ""
}

// counters triggers two stats emissions (the second send returning means the first emission completed).
func (r *parserRig) counters() (metrics, events, bad float64) {
	var chans []chan time.Duration
	for i := 0; i < 2000 && len(chans) == 0; i++ {
		chans = r.st.FlushChans()
		if len(chans) == 0 {
			time.Sleep(time.Millisecond)
		}
	}
	for i := 0; i < 2; i++ {
		for _, c := range chans {
			c <- 0
		}
	}
	b, _ := r.st.GaugeValue("parser.bad_lines_seen")
	return r.st.CountValue("parser.metrics_received"), r.st.CountValue("parser.events_received"), b
}

func TestParserAccounting(t *testing.T) {
	rapid.Check(t, func(t *rapid.T) {
		d := datagramGen().Draw(t, "datagram")
		ns := rapid.SampledFrom([]string{"", "ns"}).Draw(t, "ns")
		ignoreHost := rapid.Bool().Draw(t, "ignore-host")
		badLineLogRate = rate.Limit(rapid.SampledFrom([]float64{0, 0, 1e6, 0.001}).Draw(t, "bad-line-log-rate"))
		logRawMetric = rapid.IntRange(0, 3).Draw(t, "log-raw-metric") == 0
		r := newRig(ns, ignoreHost)
		defer r.cancel()
		doneCalled := 0
		msg := append([]byte(nil), d...)
		if p := r.feed([]*statsd.Datagram{{IP: "1.2.3.4", Msg: msg, Timestamp: 10, DoneFunc: func() { doneCalled++ }}}); p != "" {
			vt.WriteCase(map[string]interface{}{"datagram": string(d), "panic": p})
			if p == "HANG" {
				vt.Fail(t, "C03:parser-wedged", "parser did not finish datagram %q within 60s", trunc(d))
			}
			vt.Fail(t, "C03:parser-panic", "DatagramParser panicked on datagram %q: %s", trunc(d), firstLine(p))
		}
		if doneCalled != 1 {
			vt.Fail(t, "C03:donefunc", "DoneFunc called %d times for one datagram", doneCalled)
		}
		segs := segments(d)
		m, e, b := r.counters()
		if int(m+e+b) != len(segs) {
			vt.Fail(t, "C03:line-accounting", "datagram %q has %d lines but metrics %v + events %v + bad lines %v = %v", trunc(d), len(segs), m, e, b, m+e+b)
		}
		_, evs := r.sink.Snapshot()
		if len(evs) != int(e) {
			vt.Fail(t, "C03:event-accounting", "events_received %v but %d events dispatched", e, len(evs))
		}
		// later input is still served
		r.sink.Reset()
		good := []byte("ok.metric:7|c\n_e{1,1}:a|b\nok.timer:1.5|ms|#t:1")
		if p := r.feed([]*statsd.Datagram{{IP: "5.6.7.8", Msg: good, Timestamp: 11, DoneFunc: func() {}}}); p != "" {
			vt.Fail(t, "C03:parser-dead-after", "parser did not serve the following datagram after %q: %s", trunc(d), firstLine(p))
		}
		maps, evs := r.sink.Snapshot()
		okc := false
		name := "ok.metric"
		if ns != "" {
			name = ns + ".ok.metric"
		}
		for _, mm := range maps {
			for _, c := range mm.Counters[name] {
				if c.Value == 7 {
					okc = true
				}
			}
		}
		if !okc || len(evs) != 1 || evs[0].Title != "a" {
			vt.Fail(t, "C03:later-input-lost", "after datagram %q the following good datagram was not parsed (maps=%d events=%d)", trunc(d), len(maps), len(evs))
		}
		hdr := bytes.Contains(d, []byte("_e{"))
		ev.C().Case("P|"+string(d), hdr || (m+e > 0 && b > 0 && len(segs) >= 3), append(labelsFor(d, int(m+e), int(b)), "parser")...)
		if ev.C().WantSample() {
			ev.C().Sample(map[string]interface{}{"datagram": trunc(d), "lines": len(segs), "metrics": m, "events": e, "bad_lines": b})
		}
	})
}

func firstLine(s string) string {
	if i := strings.IndexByte(s, '\n'); i > 0 {
		return s[:i]
	}
	return s
}

// ---------- HTTP ingestion ----------

func validRaw(t *rapid.T) []byte {
	ms := rapid.SliceOfN(gen.Datapoint(rapid.Int64Range(1, 3)), 0, 8).Draw(t, "points")
	mm := gen.MapFromMetrics(ms)
	msg := toProto(mm)
	b, err := proto.Marshal(msg)
	if err != nil {
		t.Fatalf("marshal: %v", err)
	}
	return b
}

func toProto(mm *gostatsd.MetricMap) *pb.RawMessageV2 {
	msg := &pb.RawMessageV2{Gauges: map[string]*pb.GaugeTagV2{}, Counters: map[string]*pb.CounterTagV2{}, Sets: map[string]*pb.SetTagV2{}, Timers: map[string]*pb.TimerTagV2{}}
	mm.Counters.Each(func(n, k string, c gostatsd.Counter) {
		if msg.Counters[n] == nil {
			msg.Counters[n] = &pb.CounterTagV2{TagMap: map[string]*pb.RawCounterV2{}}
		}
		msg.Counters[n].TagMap[k] = &pb.RawCounterV2{Tags: c.Tags, Hostname: string(c.Source), Value: c.Value}
	})
	mm.Gauges.Each(func(n, k string, c gostatsd.Gauge) {
		if msg.Gauges[n] == nil {
			msg.Gauges[n] = &pb.GaugeTagV2{TagMap: map[string]*pb.RawGaugeV2{}}
		}
		msg.Gauges[n].TagMap[k] = &pb.RawGaugeV2{Tags: c.Tags, Hostname: string(c.Source), Value: c.Value}
	})
	mm.Timers.Each(func(n, k string, c gostatsd.Timer) {
		if msg.Timers[n] == nil {
			msg.Timers[n] = &pb.TimerTagV2{TagMap: map[string]*pb.RawTimerV2{}}
		}
		msg.Timers[n].TagMap[k] = &pb.RawTimerV2{Tags: c.Tags, Hostname: string(c.Source), Values: c.Values, SampleCount: c.SampledCount}
	})
	mm.Sets.Each(func(n, k string, c gostatsd.Set) {
		if msg.Sets[n] == nil {
			msg.Sets[n] = &pb.SetTagV2{TagMap: map[string]*pb.RawSetV2{}}
		}
		var vs []string
		for v := range c.Values {
			vs = append(vs, v)
		}
		msg.Sets[n].TagMap[k] = &pb.RawSetV2{Tags: c.Tags, Hostname: string(c.Source), Values: vs}
	})
	return msg
}

func validEvent(t *rapid.T) []byte {
	e := &pb.EventV2{Title: rapid.SampledFrom([]string{"", "t", "título"}).Draw(t, "title"), Text: rapid.SampledFrom([]string{"", "x\ny"}).Draw(t, "text"),
		DateHappened: rapid.Int64().Draw(t, "date"), Hostname: "h", Tags: []string{"a", "b:c"},
		Priority: pb.EventV2_EventPriority(rapid.Int32Range(-1, 3).Draw(t, "prio")), Type: pb.EventV2_AlertType(rapid.Int32Range(-1, 5).Draw(t, "type"))}
	b, _ := proto.Marshal(e)
	return b
}

func compress(kind string, in []byte, level int) []byte {
	var out bytes.Buffer
	switch kind {
	case "deflate":
		web.CompressWithZlib(in, &out, level)
	case "lz4":
		web.CompressWithLz4(in, &out, level)
	default:
		return in
	}
	return out.Bytes()
}

var encodings = []string{"", "identity", "deflate", "lz4", "gzip", "garbage", "DEFLATE", "lz4 ", strings.Repeat("x", 100)}

type bodyCase struct {
	body     []byte
	encoding string
	desc     string
	passes   bool // body decompresses under the declared encoding
}

func bodyGen(event bool) *rapid.Generator[bodyCase] {
	return rapid.Custom(func(t *rapid.T) bodyCase {
		var plain []byte
		if event {
			plain = validEvent(t)
		} else {
			plain = validRaw(t)
		}
		desc := "valid"
		switch rapid.IntRange(0, 6).Draw(t, "damage") {
		case 0:
		case 1:
			if len(plain) > 0 {
				plain = plain[:rapid.IntRange(0, len(plain)-1).Draw(t, "cut")]
			}
			desc = "truncated"
		case 2:
			if len(plain) > 0 {
				i := rapid.IntRange(0, len(plain)-1).Draw(t, "flip")
				plain = append([]byte(nil), plain...)
				plain[i] ^= 1 << uint(rapid.IntRange(0, 7).Draw(t, "bit"))
			}
			desc = "bit-flipped"
		case 3:
			plain = rapid.SliceOfN(rapid.Byte(), 0, 200).Draw(t, "random")
			desc = "random"
		case 4:
			plain = nil
			desc = "empty"
		case 5:
			// highly compressible: a few KiB on the wire, megabytes after decompression (around and beyond round limits)
			n := rapid.SampledFrom([]int{1 << 20, 1 << 20, 4 << 20, 4<<20 + 1, 5 << 20, 16 << 20, 40 << 20}).Draw(t, "zeros")
			plain = zeros(n)
			desc = fmt.Sprintf("%dMiB-zeros", n>>20)
		default:
			// deeply nested / repeated field garbage that is still length-delimited
			plain = bytes.Repeat([]byte{0x0a, 0x02, 0x0a, 0x00}, rapid.IntRange(1, 2000).Draw(t, "rep"))
			desc = "repeated-fields"
		}
		wire := rapid.SampledFrom([]string{"", "deflate", "lz4"}).Draw(t, "compress-with")
		level := rapid.IntRange(0, 9).Draw(t, "level")
		var body []byte
		if len(plain) > 1<<20 {
			if wire == "" {
				wire = "deflate" // megabytes of zeros travel compressed
			}
			if level == 0 {
				level = 1
			}
			body = compressedZeros(wire, len(plain), level)
		} else {
			body = compress(wire, plain, level)
		}
		if rapid.IntRange(0, 5).Draw(t, "damage-compressed") == 0 && len(body) > 0 {
			i := rapid.IntRange(0, len(body)-1).Draw(t, "cflip")
			body = append([]byte(nil), body...)
			body[i] ^= 0x10
			desc += "+compressed-damaged"
		}
		enc := wire
		if rapid.IntRange(0, 2).Draw(t, "mismatch") == 0 {
			enc = rapid.SampledFrom(encodings).Draw(t, "encoding")
		}
		passes := false
		switch enc {
		case "", "identity":
			passes = true
		case "deflate":
			_, err := fakes.Inflate("deflate", body)
			passes = err == nil
		case "lz4":
			_, err := fakes.Inflate("lz4", body)
			passes = err == nil
		}
		return bodyCase{body: body, encoding: enc, desc: desc + "/wire=" + wire + "/enc=" + encLabel(enc), passes: passes}
	})
}

func encLabel(e string) string {
	if len(e) > 10 {
		return "long"
	}
	if e == "" {
		return "none"
	}
	return e
}

func serve(t vt.TB, router http.Handler, path string, body []byte, enc string) (code int) {
	type res struct {
		code int
		p    interface{}
		st   string
	}
	ch := make(chan res, 1)
	go func() {
		defer func() {
			if p := recover(); p != nil {
				ch <- res{p: p, st: string(debug.Stack())}
			}
		}()
		req := httptest.NewRequest("POST", path, bytes.NewReader(body))
		if enc != "" {
			req.Header.Set("Content-Encoding", enc)
		}
		rec := httptest.NewRecorder()
		router.ServeHTTP(rec, req)
		ch <- res{code: rec.Code}
	}()
	select {
	case r := <-ch:
		if r.p != nil {
			vt.WriteCase(map[string]interface{}{"path": path, "encoding": enc, "body_hex": fmt.Sprintf("%x", body), "panic": fmt.Sprint(r.p), "stack": r.st})
			vt.Fail(t, "C03:http-panic", "%s with Content-Encoding %q panicked on a %d-byte body: %v", path, enc, len(body), r.p)
		}
		return r.code
	case <-time.After(45 * time.Second):
		vt.Fail(t, "C03:http-wedged", "%s with Content-Encoding %q did not answer a %d-byte body within 45s", path, enc, len(body))
	}
	return 0
}

func TestHTTPIngestion(t *testing.T) {
	sink := fakes.NewSink()
	srv, err := web.NewHttpServer(logrus.StandardLogger(), sink, "verif", "127.0.0.1:0", false, false, true, false, nil, nil)
	if err != nil {
		t.Fatal(err)
	}
	goodRaw, _ := proto.Marshal(toProto(gen.MapFromMetrics([]*gostatsd.Metric{{Name: "after", Type: gostatsd.COUNTER, Value: 3, Rate: 1}})))
	goodEvent, _ := proto.Marshal(&pb.EventV2{Title: "after"})
	rapid.Check(t, func(t *rapid.T) {
		event := rapid.Bool().Draw(t, "event-endpoint")
		path := "/v2/raw"
		if event {
			path = "/v2/event"
		}
		bc := bodyGen(event).Draw(t, "body")
		sink.Reset()
		code := serve(t, srv.Router, path, bc.body, bc.encoding)
		if !(code == 202 || (code >= 400 && code <= 599)) {
			vt.Fail(t, "C03:http-status", "%s %s answered %d", path, bc.desc, code)
		}
		maps, evs := sink.Snapshot()
		if code != 202 && len(maps)+len(evs) > 0 {
			vt.Fail(t, "C03:http-dispatch-on-error", "%s %s answered %d but dispatched %d maps / %d events", path, bc.desc, code, len(maps), len(evs))
		}
		if !bc.passes && code == 202 {
			vt.Fail(t, "C03:http-accepted-undecodable", "%s %s: body does not decompress under its declared encoding but was answered 202", path, bc.desc)
		}
		// a following valid request is still served
		sink.Reset()
		if c := serve(t, srv.Router, "/v2/raw", goodRaw, ""); c != 202 {
			vt.Fail(t, "C03:http-later-request", "valid /v2/raw after %s answered %d", bc.desc, c)
		}
		if c := serve(t, srv.Router, "/v2/event", compress("deflate", goodEvent, 6), "deflate"); c != 202 {
			vt.Fail(t, "C03:http-later-request", "valid /v2/event after %s answered %d", bc.desc, c)
		}
		maps, evs = sink.Snapshot()
		if len(maps) != 1 || len(evs) != 1 || evs[0].Title != "after" || maps[0].Counters["after"][""].Value != 3 {
			vt.Fail(t, "C03:http-later-request", "valid requests after %s were not dispatched (maps=%d events=%d)", bc.desc, len(maps), len(evs))
		}
		labels := []string{"http", "http-" + path, "http-status=" + strconv.Itoa(code)}
		if bc.passes {
			labels = append(labels, "http-passes-decompression")
		}
		nt := (bc.passes && bc.encoding != "" && bc.encoding != "identity") || strings.HasPrefix(bc.desc, "truncated") || strings.HasPrefix(bc.desc, "bit-flipped")
		ev.C().Case(fmt.Sprintf("W|%s|%s|%x", path, bc.encoding, bc.body), nt, labels...)
		if ev.C().WantSample() {
			ev.C().Sample(map[string]interface{}{"path": path, "body": bc.desc, "bytes": len(bc.body), "status": code})
		}
	})
}

// ---------- native fuzz targets (thorough tier); their seed corpus also runs as plain tests ----------

var datagramSeeds = func() []string {
	s := []string{"a:1|c\nb:2|g\n", "_e{5,4294967290}:abcde|xyz", "_e{4294967295,4294967295}:a|b", "_e{1,1}:a|b|d:18446744073709551615",
		"_e{20496382304121724020,1}:a|b", "_e{0,0}:|", "a:1|c|@0.1|#t,,u\n\n\n", "\x00\x00", "_e{1,1}:a|b\x00|d:1", "a\x00:1|c", strings.Repeat("a", 70) + ":1|c|#" + strings.Repeat("t,", 500)}
	for _, n := range []string{"4294967290", "4294967296", "2147483648", "18446744073709551615", "9223372036854775808", "2049638230412172402"} {
		s = append(s, headerLine(n, "5", "abcde|xyz"), headerLine("5", n, "abcde|xyz"))
	}
	return s
}()

func FuzzDatagram(f *testing.F) {
	for _, s := range datagramSeeds {
		f.Add([]byte(s))
	}
	l := verifhooks.NewLexer(2)
	f.Fuzz(func(t *testing.T, d []byte) {
		if len(d) > 65535 {
			return
		}
		for _, s := range segments(d) {
			lexNoPanic(t, l, s, "")
		}
	})
}

func TestDatagramSeeds(t *testing.T) {
	l := verifhooks.NewLexer(2)
	for _, s := range datagramSeeds {
		for _, seg := range segments([]byte(s)) {
			lexNoPanic(t, l, seg, "")
		}
		ev.C().Case("DS|"+s, strings.Contains(s, "_e{"), "datagram-seed")
	}
}

func fuzzHTTP(f *testing.F, path string) {
	sink := fakes.NewSink()
	srv, err := web.NewHttpServer(logrus.StandardLogger(), sink, "verif", "127.0.0.1:0", false, false, true, false, nil, nil)
	if err != nil {
		f.Fatal(err)
	}
	good, _ := proto.Marshal(toProto(gen.MapFromMetrics([]*gostatsd.Metric{{Name: "n", Type: gostatsd.TIMER, Value: 3, Rate: 0.5, Tags: gostatsd.Tags{"a:b"}}, {Name: "s", Type: gostatsd.SET, StringValue: "x", Rate: 1}})))
	goodEv, _ := proto.Marshal(&pb.EventV2{Title: "t", Text: "x", Tags: []string{"a"}})
	for _, b := range [][]byte{good, goodEv, nil, {0x0a}, {0xff, 0xff, 0xff, 0xff, 0x0f}} {
		for e := 0; e < 4; e++ {
			f.Add(b, byte(e))
			f.Add(compress("deflate", b, 6), byte(e))
			f.Add(compress("lz4", b, 3), byte(e))
		}
	}
	f.Fuzz(func(t *testing.T, body []byte, e byte) {
		if len(body) > 1<<16 {
			return
		}
		enc := []string{"", "deflate", "lz4", "gzip"}[int(e)%4]
		code := serve(t, srv.Router, path, body, enc)
		if !(code == 202 || (code >= 400 && code <= 599)) {
			t.Fatalf("VSIG[C03:http-status] %s answered %d", path, code)
		}
		sink.Reset()
	})
}

func FuzzHTTPRaw(f *testing.F)   { fuzzHTTP(f, "/v2/raw") }
func FuzzHTTPEvent(f *testing.F) { fuzzHTTP(f, "/v2/event") }

var (
	zeroMu    sync.Mutex
	zeroBuf   []byte
	zeroCache = map[string][]byte{}
)

// zeros returns n zero bytes (shared, read-only).
func zeros(n int) []byte {
	zeroMu.Lock()
	defer zeroMu.Unlock()
	if len(zeroBuf) < n {
		zeroBuf = make([]byte, n)
	}
	return zeroBuf[:n]
}

// compressedZeros memoises the compressed form of n zero bytes: compressing 40 MiB per case would dominate the run.
func compressedZeros(wire string, n, level int) []byte {
	key := fmt.Sprintf("%s/%d/%d", wire, n, level)
	zeroMu.Lock()
	b, ok := zeroCache[key]
	zeroMu.Unlock()
	if ok {
		return b
	}
	b = compress(wire, zeros(n), level)
	zeroMu.Lock()
	zeroCache[key] = b
	zeroMu.Unlock()
	return b
}
