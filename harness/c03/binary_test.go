package c03

import (
	"fmt"
	"strings"
	"testing"
	"time"

	"pgregory.net/rapid"

	"verifharness/internal/ev"
	"verifharness/internal/gen"
	"verifharness/internal/rig"
	"verifharness/internal/vt"
)

// TestBinaryConfiguredIngestion runs the gostatsd command itself with generated ingestion settings (ignore-host,
// estimated-tags incl. 0, namespace, parsers, receive batch size, default tags), sends it generated datagrams - valid
// lines, near-misses, arbitrary bytes - and then a good line: the process is still there and the good line is flushed.
// The command line is how those settings reach the receiver, the parser and its pools.
func TestBinaryConfiguredIngestion(t *testing.T) {
	if rig.BinaryPath() == "" {
		t.Skip("GOSTATSD_BIN not set (the driver builds it)")
	}
	rapid.Check(t, func(t *rapid.T) {
		args := []string{"--flush-interval", "100ms", "--max-readers", "1", "--max-workers", "2"}
		if rapid.Bool().Draw(t, "ignore-host") {
			args = append(args, "--ignore-host")
		}
		args = append(args, "--estimated-tags", fmt.Sprint(rapid.SampledFrom([]int{0, 0, 1, 4}).Draw(t, "estimated-tags")))
		ns := rapid.SampledFrom([]string{"", "ns"}).Draw(t, "namespace")
		if ns != "" {
			args = append(args, "--namespace", ns)
		}
		args = append(args, "--max-parsers", fmt.Sprint(rapid.SampledFrom([]int{1, 3}).Draw(t, "max-parsers")))
		args = append(args, "--receive-batch-size", fmt.Sprint(rapid.SampledFrom([]int{1, 8}).Draw(t, "receive-batch-size")))
		if dt := rapid.SampledFrom([]string{"", "", "env:x"}).Draw(t, "default-tags"); dt != "" {
			args = append(args, "--default-tags", dt)
		}
		b, err := rig.StartBinary(args, 0)
		if err != nil {
			t.Skip("cannot start: " + err.Error())
		}
		defer b.Stop()
		if !b.AwaitLine("warmup:1|c", "warmup", 30*time.Second) {
			if b.Exited() && !b.BindFailed() {
				vt.Fail(t, "C03:process-died", "%s exited on its first ordinary line; output: %s", b.Describe(), b.Tail(30))
			}
			ev.C().Excluded("binary-not-serving", 1)
			t.Skip("gostatsd did not serve")
		}
		var sent []string
		n := rapid.IntRange(1, 12).Draw(t, "datagrams")
		for i := 0; i < n; i++ {
			var d string
			switch rapid.IntRange(0, 3).Draw(t, "kind") {
			case 0:
				d = gen.Line().Draw(t, "line").Line
			case 1:
				d = gen.Line().Draw(t, "line").Line + "\n" + gen.Line().Draw(t, "line2").Line
			case 2:
				d = string(rapid.SliceOfN(rapid.Byte(), 0, 40).Draw(t, "bytes"))
			default:
				d = "x:1|c|#host:h1,a:b\n_e{1,1}:a|b|#host:h2"
			}
			sent = append(sent, d)
			b.Send(d)
			time.Sleep(300 * time.Microsecond)
		}
		if !b.AwaitLine("after.all:1|c", "after.all", 30*time.Second) {
			if b.Exited() {
				vt.Fail(t, "C03:process-died", "%s exited after these datagrams: %q; output: %s", b.Describe(), sent, b.Tail(40))
			}
			vt.Fail(t, "C03:later-input-lost", "%s is running but did not flush a good line sent (repeatedly, for 30 s) after these datagrams: %q", b.Describe(), sent)
		}
		ev.C().Case(fmt.Sprintf("B|%s|%q", strings.Join(args, " "), sent), true, "binary-ingestion")
		if ev.C().WantSample() {
			ev.C().Sample(map[string]interface{}{"command": b.Describe(), "datagrams": sent})
		}
	})
}
