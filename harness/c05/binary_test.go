package c05

import (
	"fmt"
	"os"
	"sort"
	"strings"
	"testing"
	"time"

	"pgregory.net/rapid"

	"verifharness/internal/ev"
	"verifharness/internal/rig"
	"verifharness/internal/vt"
)

// TestBinaryIgnoreHost runs the gostatsd command itself with a generated backend list and ignore-host setting (flag,
// environment, configuration file, or left unset) and the stdout backend, and sends datagrams of several lines carrying
// host: tags. Which source and tags a line's series gets is decided by the effective ignore-host setting: what was
// configured, and when nothing was, the documented default (off; on when the New Relic backend is configured, see
// BACKENDS.md). The stdout backend prints each series as name.tags.s.source.
func TestBinaryIgnoreHost(t *testing.T) {
	if rig.BinaryPath() == "" {
		t.Skip("GOSTATSD_BIN not set (the driver builds it)")
	}
	rapid.Check(t, func(t *rapid.T) {
		backends := rapid.SampledFrom([]string{"stdout", "stdout", "stdout newrelic", "newrelic stdout"}).Draw(t, "backends")
		setting := rapid.SampledFrom([]string{"", "", "true", "false"}).Draw(t, "ignore-host")
		where := rapid.SampledFrom([]string{"flag", "env", "file"}).Draw(t, "where")
		args := []string{"--backends", backends, "--flush-interval", "100ms", "--max-readers", "1", "--max-parsers", "1", "--max-workers", "1", "--expiry-interval", "-1ns"}
		var env, cfgTop, cfgTables []string
		if setting != "" {
			switch where {
			case "flag":
				args = append(args, "--ignore-host="+setting)
			case "env":
				env = append(env, "GSD_IGNORE_HOST="+setting)
			default:
				cfgTop = append(cfgTop, "ignore-host = "+setting)
			}
		}
		if strings.Contains(backends, "newrelic") {
			// nothing listens there: give up at once, so that a flush does not wait for the retries
			cfgTables = append(cfgTables, "[newrelic]", "address = 'http://127.0.0.1:9/v1/data'", "max-request-elapsed-time = '20ms'")
		}
		if len(cfgTop)+len(cfgTables) > 0 {
			dir, err := os.MkdirTemp("", "c05cfg")
			if err != nil {
				t.Fatalf("%v", err)
			}
			defer os.RemoveAll(dir)
			os.WriteFile(dir+"/gostatsd.toml", []byte(strings.Join(append(cfgTop, cfgTables...), "\n")+"\n"), 0o600)
			args = append(args, "--config-path", dir+"/gostatsd.toml")
		}
		effective := setting == "true" || (setting == "" && strings.Contains(backends, "newrelic"))
		b, err := rig.StartBinaryEnv(args, env, 0)
		if err != nil {
			t.Skip("cannot start: " + err.Error())
		}
		defer b.Stop()
		if !b.AwaitLine("warmup:1|c", "warmup", 30*time.Second) {
			ev.C().Excluded("binary-not-serving", 1)
			t.Skip("gostatsd did not serve")
		}
		var lines, want []string
		for i, n := 0, rapid.IntRange(1, 5).Draw(t, "lines"); i < n; i++ {
			tags := rapid.SliceOfNDistinct(rapid.SampledFrom([]string{"host:web01", "aa:1", "zz:2", "host:other"}), 0, 3, rapid.ID[string]).Draw(t, "tags")
			name := fmt.Sprintf("bl%d", i)
			line := name + ":1|g"
			if len(tags) > 0 {
				line += "|#" + strings.Join(tags, ",")
			}
			lines = append(lines, line)
			src := "127.0.0.1"
			etags := append([]string(nil), tags...)
			if effective {
				src = ""
				for j, tg := range etags {
					if strings.HasPrefix(tg, "host:") {
						src = tg[5:]
						etags = append(etags[:j], etags[j+1:]...)
						break
					}
				}
			}
			sort.Strings(etags)
			w := "stats.gauge." + name
			for _, tg := range etags {
				w += "." + strings.ReplaceAll(tg, ":", ".")
			}
			if src != "" {
				w += ".s." + src
			}
			want = append(want, w)
		}
		datagram := strings.Join(lines, "\n")
		if !b.AwaitLine(datagram, "stats.gauge.bl0", 30*time.Second) {
			if b.Exited() && !b.BindFailed() {
				vt.Fail(t, "C05:parser-panic", "%s exited on datagram %q; output: %s", b.Describe(), datagram, b.Tail(40))
			}
			ev.C().Excluded("datagram-lost-on-loopback", 1)
			t.Skip("the datagram did not arrive")
		}
		time.Sleep(50 * time.Millisecond)
		got := map[string]bool{}
		for _, st := range b.Stats() {
			if strings.HasPrefix(st.Name, "stats.gauge.bl") {
				got[st.Name] = true
			}
		}
		var gl []string
		for g := range got {
			gl = append(gl, g)
		}
		sort.Strings(gl)
		sort.Strings(want)
		if strings.Join(gl, " ") != strings.Join(want, " ") {
			vt.Fail(t, "C05:binary-source-and-tags", "%s (effective ignore-host %v), datagram %q: series printed %q, expected %q", b.Describe(), effective, datagram, gl, want)
		}
		ev.C().Case(fmt.Sprintf("B|%s|%s|%s|%q", backends, setting, where, lines), strings.Contains(datagram, "host:"), "binary-ignore-host", fmt.Sprintf("effective-ignore-host=%v", effective))
		if ev.C().WantSample() {
			ev.C().Sample(map[string]interface{}{"command": b.Describe(), "datagram": datagram, "printed": gl})
		}
	})
}
