package c05

import (
	"bytes"
	"fmt"
	"golang.org/x/time/rate"
	"io"
	"strconv"
	"strings"
	"testing"
	"time"

	"github.com/atlassian/gostatsd"
	"github.com/atlassian/gostatsd/pkg/statsd"
	"github.com/sirupsen/logrus"
	"pgregory.net/rapid"

	"verifharness/internal/ev"
	"verifharness/internal/fakes"
	"verifharness/internal/gen"
	"verifharness/internal/model"
	"verifharness/internal/rig"
	"verifharness/internal/vt"
)

func TestMain(m *testing.M) {
	logrus.SetOutput(io.Discard)
	logrus.SetLevel(logrus.PanicLevel)
	ev.C().Rule("rapid: datagrams of 1..12 segments drawn from {line with known fields (colliding series, names needing in-place normalisation, 0..7 tags incl. host: tags), known-invalid line, event with known fields, empty line, arbitrary piece}, with/without trailing newline x ignore-host x namespace x sender x timestamp; then a second datagram through the same parser and both buffers overwritten with 0xAA. Oracles: (1) whole datagram == fold of each segment parsed alone (last gauge line wins), (2) direct model from the known fields, (3) snapshot immutability; UDP layer: datagrams (one in four of the largest size, 65507 bytes) queued in pooled receive buffers behind a parser whose dispatch is held. Non-trivial = a rejected or normalised line adjacent to a valid one, or two gauge lines of one series, or a line with more tags than the pooled capacity")
	vt.Main(m)
}

const poolTags = 3

type seg struct {
	text    string
	kind    string // known, invalid, event, empty, piece
	metric  *gostatsd.Metric
	event   *gostatsd.Event
	normal  bool
	hasDate bool
}

var rawNames = []string{"a", "b", "a/b", "a b", "x$y", "req.time", "\xc3\xa9.x", "g\tg", "c,d"}
var tagPool = []string{"k:v", "env:prod", "host:h1", "host:h2", "t", "hostx:1", "host:", "u:1", "w", "z:9", "Host:H", "cr\r", "q:1\r",
	// pairs of equal length and equal Adler-32 checksum: different tags, and with ignore-host different hosts
	"pod:132", "pod:213", "host:web-132", "host:web-213"}
var invalidLines = []string{"a:oops|c|@0.1", "a:NaN|g|@0.25", "a:1|c|@0.5|@0", "a:x|ms|@0.1|#k:v", "bad", "a:1|x", ":1|c", "a:b|c", "a:1|c|@x", "_e{1,2}:a|b", "a:1", "$$:1|c", "a:NaN|g", "a:1|c|@0", "_x", "a:1|msx", "|", "a|1:c", "a:1|c\r", "a:1|g|@0.5\r",
	// rejected lines of 60..100 bytes (what a log line may want to shorten)
	"bad" + strings.Repeat("x", 61), "bad" + strings.Repeat("y", 62), "a:1|" + strings.Repeat("z", 66), "q" + strings.Repeat(":", 73), "bad" + strings.Repeat("w", 74), "bad" + strings.Repeat("v", 75), strings.Repeat("u", 100),
	// ... and around 256 bytes
	"bad" + strings.Repeat("a", 252), "bad" + strings.Repeat("b", 253), "bad" + strings.Repeat("c", 254), "bad" + strings.Repeat("d", 255), "bad" + strings.Repeat("e", 256), strings.Repeat("f", 300), strings.Repeat("g", 1023), strings.Repeat("h", 1024), strings.Repeat("i", 1025)}
var pieces = []string{"a:1|c|", "a:1|g||#x", "x:1|c|#", "a:1|c|#,,", "_e{1,1}:a|b|", "_e{0,0}:|", "a:1e400|g", "a:0x1p3|ms", "  :1|c", "a:1|s|@2", "\xff:1|c", "a:1|c|@1e-400", "_e{1,1}:a|b|p:x", "a:1|h|#host:", "_e{1,2}:t|x\r", "u:m\r|s", "\r"}

func knownLine(t *rapid.T, ns string, ignoreHost bool, ip string, ts int64) seg {
	raw := rapid.SampledFrom(rawNames).Draw(t, "name")
	ty := rapid.SampledFrom([]struct {
		s string
		t gostatsd.MetricType
	}{{"c", gostatsd.COUNTER}, {"g", gostatsd.GAUGE}, {"ms", gostatsd.TIMER}, {"h", gostatsd.TIMER}, {"s", gostatsd.SET}}).Draw(t, "type")
	name := gen.NormalizeName(raw)
	if ns != "" {
		name = ns + "." + name
	}
	m := &gostatsd.Metric{Name: name, Type: ty.t, Rate: 1, Timestamp: gostatsd.Nanotime(ts)}
	var vs string
	if ty.t == gostatsd.SET {
		vs = rapid.SampledFrom([]string{"u1", "u2", "", "x:y"}).Draw(t, "member")
		m.StringValue = vs
	} else {
		vs = rapid.SampledFrom([]string{"1", "2", "3.5", "-4", "10", "0", "1e2"}).Draw(t, "value")
		m.Value, _ = strconv.ParseFloat(vs, 64)
	}
	var fields []string
	if rapid.IntRange(0, 3).Draw(t, "hasrate") == 0 {
		rs := rapid.SampledFrom([]string{"0.5", "0.25", "1", "0.1"}).Draw(t, "rate")
		m.Rate, _ = strconv.ParseFloat(rs, 64)
		fields = append(fields, "@"+rs)
	}
	ntags := rapid.SampledFrom([]int{0, 0, 1, 2, 2, 3, 4, 7}).Draw(t, "ntags")
	if ntags > 0 {
		tags := rapid.SliceOfNDistinct(rapid.SampledFrom(tagPool), ntags, ntags, rapid.ID[string]).Draw(t, "tags")
		fields = append(fields, "#"+strings.Join(tags, ","))
		m.Tags = gostatsd.Tags(tags)
	}
	if rapid.IntRange(0, 4).Draw(t, "unknown") == 0 {
		fields = append(fields, "c:container")
	}
	if len(fields) == 2 && rapid.Bool().Draw(t, "swap") {
		fields[0], fields[1] = fields[1], fields[0]
	}
	line := raw + ":" + vs + "|" + ty.s
	for _, f := range fields {
		line += "|" + f
	}
	// expected source / tags after the parser's host handling
	if ignoreHost {
		for i, tag := range m.Tags {
			if strings.HasPrefix(tag, "host:") {
				m.Source = gostatsd.Source(tag[5:])
				m.Tags = append(append(gostatsd.Tags{}, m.Tags[:i]...), m.Tags[i+1:]...)
				break
			}
		}
	} else {
		m.Source = gostatsd.Source(ip)
	}
	return seg{text: line, kind: "known", metric: m, normal: gen.NormalizeName(raw) != raw}
}

func segGen(ns string, ignoreHost bool, ip string, ts int64) *rapid.Generator[seg] {
	return rapid.Custom(func(t *rapid.T) seg {
		switch rapid.IntRange(0, 11).Draw(t, "segkind") {
		case 0, 1, 2, 3, 4, 5:
			return knownLine(t, ns, ignoreHost, ip, ts)
		case 6, 7:
			return seg{text: rapid.SampledFrom(invalidLines).Draw(t, "invalid"), kind: "invalid"}
		case 8:
			es := gen.Event().Draw(t, "event")
			e := es.Event
			e.Source = gostatsd.Source(ip)
			return seg{text: es.Line, kind: "event", event: &e, hasDate: e.DateHappened != 0}
		case 9:
			return seg{text: "", kind: "empty"}
		default:
			return seg{text: rapid.SampledFrom(pieces).Draw(t, "piece"), kind: "piece"}
		}
	})
}

type outcome struct {
	maps    []*gostatsd.MetricMap
	events  []*gostatsd.Event
	m, e, b float64
}

// parseAlone runs a fresh parser (same configuration) on one datagram.
func parseAlone(t vt.TB, ns string, ignoreHost bool, ip string, ts int64, msg []byte) outcome {
	r := rig.NewParser(ns, ignoreHost, poolTags, nil)
	defer r.Cancel()
	buf := append([]byte(nil), msg...)
	if p := r.Feed([]*statsd.Datagram{{IP: gostatsd.Source(ip), Msg: buf, Timestamp: gostatsd.Nanotime(ts), DoneFunc: func() {}}}); p != "" {
		vt.Fail(t, "C05:parser-panic", "parser failed on %q: %s", msg, p)
	}
	var o outcome
	o.maps, o.events = r.Sink.Snapshot()
	o.m, o.e, o.b = r.Counters()
	return o
}

func eventsEqual(a, b *gostatsd.Event, dateGiven bool) bool {
	if a.Title != b.Title || a.Text != b.Text || a.AggregationKey != b.AggregationKey || a.SourceTypeName != b.SourceTypeName || a.Source != b.Source ||
		a.Priority != b.Priority || a.AlertType != b.AlertType || len(a.Tags) != len(b.Tags) {
		return false
	}
	for i := range a.Tags {
		if a.Tags[i] != b.Tags[i] {
			return false
		}
	}
	if dateGiven {
		return a.DateHappened == b.DateHappened
	}
	d := a.DateHappened - b.DateHappened
	return d >= -5 && d <= 5
}

func describeEvents(es []*gostatsd.Event) string {
	var sb strings.Builder
	for _, e := range es {
		fmt.Fprintf(&sb, "%+v;", *e)
	}
	return sb.String()
}

func TestDatagramLinesIndependent(t *testing.T) {
	rapid.Check(t, func(t *rapid.T) {
		ns := rapid.SampledFrom([]string{"", "ns"}).Draw(t, "namespace")
		ignoreHost := rapid.Bool().Draw(t, "ignore-host")
		// the parser's logging options: bad lines logged (practically always / never), raw metrics logged
		rig.ParserBadLineRate = rate.Limit(rapid.SampledFrom([]float64{0, 0, 1e9}).Draw(t, "bad-line-log-rate"))
		rig.ParserLogRawMetric = rapid.IntRange(0, 5).Draw(t, "log-raw-metric") == 0
		ip := rapid.SampledFrom([]string{"1.2.3.4", "10.0.0.9", ""}).Draw(t, "sender")
		ts := rapid.Int64Range(1, 1<<40).Draw(t, "timestamp")
		segs := rapid.SliceOfN(segGen(ns, ignoreHost, ip, ts), 1, 12).Draw(t, "segments")
		trailing := rapid.Bool().Draw(t, "trailing-newline")
		var texts []string
		for _, s := range segs {
			texts = append(texts, s.text)
		}
		datagram := strings.Join(texts, "\n")
		if trailing {
			datagram += "\n"
		} else if segs[len(segs)-1].text == "" {
			// without a trailing newline a final empty line does not exist
			segs = segs[:len(segs)-1]
			if len(segs) == 0 {
				t.Skip("empty datagram")
			}
		}
		start := time.Now().Unix()

		// the parser under test: datagram 1, then datagram 2 through the same parser (pool reuse)
		r := rig.NewParser(ns, ignoreHost, poolTags, nil)
		defer r.Cancel()
		buf1 := append(make([]byte, 0, len(datagram)+16), datagram...)
		done1 := 0
		if p := r.Feed([]*statsd.Datagram{{IP: gostatsd.Source(ip), Msg: buf1, Timestamp: gostatsd.Nanotime(ts), DoneFunc: func() {
			// DoneFunc hands the buffer back to its pool: from here on it may be overwritten at any time
			done1++
			full := buf1[:cap(buf1)]
			for i := range full {
				full[i] = 0xAA
			}
		}}}); p != "" {
			vt.Fail(t, "C05:parser-panic", "parser failed on %q: %s", datagram, p)
		}
		gotMaps, gotEvents := r.Sink.Snapshot()
		m1, e1, b1 := r.Counters()
		rawMaps := append([]*gostatsd.MetricMap(nil), r.Sink.RawMaps...)
		rawEvents := append([]*gostatsd.Event(nil), r.Sink.RawEvents...)
		allKnown := checkDatagram(t, "first", segs, datagram, ns, ignoreHost, ip, ts, start, gotMaps, gotEvents, m1, e1, b1)
		fail := func(sig, f string, a ...interface{}) {
			vt.WriteCase(map[string]interface{}{"datagram": datagram, "namespace": ns, "ignore_host": ignoreHost, "sender": ip, "timestamp": ts})
			vt.Fail(t, sig, "datagram %q (ns=%q ignore-host=%v sender=%q): %s", datagram, ns, ignoreHost, ip, fmt.Sprintf(f, a...))
		}
		if done1 != 1 {
			fail("C05:donefunc", "DoneFunc called %d times", done1)
		}

		// oracle (3): nothing produced from datagram 1 changes when the same parser handles datagram 2
		// and both buffers are overwritten
		snapMaps := describeAll(rawMaps)
		snapEvents := describeEvents(rawEvents)
		if snapMaps != describeAll(gotMaps) || snapEvents != describeEvents(gotEvents) {
			fail("C05:changed-before-second-datagram", "dispatched data changed after dispatch")
		}
		second := rapid.SliceOfN(segGen(ns, ignoreHost, "9.9.9.9", ts+1), 1, 8).Draw(t, "second-datagram")
		var t2 []string
		for _, s := range second {
			t2 = append(t2, s.text)
		}
		if second[len(second)-1].text == "" {
			second = second[:len(second)-1] // no trailing newline: a final empty line does not exist
		}
		buf2 := []byte(strings.Join(t2, "\n"))
		text2 := string(buf2)
		start2 := time.Now().Unix()
		if p := r.Feed([]*statsd.Datagram{{IP: "9.9.9.9", Msg: buf2, Timestamp: gostatsd.Nanotime(ts + 1), DoneFunc: func() {}}}); p != "" {
			vt.Fail(t, "C05:parser-panic", "parser failed on second datagram %q: %s", buf2, p)
		}
		// the second datagram goes through pooled objects the first one used: its result must be what it would be alone
		allMaps, allEvents := r.Sink.Snapshot()
		m2, e2, b2 := r.Counters()
		checkDatagram(t, "second (after "+strconv.Quote(datagram)+" through the same parser)", second, text2, ns, ignoreHost, "9.9.9.9", ts+1, start2, allMaps[len(gotMaps):], allEvents[len(gotEvents):], m2-m1, e2-e1, b2-b1)
		for i := range buf1 {
			buf1[i] = 0xAA
		}
		buf1 = buf1[:cap(buf1)]
		for i := range buf1 {
			buf1[i] = 0xAA
		}
		for i := range buf2 {
			buf2[i] = 0xAA
		}
		if describeAll(rawMaps) != snapMaps || describeEvents(rawEvents) != snapEvents {
			fail("C05:aliases-buffer-or-pool", "data dispatched for the first datagram changed after a second datagram was parsed and the buffers were overwritten:\nbefore %s %s\nafter  %s %s", snapMaps, snapEvents, describeAll(rawMaps), describeEvents(rawEvents))
		}

		// third datagram: it arrives in the very memory the second one occupied (a receive buffer taken from the pool
		// again), has the same line structure and lengths, and different names. Whatever the parser remembers about the
		// second datagram's bytes now reads the third one's.
		var third []seg
		var t3 []string
		for _, sg := range second {
			if sg.text == "" {
				third = append(third, seg{kind: "empty"})
				t3 = append(t3, "")
				continue
			}
			x := renameLine(sg.text)
			third = append(third, seg{text: x, kind: "piece"})
			t3 = append(t3, x)
		}
		text3 := strings.Join(t3, "\n")
		if len(text3) == len(text2) && text3 != text2 {
			copy(buf2, text3)
			before3, beforeE3 := r.Sink.Counts()
			m2b, e2b, b2b := r.Counters()
			start3 := time.Now().Unix()
			if p := r.Feed([]*statsd.Datagram{{IP: "9.9.9.9", Msg: buf2, Timestamp: gostatsd.Nanotime(ts + 2), DoneFunc: func() {}}}); p != "" {
				vt.Fail(t, "C05:parser-panic", "parser failed on third datagram %q: %s", text3, p)
			}
			maps3, events3 := r.Sink.Snapshot()
			m3, e3, b3 := r.Counters()
			checkDatagram(t, "third (in the memory of the second, "+strconv.Quote(text2)+")", third, text3, ns, ignoreHost, "9.9.9.9", ts+2, start3, maps3[before3:], events3[beforeE3:], m3-m2b, e3-e2b, b3-b2b)
		}

		// evidence
		nt := false
		gauges := map[string]int{}
		for i, s := range segs {
			if s.kind == "known" {
				if s.metric.Type == gostatsd.GAUGE {
					k := model.MakeKey(s.metric.Type, s.metric.Name, s.metric.Tags, string(s.metric.Source)).String()
					gauges[k]++
					if gauges[k] >= 2 {
						nt = true
					}
				}
				if len(s.metric.Tags) > poolTags {
					nt = true
				}
				for _, j := range []int{i - 1, i + 1} {
					if j >= 0 && j < len(segs) && (segs[j].kind == "invalid" || segs[j].kind == "empty" || (segs[j].kind == "known" && segs[j].normal)) {
						nt = true
					}
				}
			}
		}
		labels := []string{fmt.Sprintf("segments=%d", len(segs))}
		if allKnown {
			labels = append(labels, "direct-model-applied")
		}
		if ignoreHost {
			labels = append(labels, "ignore-host")
		}
		if trailing {
			labels = append(labels, "trailing-newline")
		}
		for _, s := range segs {
			labels = append(labels, "seg-"+s.kind)
		}
		if ev.C().WantSample() {
			ev.C().Sample(map[string]interface{}{"datagram": datagram, "namespace": ns, "ignore_host": ignoreHost, "sender": ip, "dispatched": gen.DescribeMap(gostatsd.MergeMaps(append(gotMaps, gostatsd.NewMetricMap(false)))), "events": len(gotEvents), "bad_lines": b1})
		}
		ev.C().Case(fmt.Sprintf("%s|%v|%s|%q", ns, ignoreHost, ip, datagram), nt, dedup(labels)...)
	})
}

func dedup(l []string) []string {
	seen := map[string]bool{}
	var out []string
	for _, x := range l {
		if !seen[x] {
			seen[x] = true
			out = append(out, x)
		}
	}
	return out
}

func describeAll(ms []*gostatsd.MetricMap) string {
	var sb strings.Builder
	for _, m := range ms {
		sb.WriteString(strings.Join(gen.DescribeMap(m), "\n"))
		sb.WriteString("\n--\n")
	}
	return sb.String()
}

func float64frombits(b uint64) float64 { return mathFloat64frombits(b) }

var _ = bytes.Equal
var _ = fakes.NewSink

// checkDatagram applies oracles (1) and (2) to what one datagram produced: gotMaps / gotEvents are the maps and
// events dispatched for it, m1/e1/b1 the increase of the parser's metrics / events / bad-lines counters. which says
// which datagram of the parser's life this is; its result must not depend on that.
func checkDatagram(t vt.TB, which string, segs []seg, datagram, ns string, ignoreHost bool, ip string, ts, start int64, gotMaps []*gostatsd.MetricMap, gotEvents []*gostatsd.Event, m1, e1, b1 float64) (allKnown bool) {
	if len(gotMaps) > 1 {
		vt.Fail(t, "C05:map-count", "one datagram dispatched %d maps", len(gotMaps))
	}
	got := model.Agg{}
	for _, mm := range gotMaps {
		if d := model.DupKeys(mm); len(d) > 0 {
			vt.Fail(t, "C05:duplicate-series", "series under two keys: %v", d)
		}
		got.AddMap(mm)
	}

	// oracle (1): fold of each segment parsed alone
	want := model.Agg{}
	var wantEvents []*gostatsd.Event
	var dateGiven []bool
	wantBad, wantMetrics := 0.0, 0.0
	allKnown = true
	for _, s := range segs {
		if s.text == "" {
			wantBad++
			continue
		}
		o := parseAlone(t, ns, ignoreHost, ip, ts, []byte(s.text))
		wantBad += o.b
		wantMetrics += o.m
		for _, mm := range o.maps {
			single := model.FromMap(mm)
			for k, sr := range single {
				if k.Type == gostatsd.GAUGE {
					for bits := range sr.GaugeCands {
						want.SetGaugeLast(k, float64frombits(bits), sr.Timestamp)
					}
					delete(single, k)
				}
			}
			want.Merge(single)
		}
		for _, e := range o.events {
			wantEvents = append(wantEvents, e)
			// only an event generated with a d: attribute carries its own time (title/text may contain "|d:" as plain content)
			dateGiven = append(dateGiven, s.kind == "event" && s.hasDate)
		}
		if s.kind == "piece" {
			allKnown = false
		}
	}
	fail := func(sig, f string, a ...interface{}) {
		vt.WriteCase(map[string]interface{}{"datagram": datagram, "namespace": ns, "ignore_host": ignoreHost, "sender": ip, "timestamp": ts})
		vt.Fail(t, sig, "%s datagram %q (ns=%q ignore-host=%v sender=%q): %s", which, datagram, ns, ignoreHost, ip, fmt.Sprintf(f, a...))
	}
	if d := model.Diff(got, want, model.Opts{SampledTol: 1e-12}); d != "" {
		fail("C05:not-concatenation", "whole datagram differs from parsing each line alone: %s", d)
	}
	if len(gotEvents) != len(wantEvents) {
		fail("C05:events-not-concatenation", "%d events, parsing each line alone gives %d", len(gotEvents), len(wantEvents))
	}
	for i := range gotEvents {
		if !eventsEqual(gotEvents[i], wantEvents[i], dateGiven[i]) {
			fail("C05:events-not-concatenation", "event %d is %+v, alone it is %+v", i, *gotEvents[i], *wantEvents[i])
		}
	}
	if b1 != wantBad || m1 != wantMetrics || e1 != float64(len(wantEvents)) {
		fail("C05:counters", "metrics/events/bad = %v/%v/%v, per-line sum = %v/%v/%v", m1, e1, b1, wantMetrics, len(wantEvents), wantBad)
	}

	// oracle (2): direct model from the known fields
	if allKnown {
		direct := model.Agg{}
		var directEvents []*gostatsd.Event
		bad := 0.0
		for _, s := range segs {
			switch s.kind {
			case "known":
				m := s.metric
				k := model.MakeKey(m.Type, m.Name, m.Tags, string(m.Source))
				if m.Type == gostatsd.GAUGE {
					direct.SetGaugeLast(k, m.Value, m.Timestamp)
				} else {
					direct.AddMetric(m)
				}
			case "event":
				directEvents = append(directEvents, s.event)
			default:
				bad++
			}
		}
		if d := model.Diff(got, direct, model.Opts{SampledTol: 1e-12}); d != "" {
			fail("C05:fields", "dispatched data differs from the lines' fields (time, source, tags, values): %s", d)
		}
		if b1 != bad {
			fail("C05:bad-line-count", "bad lines %v, rejected lines %v", b1, bad)
		}
		if len(gotEvents) != len(directEvents) {
			fail("C05:event-fields", "%d events want %d", len(gotEvents), len(directEvents))
		}
		for i, e := range gotEvents {
			w := *directEvents[i]
			has := w.DateHappened != 0
			if !has {
				w.DateHappened = start
			}
			if !eventsEqual(e, &w, has) {
				fail("C05:event-fields", "event %d is %+v want %+v", i, *e, w)
			}
		}
	}

	return allKnown
}

// renameLine changes the letters of a line's name (the bytes before its first ':') and swaps the sample rates 0.5 and 0.1,
// keeping every length and every offset.
func renameLine(line string) string {
	b := []byte(line)
	for i := 0; i < len(b) && b[i] != ':'; i++ {
		switch {
		case b[i] >= 'a' && b[i] < 'z':
			b[i]++
		case b[i] == 'z':
			b[i] = 'a'
		}
	}
	// and another sample rate of the same length in the same place
	out := string(b)
	out = strings.ReplaceAll(out, "|@0.5", "|@0.\x00")
	out = strings.ReplaceAll(out, "|@0.1", "|@0.5")
	out = strings.ReplaceAll(out, "|@0.\x00", "|@0.1")
	return out
}
