package c05

import "math"

func mathFloat64frombits(b uint64) float64 { return math.Float64frombits(b) }
