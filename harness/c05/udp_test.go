package c05

import (
	"fmt"
	"runtime"
	"strings"
	"testing"
	"time"

	"github.com/atlassian/gostatsd"
	"pgregory.net/rapid"

	"verifharness/internal/ev"
	"verifharness/internal/model"
	"verifharness/internal/rig"
	"verifharness/internal/vt"
)

// TestUDPQueuedDatagrams: datagrams that wait between the receiver and a parser that is busy (its dispatch is held)
// sit in pooled receive buffers. Each must still be parsed into its own lines: a buffer may go back to the pool only
// when its datagram has been parsed, and never while the receiver reads into it. One processor, so that the pool hands
// a released buffer straight back to the receiver.

func TestUDPQueuedDatagrams(t *testing.T) {
	defer runtime.GOMAXPROCS(runtime.GOMAXPROCS(1))
	rapid.Check(t, func(t *rapid.T) {
		batch := rapid.SampledFrom([]int{1, 1, 2, 8}).Draw(t, "receive-batch-size")
		// one case in four: a unix datagram socket, whose datagrams can fill a receive buffer to its last byte (65535)
		maxUDP, sender := 65507, "127.0.0.1"
		u, err := rig.NewUDP("", false, 2, batch)
		if rapid.IntRange(0, 3).Draw(t, "unix-datagram-socket") == 0 {
			if u != nil {
				u.Close()
			}
			maxUDP, sender = 65535, string(gostatsd.UnknownSource)
			u, err = rig.NewUnixgram("", false, 2, batch)
		}
		if err != nil {
			t.Skip("no loopback socket: " + err.Error())
		}
		defer u.Close()
		want := model.Agg{}
		sentAt := map[string]int64{} // first series of a datagram -> wall clock just before it was written to the socket
		seq := 0
		rounds := rapid.IntRange(1, 4).Draw(t, "rounds")
		var history []string
		for r := 0; r < rounds; r++ {
			gate := make(chan struct{})
			u.Sink.SetMapGate(gate)
			// first datagram of the round: the parser takes it and blocks in its dispatch
			k := rapid.IntRange(2, 5).Draw(t, "queued")
			for i := 0; i <= k; i++ {
				seq++
				name := fmt.Sprintf("q%03d", seq)
				line := fmt.Sprintf("%s:%d|c|#r:%d", name, seq, r)
				want.AddMetric(&gostatsd.Metric{Name: name, Type: gostatsd.COUNTER, Value: float64(seq), Rate: 1, Tags: gostatsd.Tags{fmt.Sprintf("r:%d", r)}, Source: gostatsd.Source(sender)})
				if rapid.IntRange(0, 3).Draw(t, "largest-datagram") == 0 {
					// a datagram of the largest size UDP over IPv4 carries (65507 bytes): it fills its receive buffer almost to the end
					var b strings.Builder
					b.WriteString(line)
					for j := 0; b.Len() < maxUDP-40; j++ {
						n := fmt.Sprintf("%s_%04d", name, j)
						fmt.Fprintf(&b, "\n%s:1|c", n)
						want.AddMetric(&gostatsd.Metric{Name: n, Type: gostatsd.COUNTER, Value: 1, Rate: 1, Source: gostatsd.Source(sender)})
					}
					last := name + "_last_" + strings.Repeat("z", maxUDP-b.Len()-len(name)-len("\n_last_:7|c"))
					fmt.Fprintf(&b, "\n%s:7|c", last)
					want.AddMetric(&gostatsd.Metric{Name: last, Type: gostatsd.COUNTER, Value: 7, Rate: 1, Source: gostatsd.Source(sender)})
					line = b.String()
					history = append(history, fmt.Sprintf("%s ... (%d bytes, last line %s:7|c)", line[:24], len(line), last))
				} else {
					history = append(history, line)
				}
				if i == 0 && rapid.Bool().Draw(t, "idle-before-round") {
					time.Sleep(3 * time.Millisecond) // the receiver waits in its read for a while before this datagram arrives
				}
				sentAt[name] = time.Now().UnixNano()
				if p := u.Write([]byte(line)); p != "" {
					close(gate)
					t.Skip("client socket: " + p)
				}
				if i == 0 {
					deadline := time.Now().Add(30 * time.Second)
					for u.Sink.MapsWaiting() == 0 && time.Now().Before(deadline) {
						time.Sleep(50 * time.Microsecond)
					}
				} else {
					time.Sleep(200 * time.Microsecond) // let the receiver pick it up while the parser is held
				}
			}
			u.Sink.SetMapGate(nil)
			close(gate)
			if p := u.Send([]byte(fmt.Sprintf("round%d:1|c", r))); p != "" {
				vt.Fail(t, "C05:parser-panic", "receiver / parser failed: %s (sent %v)", p, history)
			}
		}
		// UDP may drop: what the kernel did not hand to the receiver says nothing about the server
		sent := float64(seq + 2*rounds) // the datagrams above, and per round the closing datagram with its sentinel
		var recvd float64
		for deadline := time.Now().Add(5 * time.Second); time.Now().Before(deadline); time.Sleep(time.Millisecond) {
			if recvd = u.Received(); recvd >= sent {
				break
			}
		}
		if recvd < sent {
			ev.C().Excluded("datagram-dropped-by-the-kernel", 1)
			t.Skip("the kernel dropped a datagram")
		}
		maps, _ := u.Sink.Snapshot()
		got := model.Agg{}
		checkedAt := time.Now().UnixNano()
		for _, mm := range maps {
			got.AddMap(mm)
			// every metric carries its datagram's receive time: not before the datagram was sent, not after now
			mm.Counters.Each(func(name, _ string, c gostatsd.Counter) {
				if at, ok := sentAt[name]; ok && (int64(c.Timestamp) < at-int64(50*time.Microsecond) || int64(c.Timestamp) > checkedAt) {
					vt.Fail(t, "C05:receive-time", "series %q carries timestamp %d; its datagram was written to the socket at %d (%.3f ms later) and the result was read at %d", name, c.Timestamp, at, float64(at-int64(c.Timestamp))/1e6, checkedAt)
				}
			})
		}
		for k := range got {
			if strings.HasPrefix(k.Name, "sentinel") || strings.HasPrefix(k.Name, "round") {
				delete(got, k)
			}
		}
		if d := model.Diff(got, want, model.Opts{IgnoreTimestamps: true}); d != "" {
			vt.Fail(t, "C05:aliases-buffer-or-pool", "datagrams queued behind a busy parser were not parsed into their own lines: %s (sent, one line per datagram: %v)", d, history)
		}
		ev.C().Case(fmt.Sprintf("Q|%d|%v", batch, history), true, "udp-queued-datagrams")
		if ev.C().WantSample() {
			ev.C().Sample(map[string]interface{}{"queued_datagrams": history, "receive_batch_size": batch})
		}
	})
}
