package c13

import (
	"context"
	"encoding/json"
	"fmt"
	"net/http"
	"net/http/httptest"
	"os"
	"regexp"
	"sort"
	"strings"
	"testing"
	"time"

	"github.com/atlassian/gostatsd"
	"github.com/atlassian/gostatsd/pkg/cachedinstances/k8s"
	"github.com/sirupsen/logrus"
	"github.com/spf13/viper"
	core_v1 "k8s.io/api/core/v1"
	meta_v1 "k8s.io/apimachinery/pkg/apis/meta/v1"
	"k8s.io/apimachinery/pkg/types"
	"pgregory.net/rapid"

	"verifharness/internal/ev"
	"verifharness/internal/vt"
)

// TestProviderFromConfiguration builds the provider the way the gostatsd command does - k8s.NewProviderFromViper with a
// kubeconfig file, against an API server (a loopback HTTP server that answers the pod list and holds the watch open) -
// with generated annotation-tag-regex / label-tag-regex settings: a regex, the empty string (documented as "ignore all"),
// or unset (the documented defaults: the gostatsd.atlassian.com/ annotation prefix, no labels). Lookups of the listed
// pods must answer with the tags those *effective* regexes give.
func TestProviderFromConfiguration(t *testing.T) {
	rapid.Check(t, func(t *rapid.T) {
		npods := rapid.IntRange(1, 3).Draw(t, "pods")
		var pods []*podState
		var items []core_v1.Pod
		for i := 0; i < npods; i++ {
			p := &podState{ns: "ns1", name: fmt.Sprintf("p%d", i), ip: ips[i], hostIP: "192.168.0.1", phase: core_v1.PodRunning,
				labels: kvGen(labelKeys).Draw(t, "labels"), annotations: kvGen(annotationKeys).Draw(t, "annotations")}
			pods = append(pods, p)
			o := p.obj()
			o.TypeMeta = meta_v1.TypeMeta{Kind: "Pod", APIVersion: "v1"}
			o.ResourceVersion = "1"
			o.UID = types.UID("uid-" + p.name)
			items = append(items, *o)
		}
		list, _ := json.Marshal(&core_v1.PodList{TypeMeta: meta_v1.TypeMeta{Kind: "PodList", APIVersion: "v1"}, ListMeta: meta_v1.ListMeta{ResourceVersion: "1"}, Items: items})
		api := httptest.NewServer(http.HandlerFunc(func(w http.ResponseWriter, r *http.Request) {
			if !strings.HasSuffix(r.URL.Path, "/pods") {
				http.NotFound(w, r)
				return
			}
			w.Header().Set("Content-Type", "application/json")
			if r.URL.Query().Get("watch") == "true" {
				w.WriteHeader(200)
				if f, ok := w.(http.Flusher); ok {
					f.Flush()
				}
				<-r.Context().Done() // no events: the list is the history
				return
			}
			w.Write(list)
		}))
		defer api.Close()
		dir, err := os.MkdirTemp("", "c13cfg")
		if err != nil {
			t.Fatalf("%v", err)
		}
		defer os.RemoveAll(dir)
		kubeconfig := fmt.Sprintf("apiVersion: v1\nkind: Config\nclusters:\n- name: c\n  cluster:\n    server: %s\ncontexts:\n- name: ctx\n  context:\n    cluster: c\n    user: u\ncurrent-context: ctx\nusers:\n- name: u\n  user: {}\n", api.URL)
		if err := os.WriteFile(dir+"/kubeconfig", []byte(kubeconfig), 0o600); err != nil {
			t.Fatalf("%v", err)
		}
		// settings: "<unset>" leaves the key out
		ann := rapid.SampledFrom([]string{"<unset>", "<unset>", "", `^product\.company\.com/(?P<tag>.*)$`, "^tag"}).Draw(t, "annotation-tag-regex")
		lab := rapid.SampledFrom([]string{"<unset>", "", "^app", `^app\.kubernetes\.io/(?P<tag>.*)$`}).Draw(t, "label-tag-regex")
		block := map[string]interface{}{"kubeconfig-path": dir + "/kubeconfig", "resync-period": "1h"}
		effAnn, effLab := k8s.DefaultAnnotationTagRegex, ""
		if ann != "<unset>" {
			block["annotation-tag-regex"] = ann
			effAnn = ann
		}
		if lab != "<unset>" {
			block["label-tag-regex"] = lab
			effLab = lab
		}
		var are, lre *regexp.Regexp
		if effAnn != "" {
			are = regexp.MustCompile(effAnn)
		}
		if effLab != "" {
			lre = regexp.MustCompile(effLab)
		}
		v := viper.New()
		v.Set("k8s", block)
		ci, err := k8s.NewProviderFromViper(v, logrus.StandardLogger(), "verif")
		if err != nil {
			t.Fatalf("NewProviderFromViper: %v", err)
		}
		prov := ci.(*k8s.Provider)
		ctx, cancel := context.WithCancel(context.Background())
		done := make(chan struct{})
		go func() { prov.Run(ctx); close(done) }()
		defer func() { cancel(); <-done }()
		desc := fmt.Sprintf("annotation-tag-regex=%q label-tag-regex=%q (effective %q / %q)", ann, lab, effAnn, effLab)
		for _, p := range pods {
			var got *gostatsd.Instance
			for d := time.Now().Add(30 * time.Second); time.Now().Before(d); time.Sleep(500 * time.Microsecond) {
				if got, _ = prov.Peek(gostatsd.Source(p.ip)); got != nil {
					break
				}
			}
			if got == nil {
				vt.Fail(t, "C13:pod-not-found", "provider built from configuration (%s): listed pod %s/%s at %s is not found within 30s", desc, p.ns, p.name, p.ip)
			}
			gt := append([]string(nil), got.Tags...)
			sort.Strings(gt)
			wt := wantTags(p, lre, are)
			if string(got.ID) != p.ns+"/"+p.name || strings.Join(gt, "\x00") != strings.Join(wt, "\x00") {
				vt.Fail(t, "C13:tags", "provider built from configuration (%s): lookup %q (labels %v annotations %v) returned %s with tags %q, want %s/%s with %q", desc, p.ip, p.labels, p.annotations, got.ID, gt, p.ns, p.name, wt)
			}
		}
		ev.C().Case(fmt.Sprintf("G|%s|%v", desc, len(pods)), ann == "" || lab != "<unset>", "from-configuration", "annotation-regex-setting="+map[bool]string{true: "unset", false: "set"}[ann == "<unset>"])
		if ev.C().WantSample() {
			ev.C().Sample(map[string]interface{}{"k8s_settings": desc, "pods": npods})
		}
	})
}
