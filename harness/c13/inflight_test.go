package c13

import (
	"context"
	"fmt"
	"io"
	"regexp"
	"runtime"
	"sort"
	"strings"
	"sync"
	"testing"
	"time"

	"github.com/atlassian/gostatsd"
	"github.com/atlassian/gostatsd/pkg/cachedinstances/k8s"
	"github.com/atlassian/gostatsd/pkg/stats"
	"github.com/sirupsen/logrus"
	core_v1 "k8s.io/api/core/v1"
	"k8s.io/apimachinery/pkg/watch"
	mainFake "k8s.io/client-go/kubernetes/fake"
	kube_testing "k8s.io/client-go/testing"
	"pgregory.net/rapid"

	"verifharness/internal/ev"
	"verifharness/internal/fakes"
	"verifharness/internal/vt"
)

// parkHook lets the harness own one schedule decision inside the provider: the provider logs (debug level, with the
// looked-up address as a field) after it has read the pod from the informer and before it memoises the answer. A
// lookup of the armed address is held at that log call until the harness releases it.
type parkHook struct {
	mu      sync.Mutex
	ip      string // armed for the first entry that carries this address, or
	goid    string // armed for the first entry without an address that this goroutine emits
	parked  chan struct{}
	release chan struct{}
}

func goid() string {
	var b [64]byte
	f := strings.Fields(string(b[:runtime.Stack(b[:], false)]))
	if len(f) < 2 {
		return "?"
	}
	return f[1]
}

func (h *parkHook) Levels() []logrus.Level { return logrus.AllLevels }

func (h *parkHook) Fire(e *logrus.Entry) error {
	h.mu.Lock()
	_, hasIP := e.Data["ip"]
	switch {
	case h.ip != "" && hasIP && fmt.Sprint(e.Data["ip"]) == h.ip:
	case h.goid != "" && !hasIP && goid() == h.goid:
	default:
		h.mu.Unlock()
		return nil
	}
	h.ip, h.goid = "", "" // one shot
	parked, release := h.parked, h.release
	h.mu.Unlock()
	close(parked)
	<-release
	return nil
}

func (h *parkHook) arm(ip string) (parked chan struct{}, release chan struct{}) {
	h.mu.Lock()
	defer h.mu.Unlock()
	h.ip, h.parked, h.release = ip, make(chan struct{}), make(chan struct{})
	return h.parked, h.release
}

// armGoroutine: the calling goroutine is held at the first log entry it emits that does not name an address - house-keeping
// the provider may do on the back of a lookup (today there is none).
func (h *parkHook) armGoroutine() (parked chan struct{}, release chan struct{}) {
	h.mu.Lock()
	defer h.mu.Unlock()
	h.goid, h.parked, h.release = goid(), make(chan struct{}), make(chan struct{})
	return h.parked, h.release
}

func (h *parkHook) disarm() {
	h.mu.Lock()
	h.ip, h.goid = "", ""
	h.mu.Unlock()
}

var unknownSeq int

// TestLookupInFlightDuringEvent: a lookup that is under way while a pod event is observed. The lookup itself may answer
// with the pod version before or after the event; every lookup issued after the event has been observed must answer with
// the current pod - whatever the lookup in flight does when it completes.
func TestLookupInFlightDuringEvent(t *testing.T) {
	rapid.Check(t, func(t *rapid.T) {
		lrs := rapid.SampledFrom(labelRegexes[1:]).Draw(t, "label-regex")
		ars := rapid.SampledFrom(annotationRegexes).Draw(t, "annotation-regex")
		lre := regexp.MustCompile(lrs)
		var are *regexp.Regexp
		if ars != "" {
			are = regexp.MustCompile(ars)
		}
		hook := &parkHook{}
		logger := logrus.New()
		logger.SetOutput(io.Discard)
		logger.SetLevel(logrus.DebugLevel)
		logger.AddHook(hook)

		client := mainFake.NewSimpleClientset()
		watchers := make(chan *watch.FakeWatcher, 8)
		client.PrependWatchReactor("pods", func(kube_testing.Action) (bool, watch.Interface, error) {
			fw := watch.NewFake()
			watchers <- fw
			return true, fw, nil
		})
		prov, err := k8s.NewProvider(logger, client, k8s.PodInformerOptions{ResyncPeriod: 0, WatchCluster: true}, are, lre)
		if err != nil {
			t.Fatalf("NewProvider: %v", err)
		}
		// the provider runs as it does inside a server: with an internal statser in its context - in forwarder mode, where
		// reporting a counter also resets it - and whatever internal-metrics runner it has (today it has none) running
		statser := stats.NewInternalStatser(nil, "statsd", "", fakes.NewSink(), true, rapid.Bool().Draw(t, "forwarder-mode-statser"))
		ctx, cancel := context.WithCancel(stats.NewContext(context.Background(), statser))
		done := make(chan struct{})
		go func() { prov.Run(ctx); close(done) }()
		if mr, ok := interface{}(prov).(gostatsd.MetricsRunner); ok {
			go mr.RunMetricsContext(ctx)
		}
		flushStats := func() {
			statser.NotifyFlush(ctx, time.Second)
			time.Sleep(300 * time.Microsecond)
		}
		var w *watch.FakeWatcher
		select {
		case w = <-watchers:
		case <-time.After(30 * time.Second):
			t.Fatalf("the informer never opened its watch")
		}
		var history []string
		var releaseOnExit chan struct{}
		defer func() {
			hook.disarm()
			if releaseOnExit != nil {
				close(releaseOnExit)
			}
			cancel()
			<-done
			w.Stop()
		}()
		fail := func(sig, f string, a ...interface{}) {
			vt.WriteCase(map[string]interface{}{"label_regex": lrs, "annotation_regex": ars, "history": history})
			vt.Fail(t, sig, "%s; label-regex %q annotation-regex %q; history: %s", fmt.Sprintf(f, a...), lrs, ars, strings.Join(history, " | "))
		}
		send := func(f func()) {
			ch := make(chan struct{})
			go func() { f(); close(ch) }()
			select {
			case <-ch:
			case <-time.After(30 * time.Second):
				fail("C13:watch-event-not-consumed", "the informer did not take a watch event within 30s")
			}
		}
		barrier := func() {
			sentinelSeq++
			ip := fmt.Sprintf("251.%d.%d.%d", (sentinelSeq>>16)&255, (sentinelSeq>>8)&255, sentinelSeq&255)
			s := (&podState{ns: "sentinel", name: fmt.Sprintf("s%d", sentinelSeq), ip: ip, phase: core_v1.PodRunning}).obj()
			send(func() { w.Add(s) })
			deadline := time.Now().Add(30 * time.Second)
			for {
				if in, _ := prov.Peek(gostatsd.Source(ip)); in != nil {
					break
				}
				if time.Now().After(deadline) {
					fail("C13:barrier", "sentinel pod never became visible (30s)")
				}
				time.Sleep(20 * time.Microsecond)
			}
			send(func() { w.Delete(s) })
			for {
				if in, _ := prov.Peek(gostatsd.Source(ip)); in == nil {
					break
				}
				if time.Now().After(deadline) {
					fail("C13:barrier", "sentinel pod never disappeared (30s)")
				}
				time.Sleep(20 * time.Microsecond)
			}
		}
		// what a lookup of ip must answer given the pods: "nil" or "{id [sorted tags]}"
		pods := map[string]*podState{}
		expect := func(ip string) string {
			for _, p := range pods {
				if p.ip == ip && p.indexable() {
					return fmt.Sprintf("{%s/%s %q}", p.ns, p.name, wantTags(p, lre, are))
				}
			}
			return "nil"
		}
		show := func(in *gostatsd.Instance) string {
			if in == nil {
				return "nil"
			}
			tg := append([]string(nil), in.Tags...)
			sort.Strings(tg)
			return fmt.Sprintf("{%s %q}", in.ID, tg)
		}
		lookupNow := func(ip string, viaSink bool) string {
			if !viaSink {
				in, hit := prov.Peek(gostatsd.Source(ip))
				if !hit {
					fail("C13:peek-miss", "Peek(%q) reported a cache miss", ip)
				}
				return show(in)
			}
			select {
			case prov.IpSink() <- gostatsd.Source(ip):
			case <-time.After(30 * time.Second):
				fail("C13:ipsink-not-accepted", "IpSink did not accept %q", ip)
			}
			select {
			case info := <-prov.InfoSource():
				if string(info.IP) != ip {
					fail("C13:answer-for-other-ip", "asked for %q, answer is for %q", ip, info.IP)
				}
				return show(info.Instance)
			case <-time.After(30 * time.Second):
				fail("C13:no-answer", "no answer on InfoSource for %q within 30s", ip)
			}
			return ""
		}

		np := rapid.IntRange(1, 3).Draw(t, "pods")
		for i := 0; i < np; i++ {
			p := &podState{ns: "ns1", name: fmt.Sprintf("p%d", i), ip: ips[i], hostIP: "192.168.0.1", phase: core_v1.PodRunning,
				labels: kvGen(labelKeys).Draw(t, "labels"), annotations: kvGen(annotationKeys).Draw(t, "annotations")}
			pods[p.name] = p
			history = append(history, fmt.Sprintf("add %s ip=%s labels=%v ann=%v", p.name, p.ip, p.labels, p.annotations))
			send(func() { w.Add(p.obj()) })
		}
		barrier()
		parkedRounds, changedRounds := 0, 0
		rounds := rapid.IntRange(1, 4).Draw(t, "rounds")
		for r := 0; r < rounds; r++ {
			var live []string
			for n, p := range pods {
				if p.indexable() {
					live = append(live, n)
				}
			}
			if len(live) == 0 {
				break
			}
			sort.Strings(live)
			p := pods[rapid.SampledFrom(live).Draw(t, "pod")]
			x := p.ip
			if r > 0 {
				// the previous round's closing lookups memoised answers: an ordinary, fully observed edit forgets this one
				p.labels = kvGen(labelKeys).Draw(t, "labels")
				history = append(history, fmt.Sprintf("update %s labels=%v", p.name, p.labels))
				send(func() { w.Modify(p.obj()) })
				barrier()
			}
			if rapid.IntRange(0, 3).Draw(t, "burst-of-unknown-addresses") == 0 {
				// the answer for x is memoised; another goroutine looks up many addresses that no pod holds (sources that are not
				// pods) and is held at any house-keeping it logs on the way; an event for x is observed meanwhile
				if got := lookupNow(x, false); got != expect(x) {
					fail("C13:stale-or-wrong-pod", "lookup %q returned %s, want %s", x, got, expect(x))
				}
				n := rapid.SampledFrom([]int{40, 300, 700, 1100}).Draw(t, "burst")
				armed := make(chan [2]chan struct{}, 1)
				burstDone := make(chan struct{})
				go func() {
					defer close(burstDone)
					pk, rl := hook.armGoroutine()
					armed <- [2]chan struct{}{pk, rl}
					for i := 0; i < n; i++ {
						unknownSeq++
						prov.Peek(gostatsd.Source(fmt.Sprintf("172.%d.%d.%d", 16+(unknownSeq>>16)&15, (unknownSeq>>8)&255, unknownSeq&255)))
					}
				}()
				ch := <-armed
				releaseOnExit = ch[1]
				wasParked := false
				select {
				case <-ch[0]:
					wasParked = true
				case <-burstDone:
				case <-time.After(60 * time.Second):
					fail("C13:no-answer", "a burst of %d lookups of unknown addresses did not finish within 60s", n)
				}
				p.labels = kvGen(labelKeys).Draw(t, "labels")
				p.annotations = kvGen(annotationKeys).Draw(t, "annotations")
				what := fmt.Sprintf("update %s labels=%v annotations=%v", p.name, p.labels, p.annotations)
				history = append(history, fmt.Sprintf("lookup %s; burst of %d unknown addresses (held at house-keeping: %v); %s", x, n, wasParked, what))
				send(func() { w.Modify(p.obj()) })
				barrier()
				hook.disarm()
				close(ch[1])
				releaseOnExit = nil
				select {
				case <-burstDone:
				case <-time.After(60 * time.Second):
					fail("C13:no-answer", "the burst of lookups never finished after its release")
				}
				for i := 0; i < 2; i++ {
					got := lookupNow(x, rapid.Bool().Draw(t, "via-ipsink"))
					history = append(history, fmt.Sprintf("lookup %s -> %s", x, got))
					if got != expect(x) {
						fail("C13:stale-after-inflight-lookup", "lookup %q returned %s after %q had been observed, want %s (lookups of unknown addresses were under way during the event)", x, got, what, expect(x))
					}
				}
				continue
			}
			if rapid.Bool().Draw(t, "stats-flush-before-lookup") {
				flushStats()
				flushStats()
				history = append(history, "internal metrics flushed twice")
			}
			before := expect(x)
			parked, release := hook.arm(x)
			releaseOnExit = release
			viaSink := rapid.Bool().Draw(t, "in-flight-via-ipsink")
			answer := make(chan string, 1)
			go func() {
				if !viaSink {
					in, _ := prov.Peek(gostatsd.Source(x))
					answer <- show(in)
					return
				}
				select {
				case prov.IpSink() <- gostatsd.Source(x):
				case <-time.After(30 * time.Second):
					answer <- "ipsink-not-accepted"
					return
				}
				select {
				case info := <-prov.InfoSource():
					answer <- show(info.Instance)
				case <-time.After(60 * time.Second):
					answer <- "no-answer"
				}
			}()
			select {
			case <-parked:
			case <-time.After(30 * time.Second):
				fail("C13:harness-lookup-not-parked", "the lookup of %q did not reach the provider's log call within 30s (harness assumption)", x)
			}
			parkedRounds++
			history = append(history, fmt.Sprintf("lookup %s in flight (pod read from the informer, answer not yet memoised)", x))
			var what string
			switch rapid.IntRange(0, 5).Draw(t, "event") {
			case 0:
				p.labels = kvGen(labelKeys).Draw(t, "labels")
				what = fmt.Sprintf("update %s labels=%v", p.name, p.labels)
				send(func() { w.Modify(p.obj()) })
			case 1:
				p.annotations = kvGen(annotationKeys).Draw(t, "annotations")
				what = fmt.Sprintf("update %s annotations=%v", p.name, p.annotations)
				send(func() { w.Modify(p.obj()) })
			case 2:
				p.phase = rapid.SampledFrom([]core_v1.PodPhase{core_v1.PodSucceeded, core_v1.PodFailed}).Draw(t, "phase")
				what = fmt.Sprintf("update %s phase=%s", p.name, p.phase)
				send(func() { w.Modify(p.obj()) })
			case 3:
				p.hostNetwork = true
				what = fmt.Sprintf("update %s hostnet=true", p.name)
				send(func() { w.Modify(p.obj()) })
			case 4:
				p.ip = "" // to an address no pod holds, or to none
				for _, c := range ips {
					held := c == x
					for _, q := range pods {
						held = held || q.ip == c
					}
					if !held {
						p.ip = c
						break
					}
				}
				what = fmt.Sprintf("update %s ip=%s", p.name, p.ip)
				send(func() { w.Modify(p.obj()) })
			default:
				delete(pods, p.name)
				what = "delete " + p.name
				send(func() { w.Delete(p.obj()) })
			}
			history = append(history, what)
			barrier() // the event has been observed (index and invalidation)
			if rapid.Bool().Draw(t, "stats-flush-while-in-flight") {
				flushStats()
				flushStats()
				history = append(history, "internal metrics flushed twice")
			}
			after := expect(x)
			if after != before {
				changedRounds++
			}
			close(release)
			releaseOnExit = nil
			var got string
			select {
			case got = <-answer:
			case <-time.After(90 * time.Second):
				fail("C13:no-answer", "the released lookup of %q never returned", x)
			}
			history = append(history, fmt.Sprintf("lookup in flight completes -> %s", got))
			if got != before && got != after {
				fail("C13:stale-or-wrong-pod", "the lookup of %q that was in flight during %q answered %s, which is neither the pod before (%s) nor after (%s)", x, what, got, before, after)
			}
			// lookups issued now - the event has been observed - answer with the current pod
			for i := 0; i < 2; i++ {
				vs := rapid.Bool().Draw(t, "via-ipsink")
				got := lookupNow(x, vs)
				history = append(history, fmt.Sprintf("lookup %s -> %s", x, got))
				if got != after {
					fail("C13:stale-after-inflight-lookup", "lookup %q returned %s after %q had been observed, want %s (a lookup of that address was in flight during the event and answered %s)", x, got, what, after, before)
				}
			}
			if p.ip != x && p.ip != "" {
				if got := lookupNow(p.ip, false); got != expect(p.ip) {
					fail("C13:stale-or-wrong-pod", "lookup %q returned %s, want %s", p.ip, got, expect(p.ip))
				}
			}
		}
		labels := []string{"inflight"}
		if changedRounds > 0 {
			labels = append(labels, "event-changed-answer-while-lookup-in-flight")
		}
		if ev.C().WantSample() {
			ev.C().Sample(map[string]interface{}{"label_regex": lrs, "annotation_regex": ars, "history": history})
		}
		ev.C().Case("F|"+lrs+"|"+ars+"|"+strings.Join(history, "|"), parkedRounds > 0 && changedRounds > 0, labels...)
	})
}
