package c13

import (
	"context"
	"fmt"
	"io"
	"net"
	"os"
	"regexp"
	"sort"
	"strings"
	"sync"
	"testing"
	"time"

	"github.com/atlassian/gostatsd"
	"github.com/atlassian/gostatsd/pkg/cachedinstances/k8s"
	"github.com/atlassian/gostatsd/pkg/statsd"
	"github.com/sirupsen/logrus"
	core_v1 "k8s.io/api/core/v1"
	apierrors "k8s.io/apimachinery/pkg/api/errors"
	meta_v1 "k8s.io/apimachinery/pkg/apis/meta/v1"
	"k8s.io/apimachinery/pkg/runtime"
	"k8s.io/apimachinery/pkg/watch"
	mainFake "k8s.io/client-go/kubernetes/fake"
	kube_testing "k8s.io/client-go/testing"
	"pgregory.net/rapid"

	"verifharness/internal/ev"
	"verifharness/internal/fakes"
	"verifharness/internal/vt"
)

func TestMain(m *testing.M) {
	logrus.SetOutput(io.Discard)
	logrus.SetLevel(logrus.PanicLevel)
	ev.C().Rule("rapid state machine over k8s.NewProvider with a fake clientset and fake watcher: pods with distinct names and IPs from a pool of 4 (an IP is re-used only after its holder was deleted); actions add / update (phase, host network, host IP, IP set/unset/changed, deletion timestamp, label and annotation edits) / delete / relist (the watch breaks, a drawn subset of pods disappears while it is down, the informer relists and reopens its watch) / lookup(ip) through Peek and IpSink->InfoSource; every watch event is followed by a sentinel-pod barrier; label and annotation regexes from a pool with and without the named group. Oracle: pod model at quiescent points. In-flight layer: a lookup parked (through a logging hook) between reading the pod from the informer and memoising its answer, an update or delete observed meanwhile, the lookup released; later lookups must answer with the current pod. Non-trivial = a lookup that was memoised, then an invalidating event, then another lookup of the same IP; in-flight layer: the event changed the answer for the address while the lookup was parked")
	vt.Main(m)
}

var ips = []string{"10.1.0.1", "10.1.0.2", "10.1.0.3", "10.1.0.4", "FD00:0:0:0::5"}

// lookupIPs: what is looked up - the addresses pods are given, and another spelling of one of them. The provider matches
// addresses as text; whether it also recognises another spelling of a live pod's address is left open, but an answer under
// any spelling has to be the pod now holding the address.
var lookupIPs = append(append([]string{}, ips...), "fd00::5")

func sameAddress(a, b string) bool {
	x, y := net.ParseIP(a), net.ParseIP(b)
	return x != nil && y != nil && x.Equal(y)
}

var labelKeys = []string{"app", "app.kubernetes.io/name", "team", "gostatsd.atlassian.com/tag1", "apple"}
var annotationKeys = []string{"gostatsd.atlassian.com/tag1", "gostatsd.atlassian.com/", "product.company.com/tag2", "tag3", "gostatsd.atlassian.com/a/b"}
var values = []string{"v1", "v2", "", "x:y"}
var labelRegexes = []string{"", "^app", "^(app|team)$", `^app\.kubernetes\.io/(?P<tag>.*)$`, "^(?P<tag>te)am", `(?P<tag>tag\d)$`, "^(?P<tag>zzz)?app$"}
var annotationRegexes = []string{"", k8s.DefaultAnnotationTagRegex, `^product\.company\.com/(?P<tag>.*)$`, `^(product\.company\.com/|gostatsd\.atlassian\.com/)(?P<tag>.*)$`, "^tag", `/(?P<tag>[a-z]+)\d$`}

type podState struct {
	ns, name    string
	ip, hostIP  string
	phase       core_v1.PodPhase
	hostNetwork bool
	deleting    bool
	labels      map[string]string
	annotations map[string]string
}

func (p *podState) obj() *core_v1.Pod {
	o := &core_v1.Pod{
		ObjectMeta: meta_v1.ObjectMeta{Name: p.name, Namespace: p.ns, Labels: copyMap(p.labels), Annotations: copyMap(p.annotations)},
		Spec:       core_v1.PodSpec{HostNetwork: p.hostNetwork},
		Status:     core_v1.PodStatus{PodIP: p.ip, HostIP: p.hostIP, Phase: p.phase},
	}
	if p.deleting {
		ts := meta_v1.NewTime(time.Unix(1_700_000_000, 0))
		o.DeletionTimestamp = &ts
	}
	return o
}

func copyMap(m map[string]string) map[string]string {
	out := map[string]string{}
	for k, v := range m {
		out[k] = v
	}
	return out
}

func (p *podState) indexable() bool {
	if p.ip == "" || p.phase == core_v1.PodSucceeded || p.phase == core_v1.PodFailed || p.deleting {
		return false
	}
	return !(p.hostNetwork || p.ip == p.hostIP)
}

// tagName is the documented rule: the text of the capture group named "tag" when it matched non-empty text,
// else the whole key; only for keys the regex matches.
func tagName(re *regexp.Regexp, key string) (string, bool) {
	m := re.FindStringSubmatch(key)
	if m == nil {
		return "", false
	}
	if i := re.SubexpIndex("tag"); i >= 0 && m[i] != "" {
		return m[i], true
	}
	if m[0] == "" {
		return "", false // the regex matched nothing of the key (excluded from the pool, kept for safety)
	}
	return key, true
}

func wantTags(p *podState, lre, are *regexp.Regexp) []string {
	var out []string
	if lre != nil {
		for k, v := range p.labels {
			if n, ok := tagName(lre, k); ok {
				out = append(out, n+":"+v)
			}
		}
	}
	if are != nil {
		for k, v := range p.annotations {
			if n, ok := tagName(are, k); ok {
				out = append(out, n+":"+v)
			}
		}
	}
	sort.Strings(out)
	return out
}

func kvGen(keys []string) *rapid.Generator[map[string]string] {
	return rapid.Custom(func(t *rapid.T) map[string]string {
		m := map[string]string{}
		for _, k := range rapid.SliceOfNDistinct(rapid.SampledFrom(keys), 0, 3, rapid.ID[string]).Draw(t, "keys") {
			m[k] = rapid.SampledFrom(values).Draw(t, "value")
		}
		return m
	})
}

var sentinelSeq int

func TestPodHistories(t *testing.T) {
	rapid.Check(t, func(t *rapid.T) {
		lrs := rapid.SampledFrom(labelRegexes).Draw(t, "label-regex")
		ars := rapid.SampledFrom(annotationRegexes).Draw(t, "annotation-regex")
		var lre, are *regexp.Regexp
		if lrs != "" {
			lre = regexp.MustCompile(lrs)
		}
		if ars != "" {
			are = regexp.MustCompile(ars)
		}
		client := mainFake.NewSimpleClientset()
		// every watch the informer opens gets a fresh fake watcher that the harness feeds; what a (re)list returns is the
		// harness' current pod set, so that a relist after a broken watch can reveal deletions it never saw as events
		watchers := make(chan *watch.FakeWatcher, 8)
		var listMu sync.Mutex
		var listed []core_v1.Pod
		watchExpired := false
		client.PrependWatchReactor("pods", func(kube_testing.Action) (bool, watch.Interface, error) {
			listMu.Lock()
			expired := watchExpired
			watchExpired = false
			listMu.Unlock()
			if expired {
				// "resource version too old": the informer has to list again before it can watch
				return true, nil, apierrors.NewResourceExpired("too old resource version")
			}
			fw := watch.NewFake()
			watchers <- fw
			return true, fw, nil
		})
		client.PrependReactor("list", "pods", func(kube_testing.Action) (bool, runtime.Object, error) {
			listMu.Lock()
			defer listMu.Unlock()
			return true, &core_v1.PodList{Items: append([]core_v1.Pod(nil), listed...)}, nil
		})
		prov, err := k8s.NewProvider(logrus.StandardLogger(), client, k8s.PodInformerOptions{ResyncPeriod: 0, WatchCluster: true}, are, lre)
		if err != nil {
			t.Fatalf("NewProvider: %v", err)
		}
		ctx, cancel := context.WithCancel(context.Background())
		done := make(chan struct{})
		go func() { prov.Run(ctx); close(done) }()
		var w *watch.FakeWatcher
		select {
		case w = <-watchers:
		case <-time.After(30 * time.Second):
			t.Fatalf("the informer never opened its watch")
		}
		defer func() {
			cancel()
			<-done
			w.Stop()
		}()

		pods := map[string]*podState{}
		ipUsed := map[string]string{} // ip -> pod name (any pod that exists, indexable or not)
		var history []string
		memo := map[string]bool{}        // ip looked up with a non-nil answer since the last invalidating event for it
		invalidated := map[string]bool{} // ip that was memoised and then touched by an event
		nontrivial := false
		relisted := false
		relistDone := false
		nextName := 0

		fail := func(sig, f string, a ...interface{}) {
			vt.WriteCase(map[string]interface{}{"label_regex": lrs, "annotation_regex": ars, "history": history})
			vt.Fail(t, sig, "%s; label-regex %q annotation-regex %q; history: %s", fmt.Sprintf(f, a...), lrs, ars, strings.Join(history, " | "))
		}
		send := func(f func()) {
			ch := make(chan struct{})
			go func() { f(); close(ch) }()
			select {
			case <-ch:
			case <-time.After(30 * time.Second):
				fail("C13:watch-event-not-consumed", "the informer did not take a watch event within 30s")
			}
		}
		// barrier: a sentinel pod with a fresh IP is added and peeked until visible (then it is memoised), deleted and
		// peeked until gone: gone means the provider's own delete handler ran, and handlers run in event order.
		barrier := func() {
			sentinelSeq++
			ip := fmt.Sprintf("250.%d.%d.%d", (sentinelSeq>>16)&255, (sentinelSeq>>8)&255, sentinelSeq&255)
			s := (&podState{ns: "sentinel", name: fmt.Sprintf("s%d", sentinelSeq), ip: ip, phase: core_v1.PodRunning}).obj()
			send(func() { w.Add(s) })
			deadline := time.Now().Add(30 * time.Second)
			for {
				if in, _ := prov.Peek(gostatsd.Source(ip)); in != nil {
					break
				}
				if time.Now().After(deadline) {
					fail("C13:barrier", "sentinel pod never became visible (30s)")
				}
				time.Sleep(20 * time.Microsecond)
			}
			send(func() { w.Delete(s) })
			for {
				if in, _ := prov.Peek(gostatsd.Source(ip)); in == nil {
					break
				}
				if time.Now().After(deadline) {
					fail("C13:barrier", "sentinel pod never disappeared (30s)")
				}
				time.Sleep(20 * time.Microsecond)
			}
		}
		touch := func(ip string) {
			if ip != "" && memo[ip] {
				invalidated[ip] = true
				delete(memo, ip)
			}
		}
		freeIP := func(t *rapid.T) string {
			var free []string
			for _, ip := range ips {
				if ipUsed[ip] == "" {
					free = append(free, ip)
				}
			}
			if len(free) == 0 || rapid.IntRange(0, 4).Draw(t, "noip") == 0 {
				return ""
			}
			return rapid.SampledFrom(free).Draw(t, "ip")
		}
		names := func() []string {
			var out []string
			for n := range pods {
				out = append(out, n)
			}
			sort.Strings(out)
			return out
		}

		var lookup func(t *rapid.T, ip string)
		lookup = func(t *rapid.T, ip string) {
			var holder, alias *podState
			for _, p := range pods {
				if p.ip == ip && p.indexable() {
					holder = p
				}
			}
			if holder == nil {
				for _, p := range pods {
					if p.ip != ip && sameAddress(p.ip, ip) && p.indexable() {
						alias = p
					}
				}
			}
			viaSink := rapid.Bool().Draw(t, "via-ipsink")
			var got *gostatsd.Instance
			if viaSink {
				select {
				case prov.IpSink() <- gostatsd.Source(ip):
				case <-time.After(30 * time.Second):
					fail("C13:ipsink-not-accepted", "IpSink did not accept %q", ip)
				}
				select {
				case info := <-prov.InfoSource():
					if string(info.IP) != ip {
						fail("C13:answer-for-other-ip", "asked for %q, answer is for %q", ip, info.IP)
					}
					got = info.Instance
				case <-time.After(30 * time.Second):
					fail("C13:no-answer", "no answer on InfoSource for %q within 30s", ip)
				}
			} else {
				var hit bool
				got, hit = prov.Peek(gostatsd.Source(ip))
				if !hit {
					fail("C13:peek-miss", "Peek(%q) reported a cache miss", ip)
				}
			}
			history = append(history, fmt.Sprintf("lookup %s -> %v", ip, describe(got)))
			if holder == nil && alias != nil && got != nil {
				// the address is held by a pod that spells it differently: nothing, or that pod as it is now
				gt := append([]string(nil), got.Tags...)
				sort.Strings(gt)
				if string(got.ID) != alias.ns+"/"+alias.name || strings.Join(gt, "\x00") != strings.Join(wantTags(alias, lre, are), "\x00") {
					fail("C13:stale-or-wrong-pod", "lookup %q returned %s, the pod holding that address (as %q) is %s/%s with tags %q", ip, describe(got), alias.ip, alias.ns, alias.name, wantTags(alias, lre, are))
				}
			} else if holder == nil {
				if got != nil {
					fail("C13:stale-or-wrong-pod", "lookup %q returned %s but no running non-host-network pod holds that IP", ip, describe(got))
				}
			} else {
				if got == nil {
					fail("C13:pod-not-found", "lookup %q returned nothing but pod %s/%s holds that IP", ip, holder.ns, holder.name)
				}
				if string(got.ID) != holder.ns+"/"+holder.name {
					fail("C13:stale-or-wrong-pod", "lookup %q returned id %q, the pod holding the IP is %s/%s", ip, got.ID, holder.ns, holder.name)
				}
				gt := append([]string(nil), got.Tags...)
				sort.Strings(gt)
				wt := wantTags(holder, lre, are)
				if strings.Join(gt, "\x00") != strings.Join(wt, "\x00") {
					fail("C13:tags", "lookup %q (pod %s labels %v annotations %v) returned tags %q, want %q", ip, holder.name, holder.labels, holder.annotations, gt, wt)
				}
				if invalidated[ip] {
					nontrivial = true
				}
				memo[ip] = true
				if len(got.Tags) > 0 && rapid.IntRange(0, 3).Draw(t, "use-answer") == 0 {
					// the answer is used the way the pipeline uses it: an untagged series takes the instance's tags, then the tag
					// stage drops some of them. What the provider answers next for this address must not change with that.
					c := gostatsd.Counter{Value: 1}
					c.AddTagsSetSource(got.Tags, got.ID)
					mm := gostatsd.NewMetricMap(false)
					mm.Counters["used"] = map[string]gostatsd.Counter{gostatsd.FormatTagsKey(c.Source, c.Tags): c}
					drop := rapid.SampledFrom([]string{"regex:.*", "regex:^[a-m]", "regex:[0-9y]$"}).Draw(t, "drop-tags")
					th := statsd.NewTagHandler(fakes.NewSink(), nil, []statsd.Filter{{DropTags: gostatsd.StringMatchList{gostatsd.NewStringMatch(drop)}}})
					th.DispatchMetricMap(context.Background(), mm)
					again, _ := prov.Peek(gostatsd.Source(ip))
					history = append(history, fmt.Sprintf("answer used by an untagged series, tag stage drops %q; lookup %s -> %v", drop, ip, describe(again)))
					var at []string
					if again != nil {
						at = append(at, again.Tags...)
					}
					sort.Strings(at)
					if strings.Join(at, "\x00") != strings.Join(wt, "\x00") {
						fail("C13:tags", "lookup %q returned tags %q after its previous answer had been used by the pipeline (tag stage dropping %q), want %q", ip, at, drop, wt)
					}
				}
			}
		}

		t.Repeat(map[string]func(*rapid.T){
			"add": func(t *rapid.T) {
				if len(pods) >= 5 {
					t.Skip("enough pods")
				}
				nextName++
				p := &podState{ns: rapid.SampledFrom([]string{"ns1", "ns2"}).Draw(t, "ns"), name: fmt.Sprintf("p%d", nextName),
					ip: freeIP(t), hostIP: rapid.SampledFrom([]string{"192.168.0.1", ""}).Draw(t, "hostip"),
					phase:       rapid.SampledFrom([]core_v1.PodPhase{core_v1.PodRunning, core_v1.PodRunning, core_v1.PodPending, core_v1.PodSucceeded, core_v1.PodFailed, ""}).Draw(t, "phase"),
					hostNetwork: rapid.IntRange(0, 5).Draw(t, "hostnet") == 0,
					labels:      kvGen(labelKeys).Draw(t, "labels"), annotations: kvGen(annotationKeys).Draw(t, "annotations")}
				pods[p.name] = p
				if p.ip != "" {
					ipUsed[p.ip] = p.name
				}
				history = append(history, fmt.Sprintf("add %s/%s ip=%s phase=%s hostnet=%v labels=%v ann=%v", p.ns, p.name, p.ip, p.phase, p.hostNetwork, p.labels, p.annotations))
				touch(p.ip)
				send(func() { w.Add(p.obj()) })
				barrier()
			},
			"update": func(t *rapid.T) {
				if len(pods) == 0 {
					t.Skip("no pods")
				}
				p := pods[rapid.SampledFrom(names()).Draw(t, "pod")]
				oldIP := p.ip
				var what string
				switch rapid.IntRange(0, 6).Draw(t, "field") {
				case 0:
					p.phase = rapid.SampledFrom([]core_v1.PodPhase{core_v1.PodRunning, core_v1.PodPending, core_v1.PodSucceeded, core_v1.PodFailed}).Draw(t, "phase")
					what = "phase=" + string(p.phase)
				case 1:
					p.hostNetwork = !p.hostNetwork
					what = fmt.Sprintf("hostnet=%v", p.hostNetwork)
				case 2: // IP set / unset / changed
					if p.ip != "" {
						delete(ipUsed, p.ip)
					}
					p.ip = freeIP(t)
					if p.ip != "" {
						ipUsed[p.ip] = p.name
					}
					what = "ip=" + p.ip
				case 3:
					p.labels = kvGen(labelKeys).Draw(t, "labels")
					what = fmt.Sprintf("labels=%v", p.labels)
				case 4:
					p.annotations = kvGen(annotationKeys).Draw(t, "annotations")
					what = fmt.Sprintf("annotations=%v", p.annotations)
				case 5:
					p.deleting = !p.deleting
					what = fmt.Sprintf("deleting=%v", p.deleting)
				default:
					if p.hostIP == p.ip {
						p.hostIP = "192.168.0.1"
					} else {
						p.hostIP = p.ip
					}
					what = "hostip=" + p.hostIP
				}
				history = append(history, fmt.Sprintf("update %s %s", p.name, what))
				touch(oldIP)
				touch(p.ip)
				send(func() { w.Modify(p.obj()) })
				barrier()
			},
			"delete": func(t *rapid.T) {
				if len(pods) == 0 {
					t.Skip("no pods")
				}
				p := pods[rapid.SampledFrom(names()).Draw(t, "pod")]
				history = append(history, "delete "+p.name)
				touch(p.ip)
				delete(pods, p.name)
				if p.ip != "" {
					delete(ipUsed, p.ip)
				}
				send(func() { w.Delete(p.obj()) })
				barrier()
			},
			"relist": func(t *rapid.T) {
				// the watch breaks; while it is down some pods are deleted; the informer relists and learns of those
				// deletions only as "final state unknown" tombstones
				// a relist costs about a second of the reflector's real-time back-off: at most one per history, and rarely
				// (enabled in the "relist" job only, see lib/props.py)
				if os.Getenv("C13_RELIST") == "" || relistDone || rapid.IntRange(0, 2).Draw(t, "relist-now") != 0 {
					t.Skip("no relist now")
				}
				relistDone = true
				var gone []string
				for _, n := range names() {
					if rapid.IntRange(0, 2).Draw(t, "deleted-while-disconnected") != 0 {
						gone = append(gone, n)
					}
				}
				for _, n := range gone {
					p := pods[n]
					touch(p.ip)
					delete(pods, n)
					if p.ip != "" {
						delete(ipUsed, p.ip)
					}
				}
				history = append(history, fmt.Sprintf("relist (deleted while the watch was down: %v)", gone))
				listMu.Lock()
				listed = nil
				for _, n := range names() {
					listed = append(listed, *pods[n].obj())
				}
				watchExpired = true
				listMu.Unlock()
				w.Stop()
				select {
				case w = <-watchers:
				case <-time.After(60 * time.Second):
					fail("C13:watch-not-reopened", "the informer did not reopen its watch within 60s after it broke")
				}
				if len(gone) > 0 {
					relisted = true
				}
				barrier()
			},
			"lookupHeld": func(t *rapid.T) { // a lookup of an IP some pod holds (keeps lookups meaningful)
				var held []string
				for ip := range ipUsed {
					held = append(held, ip)
				}
				if len(held) == 0 {
					t.Skip("no IP held")
				}
				sort.Strings(held)
				lookup(t, rapid.SampledFrom(held).Draw(t, "held-ip"))
			},
			"lookup": func(t *rapid.T) { lookup(t, rapid.SampledFrom(lookupIPs).Draw(t, "ip")) },
			"lookupsBeforeAnyAnswerIsRead": func(t *rapid.T) {
				// a consumer slower than its producer: many lookups are handed in before the first answer is read. Every one of
				// them is answered, with the pod now holding the address
				if rapid.IntRange(0, 7).Draw(t, "sink-burst-now") != 0 {
					t.Skip("no burst now")
				}
				n := rapid.SampledFrom([]int{10, 63, 64, 65, 70, 130}).Draw(t, "lookups")
				asked := map[string]int{}
				for i := 0; i < n; i++ {
					ip := ips[i%len(ips)]
					if i%3 == 2 {
						ip = fmt.Sprintf("10.66.0.%d", i) // nobody's address
					}
					select {
					case prov.IpSink() <- gostatsd.Source(ip):
						asked[ip]++
					case <-time.After(30 * time.Second):
						fail("C13:ipsink-not-accepted", "IpSink did not accept lookup %d of %d while no answer had been read", i+1, n)
					}
				}
				history = append(history, fmt.Sprintf("%d lookups handed in before any answer was read", n))
				for i := 0; i < n; i++ {
					select {
					case info := <-prov.InfoSource():
						ip := string(info.IP)
						if asked[ip] == 0 {
							fail("C13:answer-for-other-ip", "answer %d of %d is for %q, which was not asked for (or was answered already)", i+1, n, ip)
						}
						asked[ip]--
						var holder *podState
						for _, p := range pods {
							if p.ip == ip && p.indexable() {
								holder = p
							}
						}
						if holder == nil && info.Instance != nil {
							fail("C13:stale-or-wrong-pod", "lookup %q returned %s but no running non-host-network pod holds that IP", ip, describe(info.Instance))
						}
						if holder != nil && (info.Instance == nil || string(info.Instance.ID) != holder.ns+"/"+holder.name) {
							fail("C13:pod-not-found", "lookup %q returned %s, the pod holding the IP is %s/%s", ip, describe(info.Instance), holder.ns, holder.name)
						}
						if holder != nil {
							memo[ip] = true
						}
					case <-time.After(30 * time.Second):
						fail("C13:no-answer", "%d of %d lookups handed in before any answer was read were answered (30s)", i, n)
					}
				}
			},
		})
		labels := []string{}
		if lrs != "" {
			labels = append(labels, "label-regex")
		}
		if strings.Contains(lrs+ars, "?P<tag>") {
			labels = append(labels, "named-group")
		}
		if nontrivial {
			labels = append(labels, "lookup-after-invalidation-of-memoised-ip")
		}
		if relisted {
			labels = append(labels, "deletion-seen-only-through-relist")
		}
		if ev.C().WantSample() {
			ev.C().Sample(map[string]interface{}{"label_regex": lrs, "annotation_regex": ars, "history": history})
		}
		ev.C().Case(lrs+"|"+ars+"|"+strings.Join(history, "|"), nontrivial, labels...)
	})
}

func describe(in *gostatsd.Instance) string {
	if in == nil {
		return "nil"
	}
	return fmt.Sprintf("{%s %q}", in.ID, []string(in.Tags))
}
