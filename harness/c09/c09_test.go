package c09

import (
	"fmt"
	"math"
	"sort"
	"strings"
	"testing"
	"time"

	"github.com/atlassian/gostatsd"
	"github.com/atlassian/gostatsd/pkg/statsd"
	"pgregory.net/rapid"

	"verifharness/internal/ev"
	"verifharness/internal/vt"
)

func TestMain(m *testing.M) {
	ev.C().Rule("rapid state machine over one real MetricAggregator with an injected clock: actions datapoint(series) / advance(dt around the expiry boundaries: -1ns, =, +1ns) / flush; 8 series (2 per type); expiry per type drawn independently from {-1s, 0, 1s, 10s, 1m}. Oracle: history model (reported iff live; removed after a flush at t iff interval != 0 and t - T > interval; idle values). Non-trivial = some series observed across >= 3 flushes including the flush that removes it, or re-appearing after expiry")
	vt.Main(m)
}

var expiries = []time.Duration{-time.Second, 0, time.Second, 10 * time.Second, time.Minute, time.Duration(math.MaxInt64), 2562047 * time.Hour, time.Duration(math.MinInt64), 1}
var steps = []time.Duration{0, 1, time.Second - 1, time.Second, time.Second + 1, 10*time.Second - 1, 10 * time.Second, 10*time.Second + 1,
	time.Minute - 1, time.Minute, time.Minute + 1, 500 * time.Millisecond, 3 * time.Second, 2 * time.Minute}

type sid struct {
	typ  gostatsd.MetricType
	name string
	tag  string // the series' single tag (also its tags key): two series of one name differ only here
}

// two series share each first name (c1, t1, g1, s1) and differ in their tag: expiry is per series, not per name
var series = []sid{
	{gostatsd.COUNTER, "c1", "k:v"}, {gostatsd.COUNTER, "c1", "k:w"}, {gostatsd.COUNTER, "c2", "k:v"},
	{gostatsd.TIMER, "t1", "k:v"}, {gostatsd.TIMER, "t1", "k:w"}, {gostatsd.TIMER, "t2", "k:v"},
	{gostatsd.TIMER, "t3", "gsd_histogram:2_5"}, // reported as bucket counts instead of summary statistics; expires like any timer
	{gostatsd.GAUGE, "g1", "k:v"}, {gostatsd.GAUGE, "g1", "k:w"}, {gostatsd.GAUGE, "g2", "k:v"},
	{gostatsd.SET, "s1", "k:v"}, {gostatsd.SET, "s1", "k:w"}, {gostatsd.SET, "s2", "k:v"},
}

func (s sid) String() string { return s.name + "{" + s.tag + "}" }

type mstate struct {
	live     bool
	lastData int64 // T
	counter  int64
	values   []float64
	sampled  float64
	members  map[string]bool
	gaugeC   map[float64]bool // candidates
	gaugeTs  int64
	seenFl   int  // flushes that reported it since it (re)appeared
	wasGone  bool // removed at least once
	reborn   bool
	boundary bool // observed in the flush that removed it after >= 3 reports
}

// brief renders sorted timer values: all of them when few, otherwise count, sum and range.
func brief(vs []float64) string {
	if len(vs) <= 32 {
		return fmt.Sprint(vs)
	}
	sum := 0.0
	for _, v := range vs {
		sum += v
	}
	return fmt.Sprintf("[%d values, sum %v, %v..%v]", len(vs), sum, vs[0], vs[len(vs)-1])
}

func TestExpiryHistories(t *testing.T) {
	rapid.Check(t, func(t *rapid.T) {
		exp := map[gostatsd.MetricType]time.Duration{
			gostatsd.COUNTER: rapid.SampledFrom(expiries).Draw(t, "expiry-counter"),
			gostatsd.GAUGE:   rapid.SampledFrom(expiries).Draw(t, "expiry-gauge"),
			gostatsd.SET:     rapid.SampledFrom(expiries).Draw(t, "expiry-set"),
			gostatsd.TIMER:   rapid.SampledFrom(expiries).Draw(t, "expiry-timer"),
		}
		now := time.Unix(1_700_000_000, 0)
		agg := statsd.NewMetricAggregator([]float64{90}, exp[gostatsd.COUNTER], exp[gostatsd.GAUGE], exp[gostatsd.SET], exp[gostatsd.TIMER], gostatsd.TimerSubtypes{}, math.MaxUint32)
		agg.VerifSetNow(func() time.Time { return now })
		model := map[sid]*mstate{}
		for _, s := range series {
			model[s] = &mstate{}
		}
		var history []string
		pending := gostatsd.NewMetricMap(false)
		flushes := 0
		nontrivial := false
		const crowdN = 10050
		crowdCase := rapid.IntRange(0, 39).Draw(t, "history-with-a-crowd") == 0
		crowdLive, crowdFresh, crowdLast, crowdSeen, crowdValue := false, false, int64(0), 0, int64(0)

		deliver := func() {
			if !pending.IsEmpty() {
				agg.ReceiveMap(pending)
				pending = gostatsd.NewMetricMap(false)
			}
		}

		t.Repeat(map[string]func(*rapid.T){
			"datapoint": func(t *rapid.T) {
				s := rapid.SampledFrom(series).Draw(t, "series")
				m := &gostatsd.Metric{Name: s.name, Type: s.typ, Rate: 1, Timestamp: gostatsd.Nanotime(now.UnixNano()), Tags: gostatsd.Tags{s.tag}}
				st := model[s]
				if !st.live {
					*st = mstate{live: true, wasGone: st.wasGone, reborn: st.wasGone}
				}
				st.lastData = now.UnixNano()
				switch s.typ {
				case gostatsd.COUNTER:
					m.Value = float64(rapid.IntRange(1, 9).Draw(t, "v"))
					st.counter += int64(m.Value)
				case gostatsd.TIMER:
					m.Value = float64(rapid.IntRange(1, 9).Draw(t, "v"))
					st.values = append(st.values, m.Value)
					st.sampled++
				case gostatsd.GAUGE:
					m.Value = float64(rapid.IntRange(1, 99).Draw(t, "v"))
					if st.gaugeC == nil || now.UnixNano() > st.gaugeTs {
						st.gaugeC = map[float64]bool{m.Value: true}
						st.gaugeTs = now.UnixNano()
					} else {
						st.gaugeC[m.Value] = true
					}
				case gostatsd.SET:
					m.StringValue = rapid.SampledFrom([]string{"a", "b", "c"}).Draw(t, "member")
					if st.members == nil {
						st.members = map[string]bool{}
					}
					st.members[m.StringValue] = true
				}
				history = append(history, fmt.Sprintf("@%v datapoint %s", now.Sub(time.Unix(1_700_000_000, 0)), s))
				pending.Receive(m)
				if rapid.Bool().Draw(t, "deliver-now") {
					deliver()
				}
			},
			"burst": func(t *rapid.T) {
				// rarely: one timer series receives thousands of values within the interval (one consolidated map from a
				// forwarder); the intervals after it, without data, must look like any other idle interval
				if rapid.IntRange(0, 5).Draw(t, "burst-now") != 0 {
					t.Skip("no burst now")
				}
				var ts []sid
				for _, s := range series {
					if s.typ == gostatsd.TIMER {
						ts = append(ts, s)
					}
				}
				s := rapid.SampledFrom(ts).Draw(t, "series")
				n := rapid.SampledFrom([]int{3000, 4097, 6000}).Draw(t, "burst-values")
				st := model[s]
				if !st.live {
					*st = mstate{live: true, wasGone: st.wasGone, reborn: st.wasGone}
				}
				st.lastData = now.UnixNano()
				vals := make([]float64, n)
				for i := range vals {
					vals[i] = float64(1 + i%9)
				}
				st.values = append(st.values, vals...)
				st.sampled += float64(n)
				deliver()
				mm := gostatsd.NewMetricMap(false)
				mm.Timers[s.name] = map[string]gostatsd.Timer{s.tag: {Values: vals, SampledCount: float64(n), Timestamp: gostatsd.Nanotime(now.UnixNano()), Tags: gostatsd.Tags{s.tag}}}
				agg.ReceiveMap(mm)
				history = append(history, fmt.Sprintf("@%v burst of %d values on %s", now.Sub(time.Unix(1_700_000_000, 0)), n, s))
			},
			"crowd": func(t *rapid.T) {
				// rarely: more than ten thousand counter series report at the same moment (a fleet behind one forwarder) and then
				// fall silent together; they all come to their expiry in one and the same Reset
				if !crowdCase || crowdLive || rapid.IntRange(0, 5).Draw(t, "crowd-now") != 0 {
					t.Skip("no crowd now")
				}
				deliver()
				mm := gostatsd.NewMetricMap(false)
				for i := 0; i < crowdN; i++ {
					mm.Counters[fmt.Sprintf("crowd.%d", i)] = map[string]gostatsd.Counter{"": {Value: 1, Timestamp: gostatsd.Nanotime(now.UnixNano())}}
				}
				agg.ReceiveMap(mm)
				crowdLive, crowdFresh, crowdLast = true, true, now.UnixNano()
				history = append(history, fmt.Sprintf("@%v crowd of %d counter series", now.Sub(time.Unix(1_700_000_000, 0)), crowdN))
			},
			"advance": func(t *rapid.T) {
				deliver() // datapoints carry their receive time; deliver before time moves on
				d := rapid.SampledFrom(steps).Draw(t, "dt")
				now = now.Add(d)
				history = append(history, fmt.Sprintf("advance %v", d))
			},
			"flush": func(t *rapid.T) {
				deliver()
				interval := 10 * time.Second
				agg.Flush(interval)
				got := map[sid]string{}
				dup := ""
				agg.Process(func(mm *gostatsd.MetricMap) {
					note := func(s sid, desc string) {
						if _, ok := got[s]; ok {
							dup = s.String()
						}
						got[s] = desc
					}
					crowdSeen, crowdValue = 0, 0
					mm.Counters.Each(func(n, tk string, c gostatsd.Counter) {
						if strings.HasPrefix(n, "crowd.") {
							crowdSeen++
							crowdValue += c.Value
							return
						}
						note(sid{gostatsd.COUNTER, n, tk}, fmt.Sprintf("%d/%v", c.Value, c.PerSecond))
					})
					mm.Gauges.Each(func(n, tk string, g gostatsd.Gauge) { note(sid{gostatsd.GAUGE, n, tk}, fmt.Sprintf("%v", g.Value)) })
					mm.Sets.Each(func(n, tk string, s gostatsd.Set) {
						var ms []string
						for m := range s.Values {
							ms = append(ms, m)
						}
						sort.Strings(ms)
						note(sid{gostatsd.SET, n, tk}, strings.Join(ms, ","))
					})
					mm.Timers.Each(func(n, tk string, tm gostatsd.Timer) {
						vs := append([]float64(nil), tm.Values...)
						sort.Float64s(vs)
						if tm.Histogram != nil {
							var bs []string
							for th, c := range tm.Histogram {
								bs = append(bs, fmt.Sprintf("%v:%d", float64(th), c))
							}
							sort.Strings(bs)
							note(sid{gostatsd.TIMER, n, tk}, fmt.Sprintf("hist/%v/%v", brief(vs), bs))
							return
						}
						note(sid{gostatsd.TIMER, n, tk}, fmt.Sprintf("%d/%v/%v/p%d", tm.Count, tm.PerSecond, brief(vs), len(tm.Percentiles)))
					})
				})
				agg.Reset()
				flushes++
				history = append(history, fmt.Sprintf("@%v flush -> %v", now.Sub(time.Unix(1_700_000_000, 0)), got))
				fail := func(sig, f string, a ...interface{}) {
					vt.WriteCase(map[string]interface{}{"expiry": fmt.Sprint(exp), "history": history})
					vt.Fail(t, sig, "%s; expiry %v; history: %s", fmt.Sprintf(f, a...), exp, strings.Join(history, " | "))
				}
				if dup != "" {
					fail("C09:reported-twice", "series %s reported twice in one flush", dup)
				}
				// the crowd obeys the counters' interval like any other counter series, all of its members alike
				if crowdLive {
					wantValue := int64(0)
					if crowdFresh {
						wantValue = crowdN
					}
					if crowdSeen != crowdN || crowdValue != wantValue {
						fail("C09:missing-before-expiry", "%d of the %d crowd counters reported (total %d, want %d) although their last data is %v old and the counters' expiry is %v", crowdSeen, crowdN, crowdValue, wantValue, time.Duration(now.UnixNano()-crowdLast), exp[gostatsd.COUNTER])
					}
					crowdFresh = false
					if iv := exp[gostatsd.COUNTER]; iv != 0 && time.Duration(now.UnixNano()-crowdLast) > iv {
						crowdLive = false
						nontrivial = true
					}
				} else if crowdSeen != 0 {
					fail("C09:reported-after-expiry", "%d of the %d crowd counters reported after they had expired and without new data", crowdSeen, crowdN)
				}
				for _, s := range series {
					st := model[s]
					desc, reported := got[s]
					if st.live && !reported {
						fail("C09:missing-before-expiry", "series %s (%v) not reported although its last data is %v old and its expiry is %v", s, s.typ, time.Duration(now.UnixNano()-st.lastData), exp[s.typ])
					}
					if !st.live && reported {
						fail("C09:reported-after-expiry", "series %s (%v) reported (%s) after it had expired and without new data", s, s.typ, desc)
					}
					if !st.live {
						continue
					}
					var want string
					switch s.typ {
					case gostatsd.COUNTER:
						want = fmt.Sprintf("%d/%v", st.counter, float64(st.counter)/10)
					case gostatsd.GAUGE:
						okg := false
						for v := range st.gaugeC {
							if desc == fmt.Sprintf("%v", v) {
								okg = true
							}
						}
						if !okg {
							fail("C09:gauge-value", "gauge %s reports %s, want one of %v", s, desc, st.gaugeC)
						}
						want = desc
					case gostatsd.SET:
						var ms []string
						for m := range st.members {
							ms = append(ms, m)
						}
						sort.Strings(ms)
						want = strings.Join(ms, ",")
					case gostatsd.TIMER:
						vs := append([]float64(nil), st.values...)
						sort.Float64s(vs)
						np := 0
						if len(vs) > 0 {
							np = 5
						}
						want = fmt.Sprintf("%d/%v/%v/p%d", len(vs), float64(len(vs))/10, brief(vs), np)
						if strings.HasPrefix(s.tag, "gsd_histogram:") {
							le2, le5 := 0, 0
							for _, v := range vs {
								if v <= 2 {
									le2++
								}
								if v <= 5 {
									le5++
								}
							}
							bs := []string{fmt.Sprintf("%v:%d", 2.0, le2), fmt.Sprintf("%v:%d", 5.0, le5), fmt.Sprintf("%v:%d", math.Inf(1), len(vs))}
							sort.Strings(bs)
							want = fmt.Sprintf("hist/%v/%v", brief(vs), bs)
						}
					}
					if desc != want {
						fail("C09:idle-or-data-values", "series %s (%v) reports %s want %s", s, s.typ, desc, want)
					}
					st.seenFl++
					// reset per-flush data
					st.counter, st.values, st.sampled, st.members = 0, nil, 0, nil
					// expiry decision
					iv := exp[s.typ]
					if iv != 0 && time.Duration(now.UnixNano()-st.lastData) > iv {
						if st.seenFl >= 3 || st.reborn {
							nontrivial = true
						}
						st.live = false
						st.wasGone = true
					}
				}
			},
		})
		labels := []string{fmt.Sprintf("flushes=%s", bucket(flushes))}
		for ty, e := range exp {
			labels = append(labels, fmt.Sprintf("expiry-%s=%v", ty, e))
		}
		reborn := false
		for _, st := range model {
			reborn = reborn || st.reborn
		}
		if reborn {
			labels = append(labels, "series-reappeared-after-expiry")
		}
		if ev.C().WantSample() {
			ev.C().Sample(map[string]interface{}{"expiry": fmt.Sprint(exp), "history": history})
		}
		ev.C().Case(fmt.Sprint(exp)+strings.Join(history, "|"), nontrivial, labels...)
	})
}

func bucket(n int) string {
	switch {
	case n == 0:
		return "0"
	case n < 3:
		return "1-2"
	case n < 8:
		return "3-7"
	}
	return "8+"
}
