package c09

import (
	"bufio"
	"fmt"
	"net"
	"os"
	"os/exec"
	"strings"
	"sync"
	"testing"
	"time"

	"pgregory.net/rapid"

	"verifharness/internal/ev"
	"verifharness/internal/vt"
)

// TestBinaryExpiryConfig runs the gostatsd command itself ($GOSTATSD_BIN, built by the driver from the working tree)
// with generated --expiry-interval / --expiry-interval-<type> settings, the stdout backend and a 100 ms flush
// interval, sends one datapoint per metric type over UDP and watches the flushes: the command line is how the
// per-type intervals reach the aggregators, and an interval of 0 must still mean "never expires" there.
//
// Time is real here, so every assertion is one that load cannot flip: flushes are counted by a heartbeat counter the
// harness keeps sending (n flushes cannot take less than about n-2 intervals), "kept" is asserted only for series that
// never expire or expire after 5 minutes, "expires" only as "is absent from some flush within 60 s".
func TestBinaryExpiryConfig(t *testing.T) {
	bin := os.Getenv("GOSTATSD_BIN")
	if bin == "" {
		t.Skip("GOSTATSD_BIN not set (the driver builds it)")
	}
	rapid.Check(t, func(t *rapid.T) {
		choice := func(label string) string {
			return rapid.SampledFrom([]string{"", "0", "400ms"}).Draw(t, label)
		}
		main := rapid.SampledFrom([]string{"", "400ms", "0"}).Draw(t, "expiry-interval")
		per := map[string]string{"counter": choice("expiry-interval-counter"), "gauge": choice("expiry-interval-gauge"), "set": choice("expiry-interval-set"), "timer": choice("expiry-interval-timer")}
		effective := func(typ string) string { // "forever", "short" or "long" (the 5 minute default)
			v := per[typ]
			if v == "" {
				v = main
			}
			switch v {
			case "0":
				return "forever"
			case "400ms":
				return "short"
			}
			return "long"
		}
		pc, err := net.ListenPacket("udp", "127.0.0.1:0")
		if err != nil {
			t.Skip("no loopback socket")
		}
		addr := pc.LocalAddr().String()
		pc.Close()
		args := []string{"--backends", "stdout", "--metrics-addr", addr, "--flush-interval", "100ms", "--statser-type", "null", "--max-workers", "1", "--max-readers", "1"}
		// every setting reaches the command either as a flag, through the configuration file, or through the environment
		var cfgLines, envs []string
		place := func(opt, val string) {
			switch rapid.SampledFrom([]string{"flag", "flag", "file", "env"}).Draw(t, "where-"+opt) {
			case "flag":
				args = append(args, "--"+opt, val)
			case "file":
				cfgLines = append(cfgLines, fmt.Sprintf("%s = '%s'", opt, val))
			default:
				envs = append(envs, "GSD_"+strings.ToUpper(strings.ReplaceAll(opt, "-", "_"))+"="+val)
			}
		}
		if main != "" {
			place("expiry-interval", main)
		}
		for _, typ := range []string{"counter", "gauge", "set", "timer"} {
			if per[typ] != "" {
				place("expiry-interval-"+typ, per[typ])
			}
		}
		if len(cfgLines) > 0 {
			dir, err := os.MkdirTemp("", "c09cfg")
			if err != nil {
				t.Fatalf("%v", err)
			}
			defer os.RemoveAll(dir)
			if err := os.WriteFile(dir+"/gostatsd.toml", []byte(strings.Join(cfgLines, "\n")+"\n"), 0o600); err != nil {
				t.Fatalf("%v", err)
			}
			args = append(args, "--config-path", dir+"/gostatsd.toml")
		}
		cmd := exec.Command(bin, args...)
		cmd.Env = append(append(os.Environ(), "AWS_CA_BUNDLE="), envs...)
		out, err := cmd.StderrPipe()
		if err != nil {
			t.Fatalf("pipe: %v", err)
		}
		cmd.Stdout = cmd.Stderr
		if err := cmd.Start(); err != nil {
			t.Fatalf("start %s: %v", bin, err)
		}
		var mu sync.Mutex
		var lines []string
		readerDone := make(chan struct{})
		go func() {
			defer close(readerDone)
			sc := bufio.NewScanner(out)
			sc.Buffer(make([]byte, 1<<20), 1<<20)
			for sc.Scan() {
				mu.Lock()
				lines = append(lines, sc.Text())
				mu.Unlock()
			}
		}()
		stop := make(chan struct{})
		defer func() {
			close(stop)
			cmd.Process.Kill()
			cmd.Wait()
			<-readerDone
		}()
		conn, err := net.Dial("udp", addr)
		if err != nil {
			t.Skip("dial: " + err.Error())
		}
		defer conn.Close()
		go func() { // heartbeat: one counter increment every 30 ms, so that every flush carries verif.hb
			for {
				select {
				case <-stop:
					return
				case <-time.After(30 * time.Millisecond):
					conn.Write([]byte("verif.hb:1|c"))
				}
			}
		}()
		snapshot := func() []string {
			mu.Lock()
			defer mu.Unlock()
			return append([]string(nil), lines...)
		}
		const hb = "stats.counter.verif.hb."
		prefix := map[string]string{"counter": "stats.counter.verif.c.", "gauge": "stats.gauge.verif.g.", "set": "stats.set.verif.s.", "timer": "stats.timers.verif.t."}
		// flushes(l) splits the output into flushes at the heartbeat's count line
		flushes := func(l []string) [][]string {
			var fl [][]string
			var cur []string
			for _, x := range l {
				cur = append(cur, x)
				if strings.Contains(x, hb) && strings.Contains(x, ".count ") {
					fl = append(fl, cur)
					cur = nil
				}
			}
			return fl
		}
		waitFor := func(what string, cond func(fl [][]string) bool) bool {
			deadline := time.Now().Add(60 * time.Second)
			for time.Now().Before(deadline) {
				if cond(flushes(snapshot())) {
					return true
				}
				if cmd.ProcessState != nil {
					break
				}
				time.Sleep(20 * time.Millisecond)
			}
			return false
		}
		if !waitFor("first heartbeat", func(fl [][]string) bool { return len(fl) >= 2 }) {
			notServing(t, fmt.Sprintf("gostatsd %v did not flush the heartbeat within 60s; output: %v", args, tail(snapshot(), 8)))
		}
		conn.Write([]byte("verif.c:3|c\nverif.g:5|g\nverif.s:m|s\nverif.t:7|ms"))
		has := func(fl []string, typ string) bool {
			for _, x := range fl {
				if strings.Contains(x, prefix[typ]) {
					return true
				}
			}
			return false
		}
		first := -1
		if !waitFor("the datapoints", func(fl [][]string) bool {
			for i, f := range fl {
				if has(f, "gauge") && first < 0 {
					first = i
				}
			}
			return first >= 0
		}) {
			notServing(t, fmt.Sprintf("gostatsd %v never reported the datapoints; output: %v", args, tail(snapshot(), 8)))
		}
		const later = 40 // flushes after the first report: at least ~3.8 s at 100 ms, far beyond 400 ms
		if !waitFor("40 more flushes", func(fl [][]string) bool { return len(fl) >= first+later+3 }) {
			notServing(t, fmt.Sprintf("gostatsd %v stopped flushing; output: %v", args, tail(snapshot(), 8)))
		}
		fl := flushes(snapshot())
		window := append(append([]string{}, fl[first+later]...), fl[first+later+1]...)
		for _, typ := range []string{"counter", "gauge", "set", "timer"} {
			switch effective(typ) {
			case "forever", "long":
				if !has(window, typ) {
					vt.Fail(t, "C09:missing-before-expiry", "gostatsd %v: the %s series is gone %d flushes (100 ms each) after its only datapoint although its expiry interval resolves to %s", args, typ, later, effective(typ))
				}
			case "short":
				gone := false
				for i := first + 1; i+1 < len(fl) && !gone; i++ {
					gone = !has(fl[i], typ) && !has(fl[i+1], typ)
				}
				if !gone {
					vt.Fail(t, "C09:reported-after-expiry", "gostatsd %v: the %s series (expiry 400 ms) is still in every one of the %d flushes after its only datapoint", args, typ, len(fl)-first)
				}
			}
		}
		canon := fmt.Sprintf("BIN|main=%s|c=%s|g=%s|s=%s|t=%s", main, per["counter"], per["gauge"], per["set"], per["timer"])
		nt := false
		for _, typ := range []string{"counter", "gauge", "set", "timer"} {
			nt = nt || (per[typ] != "" && per[typ] != main)
		}
		ev.C().Case(canon, nt, "binary-command-line")
		if ev.C().WantSample() {
			ev.C().Sample(map[string]interface{}{"gostatsd_args": strings.Join(args, " "), "effective": fmt.Sprintf("counter=%s gauge=%s set=%s timer=%s", effective("counter"), effective("gauge"), effective("set"), effective("timer")), "flushes_seen": len(fl)})
		}
	})
}

func tail(l []string, n int) []string {
	if len(l) > n {
		return l[len(l)-n:]
	}
	return l
}

// TestBinaryTimestampAtArrival: a datapoint's age counts from its arrival. The command runs with a 2 s expiry for every
// type; the harness stays silent for longer than that, then sends one datapoint per type. Each series must be reported
// beyond the flush that carries its data. The only assertion is load-proof: a complete flush that lacks the series and
// is *observed* less than 1 s after the datapoint was sent means the series expired although it was not even 1 s old.
func TestBinaryTimestampAtArrival(t *testing.T) {
	bin := os.Getenv("GOSTATSD_BIN")
	if bin == "" {
		t.Skip("GOSTATSD_BIN not set (the driver builds it)")
	}
	rapid.Check(t, func(t *rapid.T) {
		quiet := time.Duration(rapid.SampledFrom([]int{2300, 2600, 3000}).Draw(t, "quiet-ms")) * time.Millisecond
		readers := rapid.SampledFrom([]int{1, 2}).Draw(t, "max-readers")
		pc, err := net.ListenPacket("udp", "127.0.0.1:0")
		if err != nil {
			t.Skip("no loopback socket")
		}
		addr := pc.LocalAddr().String()
		pc.Close()
		args := []string{"--backends", "stdout", "--metrics-addr", addr, "--flush-interval", "100ms", "--statser-type", "null", "--max-workers", "1",
			"--max-readers", fmt.Sprint(readers), "--expiry-interval", "2s"}
		cmd := exec.Command(bin, args...)
		cmd.Env = append(os.Environ(), "AWS_CA_BUNDLE=")
		out, err := cmd.StderrPipe()
		if err != nil {
			t.Fatalf("pipe: %v", err)
		}
		cmd.Stdout = cmd.Stderr
		if err := cmd.Start(); err != nil {
			t.Fatalf("start %s: %v", bin, err)
		}
		type stamped struct {
			line string
			at   time.Time
		}
		var mu sync.Mutex
		var lines []stamped
		readerDone := make(chan struct{})
		go func() {
			defer close(readerDone)
			sc := bufio.NewScanner(out)
			sc.Buffer(make([]byte, 1<<20), 1<<20)
			for sc.Scan() {
				mu.Lock()
				lines = append(lines, stamped{sc.Text(), time.Now()})
				mu.Unlock()
			}
		}()
		defer func() {
			cmd.Process.Kill()
			cmd.Wait()
			<-readerDone
		}()
		conn, err := net.Dial("udp", addr)
		if err != nil {
			t.Skip("dial: " + err.Error())
		}
		defer conn.Close()
		snapshot := func() []stamped {
			mu.Lock()
			defer mu.Unlock()
			return append([]stamped(nil), lines...)
		}
		const hb = "stats.counter.verif.hb."
		// wait until the command serves: heartbeats until one is reported
		serving := false
		for deadline := time.Now().Add(60 * time.Second); time.Now().Before(deadline) && !serving; time.Sleep(20 * time.Millisecond) {
			conn.Write([]byte("verif.hb:1|c"))
			for _, l := range snapshot() {
				serving = serving || strings.Contains(l.line, hb)
			}
		}
		if !serving {
			notServing(t, fmt.Sprintf("gostatsd %v did not report the heartbeat within 60s", args))
		}
		time.Sleep(quiet) // nothing arrives: the readers sit in their blocking read
		mark := len(snapshot())
		sent := time.Now()
		conn.Write([]byte("verif.c:3|c\nverif.g:5|g\nverif.s:m|s\nverif.t:7|ms"))
		stop := make(chan struct{})
		defer close(stop)
		go func() {
			for {
				select {
				case <-stop:
					return
				case <-time.After(30 * time.Millisecond):
					conn.Write([]byte("verif.hb:1|c"))
				}
			}
		}()
		prefix := map[string]string{"counter": "stats.counter.verif.c.", "gauge": "stats.gauge.verif.g.", "set": "stats.set.verif.s.", "timer": "stats.timers.verif.t."}
		// observe for 1.2 s: flushes are delimited by the heartbeat's count line
		// The lines of one flush come in no particular order, so the heartbeat's line cuts the output into blocks that each
		// hold the end of one flush and the beginning of the next; two consecutive blocks always contain one whole flush.
		seen := map[string]bool{}
		for time.Since(sent) < 1200*time.Millisecond {
			time.Sleep(25 * time.Millisecond)
			l := snapshot()[mark:]
			var cur []stamped
			absent := map[string]int{} // consecutive blocks without the series, after it was seen
			for _, x := range l {
				cur = append(cur, x)
				if !(strings.Contains(x.line, hb) && strings.Contains(x.line, ".count ")) {
					continue
				}
				for typ, p := range prefix {
					has := false
					for _, y := range cur {
						has = has || strings.Contains(y.line, p)
					}
					switch {
					case has:
						seen[typ] = true
						absent[typ] = 0
					case seen[typ]:
						absent[typ]++
						if absent[typ] >= 2 && x.at.Sub(sent) < time.Second {
							vt.Fail(t, "C09:missing-before-expiry", "gostatsd %v: after %v of silence a %s datapoint was sent; a whole flush observed %v later no longer reports the series although its expiry interval is 2s", args, quiet, typ, x.at.Sub(sent).Round(time.Millisecond))
						}
					}
				}
				cur = nil
			}
		}
		for typ := range prefix {
			if !seen[typ] {
				ev.C().Excluded("binary-datapoint-not-seen-within-1.2s", 1)
			}
		}
		ev.C().Case(fmt.Sprintf("BINQ|%v|%d", quiet, readers), true, "binary-quiet-then-data")
		if ev.C().WantSample() {
			ev.C().Sample(map[string]interface{}{"gostatsd_args": strings.Join(args, " "), "quiet": quiet.String()})
		}
	})
}

// notServing ends a case in which the command did not come up or stopped flushing: that is a problem of the run (a port
// taken by a neighbour between probing and binding, an overloaded machine), not something these tests decide.
func notServing(t *rapid.T, why string) {
	ev.C().Excluded("binary-not-serving", 1)
	fmt.Fprintln(os.Stderr, "C09 binary job, case skipped:", why)
	t.Skip("gostatsd command not serving")
}
