package c08

import (
	"fmt"
	"math"
	"runtime/debug"
	"sort"
	"strconv"
	"strings"
	"testing"
	"time"

	"github.com/atlassian/gostatsd"
	"github.com/atlassian/gostatsd/pkg/statsd"
	"pgregory.net/rapid"

	"verifharness/internal/ev"
	"verifharness/internal/gen"
	"verifharness/internal/vt"
)

func TestMain(m *testing.M) {
	ev.C().Rule("rapid: timer value multisets (n 0..40; small ints, decimals, duplicates, negatives, magnitudes 1e-3..1e9) x sample rates x arrival permutation/batching x integer percentile lists in [-100,100]\\{0} x flush interval x sub-metric masks; histogram tags (sorted/unsorted/duplicate/malformed/inf items) x limits. Oracle: independent statistics (own sort, compensated sums, direct top-k/bottom-k sums) with tolerance 1e-9*scale, and permutation/batching invariance. Non-trivial = n>=2 with a negative percentile or a sampled rate, or a histogram whose limit is below its number of buckets")
	vt.Main(m)
}

func valueGen() *rapid.Generator[float64] {
	return rapid.OneOf(
		rapid.Custom(func(t *rapid.T) float64 { return float64(rapid.IntRange(-5, 20).Draw(t, "small")) }),
		rapid.Custom(func(t *rapid.T) float64 {
			return float64(rapid.IntRange(-100000, 100000).Draw(t, "dec")) / math.Pow(10, float64(rapid.IntRange(0, 3).Draw(t, "places")))
		}),
		rapid.Custom(func(t *rapid.T) float64 {
			return rapid.Float64Range(1, 10).Draw(t, "mant") * math.Pow(10, float64(rapid.IntRange(-3, 9).Draw(t, "exp"))) * float64(rapid.SampledFrom([]int{1, 1, 1, -1}).Draw(t, "sign"))
		}),
	)
}

type point struct {
	v    float64
	rate float64
}

func neumaier(xs []float64) float64 {
	var sum, c float64
	for _, x := range xs {
		t := sum + x
		if math.Abs(sum) >= math.Abs(x) {
			c += (sum - t) + x
		} else {
			c += (x - t) + sum
		}
		sum = t
	}
	return sum + c
}

func sq(xs []float64) []float64 {
	out := make([]float64, len(xs))
	for i, x := range xs {
		out[i] = x * x
	}
	return out
}

func absSum(xs []float64) float64 {
	var s float64
	for _, x := range xs {
		s += math.Abs(x)
	}
	return s
}

func near(got, want, scale float64) bool {
	if got == want {
		return true
	}
	return math.Abs(got-want) <= 1e-9*scale+1e-300
}

// run feeds the points in the given batching to a fresh aggregator and returns the flushed timer.
// siblingMode: another timer series of the same name (tag sibling:1) is received in every batch before (1) or after (2)
// the series under test; what a series reports must not depend on who shares its name or its batch.
var siblingMode int

// siblingHist: the sibling is a histogram timer with a bucket list of its own (same name, other gsd_histogram tag)
var siblingHist string

func run(t vt.TB, pcts []float64, mask gostatsd.TimerSubtypes, limit uint32, tags gostatsd.Tags, batches [][]point, interval time.Duration) gostatsd.Timer {
	agg := statsd.NewMetricAggregator(pcts, 0, 0, 0, 0, mask, limit)
	if countPoints(batches) == 0 {
		// a timer without values only exists as a persisted series: prime it, flush, reset
		mm := gostatsd.NewMetricMap(false)
		mm.Receive(&gostatsd.Metric{Name: "t", Type: gostatsd.TIMER, Value: 7, Rate: 0.5, Tags: tags.Copy(), Timestamp: 1})
		agg.ReceiveMap(mm)
		agg.Flush(interval)
		agg.Reset()
	}
	for _, b := range batches {
		mm := gostatsd.NewMetricMap(false)
		sib := &gostatsd.Metric{Name: "t", Type: gostatsd.TIMER, Value: 7, Rate: 0.5, Tags: gostatsd.Tags{"sibling:1"}, Timestamp: 1}
		if siblingHist != "" {
			sib.Tags = gostatsd.Tags{"sibling:1", siblingHist}
		}
		if siblingMode == 1 {
			mm.Receive(sib)
		}
		for _, p := range b {
			mm.Receive(&gostatsd.Metric{Name: "t", Type: gostatsd.TIMER, Value: p.v, Rate: p.rate, Tags: tags.Copy(), Timestamp: 1})
		}
		if siblingMode == 2 {
			mm.Receive(sib)
		}
		agg.ReceiveMap(mm)
	}
	func() {
		defer func() {
			if p := recover(); p != nil {
				vt.WriteCase(map[string]interface{}{"percentiles": pcts, "batches": fmt.Sprint(batches), "tags": tags, "limit": limit, "panic": fmt.Sprint(p), "stack": string(debug.Stack())})
				vt.Fail(t, "C08:flush-panic", "Aggregator.Flush panicked (percentiles %v, %d values): %v", pcts, countPoints(batches), p)
			}
		}()
		agg.Flush(interval)
	}()
	var out gostatsd.Timer
	found := 0
	agg.Process(func(mm *gostatsd.MetricMap) {
		mm.Timers.Each(func(n, k string, tm gostatsd.Timer) {
			for _, tg := range tm.Tags {
				if tg == "sibling:1" {
					return
				}
			}
			out = tm
			found++
		})
	})
	if found != 1 {
		vt.Fail(t, "C08:series-count", "expected one flushed timer, found %d", found)
	}
	return out
}

func countPoints(b [][]point) int {
	n := 0
	for _, x := range b {
		n += len(x)
	}
	return n
}

func pctMap(t vt.TB, tm gostatsd.Timer) map[string]float64 {
	m := map[string]float64{}
	for _, p := range tm.Percentiles {
		if _, dup := m[p.Str]; dup {
			vt.Fail(t, "C08:duplicate-percentile-entry", "percentile entry %q reported twice", p.Str)
		}
		m[p.Str] = p.Float
	}
	return m
}

func maskGen() *rapid.Generator[gostatsd.TimerSubtypes] {
	return rapid.Custom(func(t *rapid.T) gostatsd.TimerSubtypes {
		if rapid.IntRange(0, 2).Draw(t, "anymask") != 0 {
			return gostatsd.TimerSubtypes{}
		}
		b := func(n string) bool { return rapid.IntRange(0, 3).Draw(t, n) == 0 }
		return gostatsd.TimerSubtypes{Lower: b("l"), LowerPct: b("lp"), Upper: b("u"), UpperPct: b("up"), Count: b("c"), CountPct: b("cp"), CountPerSecond: b("cps"),
			Mean: b("m"), MeanPct: b("mp"), Median: b("md"), StdDev: b("sd"), Sum: b("s"), SumPct: b("sp"), SumSquares: b("ss"), SumSquaresPct: b("ssp")}
	})
}

func split(t *rapid.T, pts []point) [][]point {
	if len(pts) == 0 {
		return [][]point{{}}
	}
	var out [][]point
	cur := []point{}
	for i, p := range pts {
		cur = append(cur, p)
		if i < len(pts)-1 && rapid.IntRange(0, 3).Draw(t, "cut") == 0 {
			out = append(out, cur)
			cur = []point{}
		}
	}
	return append(out, cur)
}

func TestTimerStatistics(t *testing.T) {
	rapid.Check(t, func(t *rapid.T) {
		n := rapid.IntRange(0, 40).Draw(t, "n")
		if rapid.IntRange(0, 2).Draw(t, "tiny") == 0 {
			n = rapid.IntRange(0, 6).Draw(t, "n-small")
		}
		pts := make([]point, n)
		sampled := false
		// clustered: large values that differ only in their last digits (timestamps, byte counts): statistics of the
		// spread must survive the magnitude
		cluster := 0.0
		if rapid.IntRange(0, 3).Draw(t, "clustered") == 0 {
			cluster = rapid.SampledFrom([]float64{1e6, 1e8, 1e9, 1.7e12, -1e8}).Draw(t, "cluster-base")
		}
		for i := range pts {
			pts[i] = point{v: valueGen().Draw(t, "v"), rate: rapid.SampledFrom([]float64{1, 1, 1, 0.5, 0.25, 0.1, 0.3, 0.01}).Draw(t, "rate")}
			if cluster != 0 {
				pts[i].v = cluster + float64(rapid.IntRange(0, 8).Draw(t, "cluster-offset"))
			}
			if rapid.IntRange(0, 4).Draw(t, "dupv") == 0 && i > 0 {
				pts[i].v = pts[rapid.IntRange(0, i-1).Draw(t, "dupidx")].v
			}
			sampled = sampled || pts[i].rate != 1
		}
		np := rapid.IntRange(0, 4).Draw(t, "npct")
		var pcts []float64
		negPct := false
		for i := 0; i < np; i++ {
			p := rapid.OneOf(rapid.SampledFrom([]int{90, 95, 99, 50, 100, -90, -100, -50, -1, 1, -99, 10, -10}), rapid.IntRange(-100, 100)).Draw(t, "pct")
			if p == 0 {
				p = 100
			}
			pcts = append(pcts, float64(p))
			negPct = negPct || p < 0
		}
		interval := rapid.SampledFrom([]time.Duration{time.Second, 10 * time.Second, 300 * time.Millisecond, time.Minute, 7 * time.Second}).Draw(t, "interval")
		mask := maskGen().Draw(t, "mask")
		tags := gostatsd.Tags(rapid.SampledFrom([][]string{nil, {"a:b"}, {"x", "y:z"}}).Draw(t, "tags"))

		batches := split(t, pts)
		siblingMode = rapid.IntRange(0, 2).Draw(t, "sibling-series")
		tm := run(t, pcts, mask, math.MaxUint32, tags, batches, interval)
		checkStats(t, tm, pts, pcts, mask, interval)

		// metamorphic: another arrival order and batching gives the same report
		perm := rapid.Permutation(pts).Draw(t, "perm")
		tm2 := run(t, pcts, mask, math.MaxUint32, tags, split(t, perm), interval)
		compareReports(t, tm, tm2)

		nt := n >= 2 && (negPct || sampled)
		labels := []string{fmt.Sprintf("n=%s", bucketN(n)), fmt.Sprintf("percentiles=%d", len(pcts))}
		if negPct {
			labels = append(labels, "negative-percentile")
		}
		if sampled {
			labels = append(labels, "sampled")
		}
		if mask != (gostatsd.TimerSubtypes{}) {
			labels = append(labels, "masked")
		}
		if ev.C().WantSample() {
			ev.C().Sample(map[string]interface{}{"values": fmt.Sprint(pts), "percentiles": pcts, "interval": interval.String(), "report": fmt.Sprintf("count=%d persec=%v min=%v max=%v sum=%v mean=%v median=%v stddev=%v pct=%v", tm.Count, tm.PerSecond, tm.Min, tm.Max, tm.Sum, tm.Mean, tm.Median, tm.StdDev, tm.Percentiles)})
		}
		ev.C().Case(fmt.Sprintf("S|%v|%v|%v|%v", pts, pcts, interval, mask), nt, labels...)
	})
}

func bucketN(n int) string {
	switch {
	case n == 0:
		return "0"
	case n == 1:
		return "1"
	case n <= 5:
		return "2-5"
	case n <= 20:
		return "6-20"
	}
	return "21-40"
}

func checkStats(t vt.TB, tm gostatsd.Timer, pts []point, pcts []float64, mask gostatsd.TimerSubtypes, interval time.Duration) {
	n := len(pts)
	vals := make([]float64, n)
	var inv []float64
	for i, p := range pts {
		vals[i] = p.v
		inv = append(inv, 1/p.rate)
	}
	sort.Float64s(vals)
	sampledCount := neumaier(inv)
	secs := float64(interval) / float64(time.Second)
	if n == 0 {
		if tm.Count != 0 || tm.PerSecond != 0 || len(tm.Percentiles) != 0 {
			vt.Fail(t, "C08:empty-timer", "timer without values reports count=%d persec=%v percentiles=%v", tm.Count, tm.PerSecond, tm.Percentiles)
		}
		// nothing of the previous interval (whose single value was 7) may be left in the report of an interval without values
		if tm.Min != 0 || tm.Max != 0 || tm.Sum != 0 || tm.SumSquares != 0 || tm.Mean != 0 || tm.Median != 0 || tm.StdDev != 0 || tm.SampledCount != 0 || len(tm.Values) != 0 {
			vt.Fail(t, "C08:empty-timer", "timer without values in this interval reports min=%v max=%v sum=%v sum_squares=%v mean=%v median=%v std=%v sampled=%v values=%v (the interval before held the single value 7)", tm.Min, tm.Max, tm.Sum, tm.SumSquares, tm.Mean, tm.Median, tm.StdDev, tm.SampledCount, tm.Values)
		}
		return
	}
	// count = round(sum of 1/rate); when the sum is within 1e-9 of a .5 tie either neighbour is accepted
	wantCount := math.Floor(sampledCount + 0.5)
	frac := sampledCount - math.Floor(sampledCount)
	if float64(tm.Count) != wantCount && !(math.Abs(frac-0.5) < 1e-9 && math.Abs(float64(tm.Count)-wantCount) == 1) {
		vt.Fail(t, "C08:count", "count %d want round(%v)=%v", tm.Count, sampledCount, wantCount)
	}
	if !near(tm.PerSecond, sampledCount/secs, sampledCount/secs) {
		vt.Fail(t, "C08:per-second", "per-second %v want %v", tm.PerSecond, sampledCount/secs)
	}
	scale, scale2 := absSum(vals), neumaier(sq(vals))
	if tm.Min != vals[0] || tm.Max != vals[n-1] {
		vt.Fail(t, "C08:min-max", "min/max %v/%v want %v/%v", tm.Min, tm.Max, vals[0], vals[n-1])
	}
	sum := neumaier(vals)
	if !near(tm.Sum, sum, scale) {
		vt.Fail(t, "C08:sum", "sum %v want %v", tm.Sum, sum)
	}
	if !near(tm.SumSquares, scale2, scale2) {
		vt.Fail(t, "C08:sum-squares", "sum of squares %v want %v", tm.SumSquares, scale2)
	}
	mean := sum / float64(n)
	if !near(tm.Mean, mean, scale/float64(n)) {
		vt.Fail(t, "C08:mean", "mean %v want %v", tm.Mean, mean)
	}
	var median float64
	if n%2 == 0 {
		median = (vals[n/2-1] + vals[n/2]) / 2
	} else {
		median = vals[n/2]
	}
	if tm.Median != median {
		vt.Fail(t, "C08:median", "median %v want %v (n=%d)", tm.Median, median, n)
	}
	var devs []float64
	for _, v := range vals {
		devs = append(devs, (v-mean)*(v-mean))
	}
	std := math.Sqrt(neumaier(devs) / float64(n))
	// the deviation is a statistic of the spread: its error budget is 1e-9 of the spread plus what rounding the mean of n
	// values of this magnitude can contribute (a few n*eps*max|v|), not a fraction of the magnitude itself
	maxAbs := math.Max(math.Abs(vals[0]), math.Abs(vals[n-1]))
	stdTol := 1e-9*(vals[n-1]-vals[0]) + 4*float64(n)*2.3e-16*maxAbs
	if d := math.Abs(tm.StdDev - std); !(d <= stdTol) {
		vt.Fail(t, "C08:stddev", "population standard deviation %v want %v (values %v .. %v, n=%d, tolerance %g)", tm.StdDev, std, vals[0], vals[n-1], n, stdTol)
	}
	if tm.Histogram != nil {
		vt.Fail(t, "C08:unexpected-histogram", "timer without histogram tag reports a histogram %v", tm.Histogram)
	}

	got := pctMap(t, tm)
	want := map[string]float64{}
	alt := map[string]float64{} // values for the other neighbour at an exact .5 tie
	seen := map[int]bool{}
	for _, pf := range pcts {
		p := int(pf)
		if seen[p] {
			continue
		}
		seen[p] = true
		ap := p
		if ap < 0 {
			ap = -ap
		}
		ks := []int{(2*ap*n + 100) / 200}
		if n == 1 {
			ks = []int{1}
		} else if (ap*n)%100 == 50 && ap%25 != 0 {
			// an exact .5 tie in rational arithmetic: |p|/100 is not a binary fraction, so its product with n may land just
			// below the half. For 25, 50, 75 and 100 the product is exact and round-half-up is unambiguous.
			ks = append(ks, ks[0]-1)
		}
		for i, k := range ks {
			dst := want
			if i == 1 {
				dst = alt
			}
			if k == 0 {
				dst["omit:"+strconv.Itoa(p)] = 1
				continue
			}
			var sel []float64
			var boundary float64
			if p > 0 {
				sel = vals[:k]
				boundary = vals[k-1]
			} else {
				sel = vals[n-k:]
				boundary = vals[n-k]
			}
			sp := strconv.Itoa(p)
			s := neumaier(sel)
			if !mask.CountPct {
				dst["count_"+sp] = float64(k)
			}
			if !mask.MeanPct {
				dst["mean_"+sp] = s / float64(k)
			}
			if !mask.SumPct {
				dst["sum_"+sp] = s
			}
			if !mask.SumSquaresPct {
				dst["sum_squares_"+sp] = neumaier(sq(sel))
			}
			if p > 0 && !mask.UpperPct {
				dst["upper_"+sp] = boundary
			}
			if p < 0 && !mask.LowerPct {
				dst["lower_"+sp] = boundary
			}
		}
	}
	match := func(ref map[string]float64, sp string) (bool, string) {
		suffix := "_" + sp
		if ref["omit:"+sp] == 1 {
			for k := range got {
				if strings.HasSuffix(k, suffix) {
					return false, fmt.Sprintf("entry %s present although k=0", k)
				}
			}
			return true, ""
		}
		cnt := 0
		for k, w := range ref {
			if !strings.HasSuffix(k, suffix) {
				continue
			}
			cnt++
			g, ok := got[k]
			if !ok {
				return false, "missing entry " + k
			}
			sc := scale
			if strings.HasPrefix(k, "sum_squares_") {
				sc = scale2
			}
			if !near(g, w, sc) {
				return false, fmt.Sprintf("%s = %v want %v", k, g, w)
			}
		}
		for k := range got {
			if strings.HasSuffix(k, suffix) {
				if _, ok := ref[k]; !ok {
					return false, "unexpected entry " + k
				}
			}
		}
		return true, ""
	}
	for p := range seen {
		sp := strconv.Itoa(p)
		ok, why := match(want, sp)
		if !ok {
			hasAlt := false
			for k := range alt {
				if strings.HasSuffix(k, "_"+sp) || k == "omit:"+sp {
					hasAlt = true
				}
			}
			if hasAlt {
				if ok2, _ := match(alt, sp); ok2 {
					continue
				}
			}
			vt.Fail(t, "C08:percentile", "percentile %d over %d values %v: %s (reported %v)", p, n, vals, why, tm.Percentiles)
		}
	}
	// nothing but entries of configured percentiles
	for k := range got {
		i := strings.LastIndexByte(k, '_')
		p, err := strconv.Atoi(k[i+1:])
		if i < 0 || err != nil || !seen[p] {
			vt.Fail(t, "C08:percentile", "entry %q does not belong to a configured percentile %v", k, pcts)
		}
	}
}

func compareReports(t vt.TB, a, b gostatsd.Timer) {
	pa, pb := pctMap(t, a), pctMap(t, b)
	same := a.Min == b.Min && a.Max == b.Max && a.Sum == b.Sum && a.SumSquares == b.SumSquares && a.Mean == b.Mean && a.Median == b.Median && a.StdDev == b.StdDev && len(pa) == len(pb)
	for k, v := range pa {
		if w, ok := pb[k]; !ok || v != w {
			same = false
		}
	}
	if d := a.Count - b.Count; d > 1 || d < -1 {
		same = false
	}
	if !near(a.PerSecond, b.PerSecond, math.Abs(a.PerSecond)) {
		same = false
	}
	if !same {
		vt.Fail(t, "C08:arrival-order-dependent", "report depends on arrival order / batching: %+v vs %+v", a, b)
	}
}

// ---------- histograms ----------

var histItems = []string{"1", "2.5", "5", "10", "-10", "0", "25", "50", "1e3", "incorrect", "", "+Inf", "inf", "1", "5", "0x10", "1_", "٣", "0.7", "0.1", "16777216", "16777217", "123456789.123", "1e-7"}

func TestHistograms(t *testing.T) {
	rapid.Check(t, func(t *rapid.T) {
		items := rapid.SliceOfN(rapid.SampledFrom(histItems), 0, 8).Draw(t, "buckets")
		tag := "gsd_histogram:" + strings.Join(items, "_")
		limit := rapid.SampledFrom([]uint32{0, 1, 2, 3, 5, 100, math.MaxUint32}).Draw(t, "limit")
		n := rapid.IntRange(0, 15).Draw(t, "n")
		pts := make([]point, n)
		for i := range pts {
			pts[i] = point{v: rapid.OneOf(rapid.SampledFrom([]float64{1, 2.5, 5, 10, -10, 0, 25, 50, 1000, math.Inf(1), math.Inf(-1), 0.7, 0.1, 16777216, 16777217, 123456789.123, 0.69999999}), valueGen()).Draw(t, "v"), rate: rapid.SampledFrom([]float64{1, 0.5}).Draw(t, "rate")}
		}
		otherTags := rapid.SampledFrom([][]string{nil, {"a:b"}, {"z"}}).Draw(t, "othertags")
		tags := gostatsd.Tags(append(append([]string{}, otherTags...), tag))
		// another histogram timer of the same name with other bounds, received before or after: each series has its own buckets
		siblingMode = rapid.IntRange(0, 2).Draw(t, "sibling-series")
		siblingHist = rapid.SampledFrom([]string{"", "gsd_histogram:0.001_7777", "gsd_histogram:3_4_6_7_8_9_11_12_13_14"}).Draw(t, "sibling-buckets")
		defer func() { siblingMode, siblingHist = 0, "" }()
		pcts := []float64{90, -50}
		tm := run(t, pcts, gostatsd.TimerSubtypes{}, limit, tags, split(t, pts), time.Second)

		// parsed bounds in order
		var parsed []float64
		for _, it := range strings.Split(strings.Join(items, "_"), "_") {
			if f, err := strconv.ParseFloat(it, 64); err == nil {
				parsed = append(parsed, f)
			}
		}
		if tm.Count != 0 || tm.Min != 0 || tm.Max != 0 || tm.Sum != 0 || tm.SumSquares != 0 || tm.Mean != 0 || tm.Median != 0 || tm.StdDev != 0 || tm.PerSecond != 0 || len(tm.Percentiles) != 0 {
			vt.Fail(t, "C08:histogram-with-summary", "histogram timer also reports summary statistics: %+v", tm)
		}
		if limit == 0 {
			if len(tm.Histogram) != 0 {
				vt.Fail(t, "C08:histogram-limit-zero", "limit 0 but histogram %v reported", tm.Histogram)
			}
		} else {
			inf := gostatsd.HistogramThreshold(math.Inf(1))
			if _, ok := tm.Histogram[inf]; !ok {
				vt.Fail(t, "C08:histogram-no-inf", "histogram %v lacks the +Inf bucket (tag %q limit %d)", tm.Histogram, tag, limit)
			}
			parsedSet := map[float64]bool{}
			for _, p := range parsed {
				parsedSet[p] = true
			}
			finite := 0
			for b, c := range tm.Histogram {
				if b != inf {
					finite++
					if !parsedSet[float64(b)] {
						vt.Fail(t, "C08:histogram-invented-bucket", "bucket %v is not in tag %q", b, tag)
					}
				}
				want := 0
				for _, p := range pts {
					if p.v <= float64(b) {
						want++
					}
				}
				if c != want {
					vt.Fail(t, "C08:histogram-count", "bucket le:%v = %d want %d (values %v)", b, c, want, pts)
				}
			}
			if uint32(finite) > limit {
				vt.Fail(t, "C08:histogram-over-limit", "%d finite buckets with limit %d", finite, limit)
			}
			// when the listed bounds are pairwise distinct the limit is the only reason to omit one: exactly
			// min(limit, number of valid bounds) finite buckets (which ones survive is not stated and not asserted)
			if len(parsedSet) == len(parsed) {
				wantN := len(parsed)
				if uint32(wantN) > limit {
					wantN = int(limit)
				}
				infListed := 0
				if parsedSet[math.Inf(1)] {
					infListed = 1 // a listed +Inf coincides with the implicit +Inf bucket
				}
				if finite < wantN-infListed || finite > wantN {
					vt.Fail(t, "C08:histogram-bucket-count", "tag %q with limit %d: %d finite buckets reported, %d valid distinct bounds listed (%v)", tag, limit, finite, len(parsed), tm.Histogram)
				}
			}
			if uint32(len(parsed)) <= limit {
				for p := range parsedSet {
					if _, ok := tm.Histogram[gostatsd.HistogramThreshold(p)]; !ok {
						vt.Fail(t, "C08:histogram-missing-bucket", "bucket %v of tag %q missing with limit %d: %v", p, tag, limit, tm.Histogram)
					}
				}
			}
		}
		nt := limit < uint32(len(parsed)) && n > 0
		labels := []string{"histogram", fmt.Sprintf("hist-limit=%d", limit)}
		if len(parsed) < len(items) {
			labels = append(labels, "hist-malformed-item")
		}
		if ev.C().WantSample() {
			ev.C().Sample(map[string]interface{}{"tag": tag, "limit": limit, "values": fmt.Sprint(pts), "histogram": fmt.Sprint(tm.Histogram)})
		}
		ev.C().Case(fmt.Sprintf("H|%s|%d|%v", tag, limit, pts), nt, labels...)
	})
}

var _ = gen.Names
