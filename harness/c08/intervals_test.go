package c08

import (
	"fmt"
	"math"
	"testing"
	"time"

	"github.com/atlassian/gostatsd"
	"github.com/atlassian/gostatsd/pkg/statsd"
	"pgregory.net/rapid"

	"verifharness/internal/ev"
	"verifharness/internal/gen"
	"verifharness/internal/vt"
)

// TestTimerIntervalsIndependent: one aggregator, one timer series, 2..8 flush intervals in a row (some of them without
// data). What each flush reports is a function of the values and sample rates received in *that* interval: count =
// round(sum of 1/rate), per-second = sum of 1/rate over the interval length, min / max / sum of the interval's values,
// zeros for an interval without data - whatever the intervals before it carried.
func TestTimerIntervalsIndependent(t *testing.T) {
	rapid.Check(t, func(t *rapid.T) {
		agg := statsd.NewMetricAggregator([]float64{90}, 0, 0, 0, time.Hour, gostatsd.TimerSubtypes{}, math.MaxUint32)
		now := time.Unix(1_700_000_000, 0)
		agg.VerifSetNow(func() time.Time { return now })
		intervals := rapid.IntRange(2, 8).Draw(t, "intervals")
		var history []string
		sampledIntervals := 0
		for i := 0; i < intervals; i++ {
			n := rapid.SampledFrom([]int{0, 1, 1, 2, 3, 5}).Draw(t, "values")
			var pts []*gostatsd.Metric
			sum, minV, maxV, sampled := 0.0, math.Inf(1), math.Inf(-1), 0.0
			fractional := false
			for j := 0; j < n; j++ {
				v := float64(rapid.IntRange(1, 100).Draw(t, "v"))
				r := rapid.SampledFrom([]float64{1, 0.5, 0.3, 0.7, 0.9, 0.1, 0.25}).Draw(t, "rate")
				pts = append(pts, &gostatsd.Metric{Name: "t", Type: gostatsd.TIMER, Value: v, Rate: r, Tags: gostatsd.Tags{"k:v"}, Timestamp: gostatsd.Nanotime(now.UnixNano())})
				sum += v
				minV, maxV = math.Min(minV, v), math.Max(maxV, v)
				sampled += 1 / r
			}
			if sampled != math.Floor(sampled) {
				fractional = true
			}
			if len(pts) > 0 {
				agg.ReceiveMap(gen.MapFromMetrics(pts))
			}
			agg.Flush(10 * time.Second)
			var got *gostatsd.Timer
			agg.Process(func(mm *gostatsd.MetricMap) {
				mm.Timers.Each(func(_, _ string, tm gostatsd.Timer) {
					c := tm
					got = &c
				})
			})
			agg.Reset()
			now = now.Add(10 * time.Second)
			history = append(history, fmt.Sprintf("interval %d: %d values, sum of 1/rate %v", i, n, sampled))
			if got == nil {
				if n == 0 && i == 0 {
					continue // the series does not exist yet
				}
				if seen := anyData(history); seen {
					vt.Fail(t, "C08:empty-timer", "interval %d: the series is not reported (expiry 1h); %v", i, history)
				}
				continue
			}
			if n == 0 {
				if got.Count != 0 || got.PerSecond != 0 || got.Min != 0 || got.Max != 0 || got.Sum != 0 || len(got.Percentiles) != 0 {
					vt.Fail(t, "C08:empty-timer", "interval %d carried no value but reports count %d per-second %v min %v max %v sum %v percentiles %d; %v", i, got.Count, got.PerSecond, got.Min, got.Max, got.Sum, len(got.Percentiles), history)
				}
				continue
			}
			lo, hi := int(math.Floor(sampled+0.5-1e-9)), int(math.Floor(sampled+0.5+1e-9))
			if got.Count != lo && got.Count != hi {
				vt.Fail(t, "C08:count", "interval %d: count %d, the interval's sum of 1/rate is %v (want %d); %v", i, got.Count, sampled, hi, history)
			}
			if !near(got.PerSecond, sampled/10, math.Abs(sampled/10)) {
				vt.Fail(t, "C08:per-second", "interval %d: per-second %v, want %v; %v", i, got.PerSecond, sampled/10, history)
			}
			if got.Min != minV || got.Max != maxV || !near(got.Sum, sum, math.Abs(sum)) {
				vt.Fail(t, "C08:basic-stats", "interval %d: min/max/sum %v/%v/%v, the interval's values give %v/%v/%v; %v", i, got.Min, got.Max, got.Sum, minV, maxV, sum, history)
			}
			if fractional {
				sampledIntervals++
			}
		}
		ev.C().Case(fmt.Sprintf("I|%v", history), sampledIntervals >= 2, "intervals", fmt.Sprintf("intervals=%d", intervals))
		if ev.C().WantSample() {
			ev.C().Sample(map[string]interface{}{"intervals": history})
		}
	})
}

func anyData(history []string) bool {
	for _, h := range history[:len(history)-1] {
		if len(h) > 0 && !contains0(h) {
			return true
		}
	}
	return false
}

func contains0(h string) bool {
	// "interval i: 0 values, ..."
	for i := 0; i+9 < len(h); i++ {
		if h[i:i+10] == ": 0 values" {
			return true
		}
	}
	return false
}
