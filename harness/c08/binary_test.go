package c08

import (
	"fmt"
	"sort"
	"strconv"
	"strings"
	"testing"
	"time"

	"pgregory.net/rapid"

	"verifharness/internal/ev"
	"verifharness/internal/rig"
	"verifharness/internal/vt"
)

// TestBinaryPercentThresholds runs the gostatsd command itself with a generated --percent-threshold list (as a flag, in
// the configuration file or in the environment) and the stdout backend, sends one timer series with n integer values
// in one datagram, and reads the percentile sub-metrics of the flush that carries them: for every configured p the
// entries count_p / mean_p / sum_p / sum_squares_p and upper_p (p>0) or lower_p (p<0) over the k = round(|p|/100*n)
// lowest / highest values, and no entry for any other number. The command line is how the list reaches the aggregators.
func TestBinaryPercentThresholds(t *testing.T) {
	if rig.BinaryPath() == "" {
		t.Skip("GOSTATSD_BIN not set (the driver builds it)")
	}
	rapid.Check(t, func(t *rapid.T) {
		pcts := rapid.SliceOfNDistinct(rapid.SampledFrom([]int{1, -1, 2, 10, 25, 50, -50, 75, 90, -90, 99, 100, -100}), 1, 4, rapid.ID[int]).Draw(t, "percent-threshold")
		var ps []string
		for _, p := range pcts {
			ps = append(ps, strconv.Itoa(p))
		}
		list := strings.Join(ps, " ")
		args := []string{"--flush-interval", "100ms", "--max-readers", "1", "--max-workers", "1", "--max-parsers", "1"}
		env := []string{}
		switch rapid.SampledFrom([]string{"flag", "flag", "env"}).Draw(t, "where") {
		case "flag":
			args = append(args, "--percent-threshold", list)
		default:
			env = append(env, "GSD_PERCENT_THRESHOLD="+list)
		}
		b, err := rig.StartBinaryEnv(args, env, 0)
		if err != nil {
			t.Skip("cannot start: " + err.Error())
		}
		defer b.Stop()
		if !b.AwaitLine("warmup:1|c", "warmup", 30*time.Second) {
			if b.Exited() && !b.BindFailed() {
				vt.Fail(t, "C08:flush-panic", "%s exited on its first flush; output: %s", b.Describe(), b.Tail(30))
			}
			ev.C().Excluded("binary-not-serving", 1)
			t.Skip("gostatsd did not serve")
		}
		n := rapid.SampledFrom([]int{1, 2, 3, 5, 10, 40, 100, 200}).Draw(t, "values")
		vals := make([]float64, n)
		var lines []string
		for i := range vals {
			vals[i] = float64(rapid.IntRange(-50, 1000).Draw(t, "v"))
			lines = append(lines, fmt.Sprintf("bt:%d|ms", int(vals[i])))
		}
		b.Send(strings.Join(lines, "\n"))
		sub := func(name string) string { return name[strings.LastIndexByte(name, '.')+1:] }
		ok := b.WaitFor(30*time.Second, func([]string) bool {
			for _, st := range b.Stats() {
				if strings.HasPrefix(st.Name, "stats.timers.bt.") && sub(st.Name) == "count" && st.Value == strconv.Itoa(n) {
					return true
				}
			}
			return false
		})
		if !ok {
			if b.Exited() {
				vt.Fail(t, "C08:flush-panic", "%s exited while flushing a timer of %d values %v; output: %s", b.Describe(), n, vals, b.Tail(40))
			}
			ev.C().Excluded("datagram-lost-on-loopback", 1)
			t.Skip("the timer's datagram did not arrive")
		}
		time.Sleep(50 * time.Millisecond) // the rest of that flush's lines
		got := map[string]float64{}
		for _, st := range b.Stats() {
			if !strings.HasPrefix(st.Name, "stats.timers.bt.") {
				continue
			}
			sb := sub(st.Name)
			if i := strings.LastIndexByte(sb, '_'); i > 0 {
				if _, err := strconv.Atoi(sb[i+1:]); err == nil {
					v, _ := strconv.ParseFloat(st.Value, 64)
					got[sb] = v
				}
			}
		}
		sorted := append([]float64(nil), vals...)
		sort.Float64s(sorted)
		describe := func() string {
			var ks []string
			for k, v := range got {
				ks = append(ks, fmt.Sprintf("%s=%v", k, v))
			}
			sort.Strings(ks)
			return strings.Join(ks, " ")
		}
		used := map[string]bool{}
		for _, p := range pcts {
			ap := p
			if ap < 0 {
				ap = -ap
			}
			ks := []int{(2*ap*n + 100) / 200}
			if n == 1 {
				ks = []int{1}
			} else if (ap*n)%100 == 50 && ap%25 != 0 {
				ks = append(ks, ks[0]-1)
			}
			sp := strconv.Itoa(p)
			matched := false
			var why string
			for _, k := range ks {
				want := map[string]float64{}
				if k > 0 {
					sel := sorted[:k]
					bound, bname := sorted[k-1], "upper_"
					if p < 0 {
						sel, bound, bname = sorted[n-k:], sorted[n-k], "lower_"
					}
					sum, sq := 0.0, 0.0
					for _, v := range sel {
						sum += v
						sq += v * v
					}
					want["count_"+sp], want["sum_"+sp], want["sum_squares_"+sp], want["mean_"+sp], want[bname+sp] = float64(k), sum, sq, sum/float64(k), bound
				}
				good := true
				for name, w := range want {
					g, ok := got[name]
					if !ok || g < w-1e-4*(1+abs(w)) || g > w+1e-4*(1+abs(w)) {
						good = false
						why = fmt.Sprintf("%s = %v (present=%v) want %v", name, g, ok, w)
					}
				}
				for name := range got {
					if strings.HasSuffix(name, "_"+sp) {
						if _, ok := want[name]; !ok {
							good = false
							why = "unexpected entry " + name
						}
					}
				}
				if good {
					matched = true
					for name := range want {
						used[name] = true
					}
					break
				}
			}
			if !matched {
				vt.Fail(t, "C08:percentile", "%s, timer of %d values %v: percentile %d: %s; reported: %s", b.Describe(), n, sorted, p, why, describe())
			}
		}
		for name := range got {
			if !used[name] {
				vt.Fail(t, "C08:percentile", "%s, timer of %d values: entry %s does not belong to a configured percentile %v; reported: %s", b.Describe(), n, name, pcts, describe())
			}
		}
		ev.C().Case(fmt.Sprintf("B|%s|%d", list, n), n >= 2, "binary-percent-threshold")
		if ev.C().WantSample() {
			ev.C().Sample(map[string]interface{}{"command": b.Describe(), "values": n, "reported": describe()})
		}
	})
}

func abs(x float64) float64 {
	if x < 0 {
		return -x
	}
	return x
}
