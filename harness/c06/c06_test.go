package c06

import (
	"context"
	"fmt"
	"sort"
	"strings"
	"sync"
	"testing"
	"time"

	"github.com/atlassian/gostatsd"
	"github.com/atlassian/gostatsd/pkg/statsd"
	"pgregory.net/rapid"

	"verifharness/internal/ev"
	"verifharness/internal/gen"
	"verifharness/internal/model"
	"verifharness/internal/vt"
)

func TestMain(m *testing.M) {
	ev.C().Rule("rapid: metric maps over small name/tag/source pools incl. empty strings and near-collisions x shard counts 1..16 x second batch sharing series; non-trivial = shard count >= 2 and >= 2 series of one name landing in different shards")
	vt.Main(m)
}

// arbitrary-ish strings for identity fields, incl. empty and near-collisions
var idStrings = []string{"", "a", "b", "ab", "bc", "c", "abc", "a.b", "a,b", "s:1", ":", "\xff", "k:v", " "}

func metricGen(ts *rapid.Generator[int64]) *rapid.Generator[*gostatsd.Metric] {
	return rapid.Custom(func(t *rapid.T) *gostatsd.Metric {
		m := gen.Datapoint(ts).Draw(t, "dp")
		if rapid.IntRange(0, 3).Draw(t, "odd") == 0 {
			m.Name = rapid.SampledFrom(idStrings).Draw(t, "oddname")
		}
		if rapid.IntRange(0, 3).Draw(t, "oddsrc") == 0 {
			m.Source = gostatsd.Source(rapid.SampledFrom(idStrings).Draw(t, "oddsource"))
		}
		if rapid.IntRange(0, 7).Draw(t, "long") == 0 {
			// names and tag lists longer than any small fixed buffer (129, 200, 600 bytes)
			n := rapid.SampledFrom([]int{129, 200, 600}).Draw(t, "longlen")
			if rapid.Bool().Draw(t, "long-name") {
				m.Name = strings.Repeat(rapid.SampledFrom([]string{"n", "service.requests.", "ab"}).Draw(t, "unit"), n)[:n]
			} else {
				m.Tags = gostatsd.Tags{"k:" + strings.Repeat(rapid.SampledFrom([]string{"v", "xy", "tag-"}).Draw(t, "unit"), n)[:n], "env:prod"}
			}
		}
		if rapid.IntRange(0, 3).Draw(t, "oddtags") == 0 {
			// tags without ',' and not starting with "s:" (those make two identities render to the same map key; excluded)
			m.Tags = gostatsd.Tags(rapid.SliceOfN(rapid.SampledFrom([]string{"a", "b", "ab", "bc", "c", ":", "k:v", "\xff", " "}), 0, 3).Draw(t, "oddtaglist"))
		}
		return m
	})
}

// implementation-level identity: (type, name, map key). The map key is the rendering of (tags, source).
type implKey struct {
	typ  gostatsd.MetricType
	name string
	key  string
}

type entry struct {
	desc string
}

func flatten(mm *gostatsd.MetricMap) map[implKey]string {
	out := map[implKey]string{}
	mm.Counters.Each(func(n, k string, c gostatsd.Counter) {
		out[implKey{gostatsd.COUNTER, n, k}] = fmt.Sprintf("%d|%v|%d|%q|%q", c.Value, c.PerSecond, c.Timestamp, c.Source, []string(c.Tags))
	})
	mm.Gauges.Each(func(n, k string, c gostatsd.Gauge) {
		out[implKey{gostatsd.GAUGE, n, k}] = fmt.Sprintf("%v|%d|%q|%q", c.Value, c.Timestamp, c.Source, []string(c.Tags))
	})
	mm.Timers.Each(func(n, k string, c gostatsd.Timer) {
		out[implKey{gostatsd.TIMER, n, k}] = fmt.Sprintf("%v|%v|%d|%q|%q", c.Values, c.SampledCount, c.Timestamp, c.Source, []string(c.Tags))
	})
	mm.Sets.Each(func(n, k string, c gostatsd.Set) {
		ms := make([]string, 0, len(c.Values))
		for m := range c.Values {
			ms = append(ms, m)
		}
		sort.Strings(ms)
		out[implKey{gostatsd.SET, n, k}] = fmt.Sprintf("%q|%d|%q|%q", ms, c.Timestamp, c.Source, []string(c.Tags))
	})
	return out
}

// identity of a series independent of the rendering
func identOf(mm *gostatsd.MetricMap) map[implKey]model.Key {
	out := map[implKey]model.Key{}
	mm.Counters.Each(func(n, k string, c gostatsd.Counter) {
		out[implKey{gostatsd.COUNTER, n, k}] = model.MakeKey(gostatsd.COUNTER, n, c.Tags, string(c.Source))
	})
	mm.Gauges.Each(func(n, k string, c gostatsd.Gauge) {
		out[implKey{gostatsd.GAUGE, n, k}] = model.MakeKey(gostatsd.GAUGE, n, c.Tags, string(c.Source))
	})
	mm.Timers.Each(func(n, k string, c gostatsd.Timer) {
		out[implKey{gostatsd.TIMER, n, k}] = model.MakeKey(gostatsd.TIMER, n, c.Tags, string(c.Source))
	})
	mm.Sets.Each(func(n, k string, c gostatsd.Set) {
		out[implKey{gostatsd.SET, n, k}] = model.MakeKey(gostatsd.SET, n, c.Tags, string(c.Source))
	})
	return out
}

// splitIndex returns, per series identity, the index of the part that holds it; fails on any partition defect.
func splitIndex(t vt.TB, mm *gostatsd.MetricMap, n int) map[model.Key]int {
	before := flatten(mm)
	idents := identOf(mm)
	var parts []*gostatsd.MetricMap
	func() {
		defer func() {
			if p := recover(); p != nil {
				vt.Fail(t, "C06:split-panic", "Split(%d) panicked: %v (map %s)", n, p, gen.DescribeMap(mm))
			}
		}()
		parts = mm.Split(n)
	}()
	if len(parts) != n {
		vt.Fail(t, "C06:part-count", "Split(%d) returned %d parts", n, len(parts))
	}
	where := map[implKey]int{}
	for i, p := range parts {
		if p == nil {
			vt.Fail(t, "C06:nil-part", "Split(%d) part %d is nil", n, i)
		}
		if p.Forwarded != mm.Forwarded {
			vt.Fail(t, "C06:forwarded-flag", "part %d Forwarded=%v want %v", i, p.Forwarded, mm.Forwarded)
		}
		for k, v := range flatten(p) {
			if j, dup := where[k]; dup {
				vt.Fail(t, "C06:series-in-two-parts", "series %v in parts %d and %d (n=%d)", k, j, i, n)
			}
			where[k] = i
			want, ok := before[k]
			if !ok {
				vt.Fail(t, "C06:invented-series", "part %d holds %v which is not in the batch", i, k)
			}
			if want != v {
				vt.Fail(t, "C06:content-changed", "series %v: part holds %s, batch had %s", k, v, want)
			}
		}
	}
	for k := range before {
		if _, ok := where[k]; !ok {
			vt.Fail(t, "C06:series-lost", "series %v of the batch is in no part (n=%d)", k, n)
		}
	}
	// the batch itself is not modified by Split
	after := flatten(mm)
	if len(after) != len(before) {
		vt.Fail(t, "C06:input-modified", "Split changed the input batch")
	}
	for k, v := range before {
		if after[k] != v {
			vt.Fail(t, "C06:input-modified", "Split changed the input batch at %v", k)
		}
	}
	out := map[model.Key]int{}
	for k, i := range where {
		out[idents[k]] = i
	}
	return out
}

// reorderTags permutes the Tags slice of every series in place (the map keys are untouched).
func reorderTags(t *rapid.T, mm *gostatsd.MetricMap) {
	shuffle := func(tags gostatsd.Tags) gostatsd.Tags {
		if len(tags) < 2 {
			return tags
		}
		return gostatsd.Tags(rapid.Permutation([]string(tags)).Draw(t, "tag-order"))
	}
	for _, m := range mm.Counters {
		for k, v := range m {
			v.Tags = shuffle(v.Tags)
			m[k] = v
		}
	}
	for _, m := range mm.Gauges {
		for k, v := range m {
			v.Tags = shuffle(v.Tags)
			m[k] = v
		}
	}
	for _, m := range mm.Timers {
		for k, v := range m {
			v.Tags = shuffle(v.Tags)
			m[k] = v
		}
	}
	for _, m := range mm.Sets {
		for k, v := range m {
			v.Tags = shuffle(v.Tags)
			m[k] = v
		}
	}
}

func TestSplitPartition(t *testing.T) {
	rapid.Check(t, func(t *rapid.T) {
		ts := rapid.Int64Range(1, 5)
		ms := rapid.SliceOfN(metricGen(ts), 0, 24).Draw(t, "batch")
		n := rapid.IntRange(1, 16).Draw(t, "shards")
		mm := gen.MapFromMetrics(ms)
		mm.Forwarded = rapid.Bool().Draw(t, "forwarded")
		idx := splitIndex(t, mm, n)

		// determinism by identity only: another insertion order, other values/timestamps, a different batch.
		perm := rapid.Permutation(ms).Draw(t, "perm")
		mm2 := gen.MapFromMetrics(perm)
		// the order of the tags stored with a series is not part of its identity (maps decoded from the HTTP
		// ingestion endpoint carry the tags in whatever order the sender used)
		reorderTags(t, mm2)
		idx2 := splitIndex(t, mm2, n)
		for k, i := range idx {
			if j, ok := idx2[k]; !ok || i != j {
				vt.Fail(t, "C06:order-dependent", "series %v: part %d, after re-inserting in another order part %d (present=%v)", k, i, j, ok)
			}
		}
		var changed []*gostatsd.Metric
		for _, m := range ms {
			c := gen.CopyMetric(m)
			c.Value = c.Value*3 + 1
			c.Timestamp += gostatsd.Nanotime(rapid.Int64Range(0, 1000).Draw(t, "dts"))
			if c.Type == gostatsd.SET {
				c.StringValue += "x"
			}
			changed = append(changed, c)
		}
		extra := rapid.SliceOfN(metricGen(ts), 0, 8).Draw(t, "extra")
		idx3 := splitIndex(t, gen.MapFromMetrics(append(changed, extra...)), n)
		for k, i := range idx {
			if j, ok := idx3[k]; !ok || i != j {
				vt.Fail(t, "C06:value-dependent", "series %v: part %d, in another batch with other values part %d (present=%v)", k, i, j, ok)
			}
		}

		// non-trivial: n>=2 and a name whose series land in >= 2 parts
		byName := map[string]map[int]struct{}{}
		for k, i := range idx {
			if byName[k.Name] == nil {
				byName[k.Name] = map[int]struct{}{}
			}
			byName[k.Name][i] = struct{}{}
		}
		nt := false
		for _, s := range byName {
			if len(s) >= 2 {
				nt = true
			}
		}
		labels := []string{fmt.Sprintf("shards=%d", n)}
		if len(idx) == 0 {
			labels = append(labels, "empty-batch")
		}
		if nt {
			labels = append(labels, "name-spread-over-parts")
		}
		canon := fmt.Sprintf("%d|%s", n, strings.Join(gen.DescribeMetrics(ms), ";"))
		if ev.C().WantSample() {
			ev.C().Sample(map[string]interface{}{"shards": n, "batch": gen.DescribeMetrics(ms), "series_to_part": fmt.Sprint(idx)})
		}
		ev.C().Case(canon, nt && n >= 2, labels...)
	})
}

// --- through the BackendHandler: the aggregator that receives a series has id == part index ---

type recAgg struct {
	mu   sync.Mutex
	id   int
	maps []*gostatsd.MetricMap
}

func (a *recAgg) ReceiveMap(mm *gostatsd.MetricMap) {
	a.mu.Lock()
	a.maps = append(a.maps, mm)
	a.mu.Unlock()
}
func (a *recAgg) Flush(time.Duration)        {}
func (a *recAgg) Process(statsd.ProcessFunc) {}
func (a *recAgg) Reset()                     {}

func TestDispatchRoutesByPartIndex(t *testing.T) {
	rapid.Check(t, func(t *rapid.T) {
		ts := rapid.Int64Range(1, 5)
		n := rapid.IntRange(1, 8).Draw(t, "shards")
		q := rapid.IntRange(0, 3).Draw(t, "queue")
		batches := rapid.SliceOfN(rapid.SliceOfN(metricGen(ts), 0, 12), 1, 4).Draw(t, "batches")
		var aggs []*recAgg
		bh := statsd.NewBackendHandler(nil, 1, n, q, statsd.AggregatorFactoryFunc(func() statsd.Aggregator {
			a := &recAgg{id: len(aggs)}
			aggs = append(aggs, a)
			return a
		}))
		// optionally the tag stage sits in front (as in every server): it removes repeated tags and adds the static ones, so a
		// datapoint that arrives with a repeated tag belongs to the series without the repeat - and to that series' worker
		var front gostatsd.PipelineHandler = bh
		var static gostatsd.Tags
		stage := rapid.SampledFrom([]string{"none", "none", "plain", "static"}).Draw(t, "tag-stage")
		if stage == "static" {
			static = gostatsd.Tags{"st:1"}
		}
		if stage != "none" {
			front = statsd.NewTagHandler(bh, static.Copy(), nil)
			for bi, b := range batches {
				for _, m := range b {
					if len(m.Tags) > 0 && m.Type != gostatsd.GAUGE && rapid.Bool().Draw(t, "repeated-tag-twin") {
						tw := gen.CopyMetric(m)
						tw.Tags = append(tw.Tags, tw.Tags[0])
						batches[bi] = append(batches[bi], tw)
					}
				}
			}
		}
		afterStage := func(b []*gostatsd.Metric) *gostatsd.MetricMap {
			if stage == "none" {
				return gen.MapFromMetrics(b)
			}
			var out []*gostatsd.Metric
			for _, m := range b {
				c := gen.CopyMetric(m)
				seen := map[string]bool{}
				var tags gostatsd.Tags
				for _, tg := range append(c.Tags.Copy(), static...) {
					if !seen[tg] {
						seen[tg] = true
						tags = append(tags, tg)
					}
				}
				c.Tags = tags
				out = append(out, c)
			}
			return gen.MapFromMetrics(out)
		}
		ctx, cancel := context.WithCancel(context.Background())
		// optionally a dispatch that is abandoned first: its context is already done and the workers are not running yet,
		// so nothing can be queued beyond the buffers. Whatever of it is not delivered must be gone, not resurface later.
		abandoned := model.Agg{}
		if rapid.IntRange(0, 2).Draw(t, "abandoned-dispatch-first") == 0 {
			dead, kill := context.WithCancel(context.Background())
			kill()
			pre := gen.MapFromMetrics(rapid.SliceOfN(metricGen(ts), 1, 12).Draw(t, "abandoned-batch"))
			abandoned.AddMap(gen.CopyMap(pre))
			bh.DispatchMetricMap(dead, pre)
		}
		done := make(chan struct{})
		go func() { bh.Run(ctx); close(done) }()
		want := map[model.Key]int{}
		total := model.Agg{}
		for _, b := range batches {
			mm := gen.MapFromMetrics(b)
			exp := afterStage(b)
			for k, i := range splitIndex(t, gen.CopyMap(exp), n) {
				if j, ok := want[k]; ok && j != i {
					vt.Fail(t, "C06:value-dependent", "series %v changes part between batches: %d then %d", k, j, i)
				}
				want[k] = i
			}
			if stage == "none" {
				total.AddMap(exp)
			} else {
				// the stage merges map entries (not datapoints): fold the entries of the dispatched map under their new identity
				for k, sr := range model.FromMap(gen.CopyMap(mm)) {
					var tags []string
					if k.Tags != "" {
						tags = strings.Split(k.Tags, "\x1f")
					}
					seen := map[string]bool{}
					var nt []string
					for _, tg := range append(tags, static...) {
						if !seen[tg] {
							seen[tg] = true
							nt = append(nt, tg)
						}
					}
					total.Merge(model.Agg{model.MakeKey(k.Type, k.Name, nt, k.Source): sr})
				}
			}
			front.DispatchMetricMap(ctx, mm)
		}
		// which worker ran which aggregator: ask through Process (runs f(workerId, aggr) in the worker goroutine)
		ids := map[int]int{}
		var mu sync.Mutex
		wait := bh.Process(ctx, func(id int, a statsd.Aggregator) {
			mu.Lock()
			ids[a.(*recAgg).id] = id
			mu.Unlock()
		})
		wait()
		cancel()
		<-done // workers drained their queues
		got := model.Agg{}
		seenOn := map[model.Key]int{}
		for _, a := range aggs {
			wid, ok := ids[a.id]
			if !ok {
				vt.Fail(t, "C06:process-skipped-worker", "Process did not run on aggregator %d", a.id)
			}
			for _, mm := range a.maps {
				for _, k := range identOf(mm) {
					if _, live := want[k]; !live {
						for k2, i := range splitIndex(t, gen.CopyMap(mm), n) {
							if _, ok := want[k2]; !ok {
								want[k2] = i
							}
						}
					}
					if w0, dup := seenOn[k]; dup && w0 != wid {
						vt.Fail(t, "C06:series-on-two-workers", "series %v was received by workers %d and %d (tag stage %s)", k, w0, wid, stage)
					}
					seenOn[k] = wid
					if want[k] != wid {
						vt.Fail(t, "C06:dispatch-wrong-worker", "series %v received by worker %d, Split assigns part %d of %d", k, wid, want[k], n)
					}
				}
				got.AddMap(mm)
			}
		}
		if len(abandoned) == 0 {
			if d := model.Diff(got, total, model.Opts{}); d != "" {
				vt.Fail(t, "C06:dispatch-not-conserving", "aggregators together received something else than was dispatched: %s", d)
			}
		} else {
			// parts of the abandoned batch may have been queued (buffered queues) before the dead context won: what arrived is
			// between "the live batches" and "the live batches plus the abandoned one", and every series sits on its own worker
			upper := model.Agg{}
			upper.Merge(total)
			upper.Merge(abandoned)
			for k := range got {
				if _, ok := upper[k]; !ok {
					vt.Fail(t, "C06:dispatch-not-conserving", "aggregators received series %v that was never dispatched", k)
				}
			}
			for k := range total {
				if _, ok := got[k]; !ok {
					vt.Fail(t, "C06:dispatch-not-conserving", "series %v of a live batch reached no aggregator after an abandoned dispatch", k)
				}
			}
		}
		ev.C().Case(fmt.Sprintf("D|%d|%d|%v", n, q, total.Canon()), n >= 2 && len(total) >= 2, fmt.Sprintf("dispatch-shards=%d", n), fmt.Sprintf("dispatch-queue=%d", q))
	})
}
