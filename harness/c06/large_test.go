package c06

import (
	"fmt"
	"testing"

	"github.com/atlassian/gostatsd"
	"pgregory.net/rapid"

	"verifharness/internal/ev"
	"verifharness/internal/gen"
	"verifharness/internal/vt"
)

// TestSplitLargeBatch: the partition property for batches of a size a busy server sees in one flush of a consolidated
// map (hundreds to tens of thousands of names), where an implementation may take another path than for a handful of
// series. Same oracle as TestSplitPartition (splitIndex), plus determinism against a second batch holding every other
// name.
func TestSplitLargeBatch(t *testing.T) {
	rapid.Check(t, func(t *rapid.T) {
		names := rapid.SampledFrom([]int{100, 1000, 4095, 4096, 4097, 6000, 20000}).Draw(t, "names")
		n := rapid.IntRange(1, 33).Draw(t, "shards")
		mix := rapid.IntRange(0, 1<<20).Draw(t, "mix")
		var ms, half []*gostatsd.Metric
		types := []gostatsd.MetricType{gostatsd.COUNTER, gostatsd.GAUGE, gostatsd.TIMER, gostatsd.SET}
		for i := 0; i < names; i++ {
			h := (i + mix) * 2654435761 % 1000003
			m := &gostatsd.Metric{Name: fmt.Sprintf("n%d.%d", h, i), Type: types[h%4], Value: float64(i), Rate: 1, StringValue: "m", Timestamp: 1,
				Source: gostatsd.Source([]string{"", "h1"}[h%2])}
			if h%3 == 0 {
				m.Tags = gostatsd.Tags{fmt.Sprintf("k:%d", h%7)}
			}
			ms = append(ms, m)
			if h%5 == 0 { // a second series under the same name
				c := gen.CopyMetric(m)
				c.Tags = append(c.Tags, "twin")
				ms = append(ms, c)
			}
			if i%2 == 0 {
				half = append(half, gen.CopyMetric(m))
			}
		}
		// one wide name: 32..120 series under it (one per tag value), among the narrow ones
		if wide := rapid.SampledFrom([]int{0, 31, 32, 33, 64, 120}).Draw(t, "wide-name-series"); wide > 0 {
			for j := 0; j < wide; j++ {
				m := &gostatsd.Metric{Name: "wide.name", Type: types[mix%4], Value: 1, Rate: 1, StringValue: "m", Timestamp: 1, Tags: gostatsd.Tags{fmt.Sprintf("shard:%d", j)}}
				ms = append(ms, m)
				if j%2 == 0 {
					half = append(half, gen.CopyMetric(m))
				}
			}
		}
		mm := gen.MapFromMetrics(ms)
		idx := splitIndex(t, mm, n)
		// splitting the same batch again gives the same parts
		for k, j := range splitIndex(t, gen.MapFromMetrics(ms), n) {
			if i, ok := idx[k]; !ok || i != j {
				vt.Fail(t, "C06:order-dependent", "series %v: part %d, splitting the same batch a second time part %d (present=%v)", k, i, j, ok)
			}
		}
		idx2 := splitIndex(t, gen.MapFromMetrics(half), n)
		for k, j := range idx2 {
			if i, ok := idx[k]; !ok || i != j {
				vt.Fail(t, "C06:value-dependent", "series %v: part %d in the large batch, part %d in a batch with every other name (present=%v)", k, i, j, ok)
			}
		}
		ev.C().Case(fmt.Sprintf("L|%d|%d|%d", names, n, mix), n >= 2 && names >= 4096, "large-batch", fmt.Sprintf("large-batch-names=%d", names))
		if ev.C().WantSample() {
			ev.C().Sample(map[string]interface{}{"names": names, "shards": n, "series": len(idx)})
		}
	})
}
