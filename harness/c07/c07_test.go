package c07

import (
	"context"
	"fmt"
	"strings"
	"sync"
	"testing"
	"time"

	"github.com/atlassian/gostatsd"
	"github.com/atlassian/gostatsd/pkg/statsd"
	"pgregory.net/rapid"

	"verifharness/internal/ev"
	"verifharness/internal/fakes"
	"verifharness/internal/gen"
	"verifharness/internal/model"
	"verifharness/internal/vt"
)

func TestMain(m *testing.M) {
	ev.C().Rule("rapid: family of 2..6 metric maps built from datapoints over colliding series with timestamps from {1..4}, a drawn permutation and bracketing, merged by MergeMaps / pairwise Merge tree / MetricConsolidator (1..4 slots, 1..3 goroutines) / MetricAggregator.ReceiveMap / cloud handler parked queue / tag stage with a tag-dropping filter, all compared with the reference fold; non-trivial = >= 3 maps and a series present in >= 2 maps with non-monotone timestamps")
	vt.Main(m)
}

var opts = model.Opts{SampledTol: 1e-9}

// bracket merges maps[lo:hi] following a drawn binary tree; returns the merged map.
func bracket(t *rapid.T, maps []*gostatsd.MetricMap, depth int) (*gostatsd.MetricMap, string) {
	if len(maps) == 1 {
		return maps[0], "m"
	}
	cut := rapid.IntRange(1, len(maps)-1).Draw(t, fmt.Sprintf("cut%d", depth))
	l, ls := bracket(t, maps[:cut], depth+1)
	r, rs := bracket(t, maps[cut:], depth+1)
	l.Merge(r)
	return l, "(" + ls + rs + ")"
}

func copies(ms []*gostatsd.MetricMap) []*gostatsd.MetricMap {
	out := make([]*gostatsd.MetricMap, len(ms))
	for i, m := range ms {
		out[i] = gen.CopyMap(m)
	}
	return out
}

func check(t *rapid.T, what string, got *gostatsd.MetricMap, want model.Agg) {
	if d := model.DupKeys(got); len(d) > 0 {
		vt.Fail(t, "C07:duplicate-series:"+what, "%s: result holds a series under two keys: %v", what, d)
	}
	if d := model.Diff(model.FromMap(got), want, opts); d != "" {
		vt.Fail(t, "C07:"+what, "%s result differs from the reference fold: %s", what, d)
	}
}

func TestMergeArrangements(t *testing.T) {
	rapid.Check(t, func(t *rapid.T) {
		ts := rapid.Int64Range(1, 4)
		nmaps := rapid.IntRange(2, 6).Draw(t, "nmaps")
		pool := gen.SeriesPool(1, 4).Draw(t, "hot-series")
		family := make([][]*gostatsd.Metric, nmaps)
		want := model.Agg{}
		hugeCounters := rapid.IntRange(0, 5).Draw(t, "huge-counters") == 0
		for i := range family {
			family[i] = rapid.SliceOfN(gen.DatapointFrom(pool, ts), 0, 10).Draw(t, fmt.Sprintf("map%d", i))
			for _, m := range family[i] {
				// counters are 64-bit integers that wrap: sums whose partial sums leave the range in one order and not in
				// another must still agree (+-2^62 increments, unsampled)
				if m.Type == gostatsd.COUNTER && hugeCounters {
					m.Value, m.Rate = float64(int64(1)<<62)*float64(rapid.SampledFrom([]int{1, 1, -1}).Draw(t, "huge-sign")), 1
				}
				want.AddMetric(m)
			}
		}
		base := make([]*gostatsd.MetricMap, nmaps)
		for i := range family {
			base[i] = gen.MapFromMetrics(family[i])
		}
		// reference fold over the maps themselves must agree with the fold over datapoints
		viaMaps := model.Agg{}
		for _, m := range base {
			viaMaps.AddMap(gen.CopyMap(m))
		}
		if d := model.Diff(viaMaps, want, opts); d != "" {
			vt.Fail(t, "C07:receive", "maps built by Receive differ from the datapoint fold: %s", d)
		}

		idx := make([]int, nmaps)
		for i := range idx {
			idx[i] = i
		}
		perm := rapid.Permutation(idx).Draw(t, "perm")
		permuted := func() []*gostatsd.MetricMap {
			c := copies(base)
			out := make([]*gostatsd.MetricMap, nmaps)
			for i, p := range perm {
				out[i] = c[p]
			}
			return out
		}

		// (a) MergeMaps in permuted order
		check(t, "MergeMaps", gostatsd.MergeMaps(permuted()), want)
		// (b) bracketing tree of pairwise merges
		br, shape := bracket(t, permuted(), 0)
		check(t, "Merge-tree", br, want)

		// (c) consolidator, fed from several goroutines, maps or raw datapoints
		slots := rapid.IntRange(1, 4).Draw(t, "slots")
		feeders := rapid.IntRange(1, 3).Draw(t, "feeders")
		asPoints := rapid.Bool().Draw(t, "consolidate-datapoints")
		sinkCh := make(chan []*gostatsd.MetricMap, 1)
		mc := gostatsd.NewMetricConsolidator(slots, false, time.Hour, sinkCh)
		var wg sync.WaitGroup
		pm := permuted()
		for f := 0; f < feeders; f++ {
			wg.Add(1)
			go func(f int) {
				defer wg.Done()
				for i := f; i < nmaps; i += feeders {
					if asPoints {
						var pts []*gostatsd.Metric
						for _, m := range family[perm[i]] {
							pts = append(pts, gen.CopyMetric(m))
						}
						mc.ReceiveMetrics(pts)
					} else {
						mc.ReceiveMetricMap(pm[i])
					}
				}
			}(f)
		}
		wg.Wait()
		useFlush := rapid.Bool().Draw(t, "consolidator-flush")
		var drained []*gostatsd.MetricMap
		if useFlush {
			mc.Flush()
			drained = <-sinkCh
		} else {
			drained = mc.Drain()
			mc.Fill()
		}
		if len(drained) != slots {
			vt.Fail(t, "C07:consolidator-slots", "Drain returned %d maps for %d slots", len(drained), slots)
		}
		check(t, "consolidator", gostatsd.MergeMaps(drained), want)
		// after Drain+Fill / Flush the consolidator is empty again
		again := mc.Drain()
		mc.Fill()
		for _, m := range again {
			if !m.IsEmpty() {
				vt.Fail(t, "C07:consolidator-residue", "data left in the consolidator after a flush: %v", gen.DescribeMap(m))
			}
		}

		// (c') two flush windows with a consumer that lags: the batches are split between the windows, the first window's slice
		// is merged only after the second window's batches were received and flushed. How batches group into windows and
		// when the consumer runs must not change the total.
		{
			sink2 := make(chan []*gostatsd.MetricMap, 4)
			mc2 := gostatsd.NewMetricConsolidator(slots, false, time.Hour, sink2)
			cut := rapid.IntRange(0, nmaps).Draw(t, "first-window")
			pm2 := permuted()
			for i := 0; i < cut; i++ {
				mc2.ReceiveMetricMap(pm2[i])
			}
			mc2.Flush()
			first := <-sink2 // handed over, not merged yet
			for i := cut; i < nmaps; i++ {
				if asPoints {
					var pts []*gostatsd.Metric
					for _, m := range family[perm[i]] {
						pts = append(pts, gen.CopyMetric(m))
					}
					mc2.ReceiveMetrics(pts)
				} else {
					mc2.ReceiveMetricMap(pm2[i])
				}
			}
			mc2.Flush()
			second := <-sink2
			check(t, "consolidator-two-windows", gostatsd.MergeMaps([]*gostatsd.MetricMap{gostatsd.MergeMaps(first), gostatsd.MergeMaps(second)}), want)
		}

		// (d) aggregator
		agg := statsd.NewMetricAggregator(nil, 0, 0, 0, 0, gostatsd.TimerSubtypes{}, 0)
		for _, m := range permuted() {
			agg.ReceiveMap(m)
		}
		agg.Process(func(mm *gostatsd.MetricMap) { check(t, "aggregator", gen.CopyMap(mm), want) })

		// (e) cloud handler: everything from an unknown source is parked, merged, released once
		cloudCase(t, family, perm, want)

		// (f) tag stage with a filter that strips env:* tags so that series coincide inside one map
		tagCase(t, base, perm)

		// non-trivial rule
		seenIn := map[model.Key][]int64{}
		for _, p := range perm {
			last := map[model.Key]int64{}
			for _, m := range family[p] {
				k := model.MakeKey(m.Type, m.Name, m.Tags, string(m.Source))
				if int64(m.Timestamp) > last[k] {
					last[k] = int64(m.Timestamp)
				}
			}
			for k, v := range last {
				seenIn[k] = append(seenIn[k], v)
			}
		}
		nonMono := false
		for _, v := range seenIn {
			for i := 1; i < len(v); i++ {
				if v[i] < v[i-1] {
					nonMono = true
				}
			}
		}
		nt := nmaps >= 3 && nonMono
		var canon []string
		for _, p := range perm {
			canon = append(canon, strings.Join(gen.DescribeMetrics(family[p]), ";"))
		}
		labels := []string{fmt.Sprintf("maps=%d", nmaps), fmt.Sprintf("slots=%d", slots), fmt.Sprintf("feeders=%d", feeders)}
		if nonMono {
			labels = append(labels, "non-monotone-timestamps")
		}
		if asPoints {
			labels = append(labels, "consolidator-fed-datapoints")
		}
		if ev.C().WantSample() {
			s := map[string]interface{}{"perm": perm, "bracketing": shape, "slots": slots, "feeders": feeders}
			for i := range family {
				s[fmt.Sprintf("map%d", i)] = gen.DescribeMetrics(family[i])
			}
			ev.C().Sample(s)
		}
		ev.C().Case(shape+"|"+strings.Join(canon, "||"), nt, labels...)
	})
}

func cloudCase(t *rapid.T, family [][]*gostatsd.Metric, perm []int, wantPlain model.Agg) {
	ci := fakes.NewCachedInstances()
	sink := fakes.NewSink()
	ch := statsd.NewCloudHandler(ci, sink)
	ctx, cancel := context.WithCancel(context.Background())
	done := make(chan struct{})
	go func() { ch.Run(ctx); close(done) }()
	defer func() { cancel(); <-done }()

	// per source: lookup outcome
	// per source: found / not found, already cached (fast path) or looked up (parked); two addresses may belong to one
	// instance, so that series differing only in their sender address coincide after enrichment
	outcome := map[gostatsd.Source]*gostatsd.Instance{}
	cached := map[gostatsd.Source]bool{}
	for _, s := range gen.Sources {
		if s == "" {
			continue
		}
		if rapid.Bool().Draw(t, "found-"+s) {
			id := s
			if rapid.Bool().Draw(t, "shared-instance-"+s) {
				id = "shared"
			}
			outcome[gostatsd.Source(s)] = &gostatsd.Instance{ID: gostatsd.Source("id-" + id), Tags: gostatsd.Tags{"inst:" + id}}
			if rapid.IntRange(0, 2).Draw(t, "tagless-instance-"+s) == 0 {
				outcome[gostatsd.Source(s)].Tags = nil // an instance the provider has an id for but no tags
			}
		} else {
			outcome[gostatsd.Source(s)] = nil
		}
		if rapid.Bool().Draw(t, "cached-"+s) {
			cached[gostatsd.Source(s)] = true
			ci.Set(gostatsd.Source(s), outcome[gostatsd.Source(s)])
		}
	}
	want := model.Agg{}
	sources := map[gostatsd.Source]struct{}{}
	immediate := 0
	for _, p := range perm {
		hasImmediate := false
		for _, m := range family[p] {
			c := gen.CopyMetric(m)
			if c.Source != "" {
				if cached[c.Source] {
					hasImmediate = true
				} else {
					sources[c.Source] = struct{}{}
				}
				if in := outcome[c.Source]; in != nil {
					c.Tags = append(c.Tags, in.Tags...)
					c.Source = in.ID
				}
			} else {
				hasImmediate = true
			}
			want.AddMetric(c)
		}
		if hasImmediate {
			immediate++
		}
		ch.DispatchMetricMap(ctx, gen.MapFromMetrics(family[p]))
	}
	got := map[gostatsd.Source]int{}
	for range sources {
		select {
		case s := <-ci.Sink:
			got[s]++
		case <-time.After(30 * time.Second):
			vt.Fail(t, "C07:cloud-lookup-never-requested", "cloud stage never requested a lookup for a parked source (waited 30s); requested so far %v", got)
		}
	}
	for s := range sources {
		if got[s] != 1 {
			vt.Fail(t, "C07:cloud-lookup-count", "source %q looked up %d times while parked", s, got[s])
		}
	}
	for s := range sources {
		ci.Info <- gostatsd.InstanceInfo{IP: s, Instance: outcome[s]}
	}
	expect := immediate + len(sources)
	if !sink.WaitUntil(30*time.Second, func(m []*gostatsd.MetricMap, _ []*gostatsd.Event) bool { return len(m) >= expect }) {
		n, _ := sink.Counts()
		vt.Fail(t, "C07:cloud-never-released", "cloud stage delivered %d maps, expected %d (waited 30s)", n, expect)
	}
	maps, _ := sink.Snapshot()
	gotAgg := model.Agg{}
	for _, m := range maps {
		if d := model.DupKeys(m); len(d) > 0 {
			vt.Fail(t, "C07:duplicate-series:cloud", "cloud stage emitted a series under two keys: %v", d)
		}
		if d := model.StaleKeys(m); len(d) > 0 {
			vt.Fail(t, "C07:stale-key:cloud", "cloud stage emitted a series under a key that is not its own (the next merge by key keeps it apart from its equals): %v", d)
		}
		gotAgg.AddMap(m)
	}
	if d := model.Diff(gotAgg, want, opts); d != "" {
		vt.Fail(t, "C07:cloud-queue", "cloud stage output differs from the reference fold: %s", d)
	}
}

func tagCase(t *rapid.T, base []*gostatsd.MetricMap, perm []int) {
	sink := fakes.NewSink()
	// with one static tag, a series that loses exactly one tag to the filter leaves with as many tags as it came with
	static := gostatsd.Tags(rapid.SampledFrom([][]string{nil, {"static:1"}, {"static:1", "static:2"}}).Draw(t, "static-tags"))
	th := statsd.NewTagHandler(sink, static, []statsd.Filter{{DropTags: gostatsd.StringMatchList{gostatsd.NewStringMatch("env:*")}}})
	// first merge everything (by the reference-checked MergeMaps) so that one map holds colliding series
	var ms []*gostatsd.MetricMap
	for _, p := range perm {
		ms = append(ms, gen.CopyMap(base[p]))
	}
	merged := gostatsd.MergeMaps(ms)
	want := model.Agg{}
	strip := func(tags gostatsd.Tags) []string {
		var out []string
		for _, x := range tags {
			if !strings.HasPrefix(x, "env:") {
				out = append(out, x)
			}
		}
		return append(out, static...)
	}
	merged.Counters.Each(func(n, _ string, c gostatsd.Counter) {
		want.AddCounter(model.MakeKey(gostatsd.COUNTER, n, strip(c.Tags), string(c.Source)), c.Value, c.Timestamp)
	})
	merged.Timers.Each(func(n, _ string, c gostatsd.Timer) {
		want.AddTimer(model.MakeKey(gostatsd.TIMER, n, strip(c.Tags), string(c.Source)), append([]float64(nil), c.Values...), c.SampledCount, c.Timestamp)
	})
	merged.Sets.Each(func(n, _ string, c gostatsd.Set) {
		want.AddSet(model.MakeKey(gostatsd.SET, n, strip(c.Tags), string(c.Source)), c.Values, c.Timestamp)
	})
	merged.Gauges.Each(func(n, _ string, c gostatsd.Gauge) {
		want.AddGauge(model.MakeKey(gostatsd.GAUGE, n, strip(c.Tags), string(c.Source)), c.Value, c.Timestamp)
	})
	th.DispatchMetricMap(context.Background(), merged)
	maps, _ := sink.Snapshot()
	got := model.Agg{}
	for _, m := range maps {
		if d := model.DupKeys(m); len(d) > 0 {
			vt.Fail(t, "C07:duplicate-series:tags", "tag stage emitted a series under two keys: %v", d)
		}
		if d := model.StaleKeys(m); len(d) > 0 {
			vt.Fail(t, "C07:stale-key:tags", "tag stage emitted a series under a key that is not its own: %v", d)
		}
		got.AddMap(m)
	}
	if d := model.Diff(got, want, opts); d != "" {
		vt.Fail(t, "C07:tag-stage", "tag stage output differs from the reference fold: %s", d)
	}
}
