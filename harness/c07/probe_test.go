package c07

import (
	"fmt"
	"testing"

	"github.com/atlassian/gostatsd"

	"verifharness/internal/ev"
	"verifharness/internal/gen"
	"verifharness/internal/vt"
)

const sigSourceTag = "C07:source-tag-key-collision"

// TestProbeSourceTagKeyCollision: a series' key is its sorted tags plus ",s:<source>". A series with the tag "s:h" and
// no source therefore has the key of the series with the same other tags and source "h". Two such series of one name
// and type are merged into one, and which tags and source the merged series keeps depends on which datapoint
// came first - the aggregate depends on the order of the merge.
func TestProbeSourceTagKeyCollision(t *testing.T) {
	a := &gostatsd.Metric{Name: "a", Type: gostatsd.COUNTER, Value: 1, Rate: 1, Tags: gostatsd.Tags{"k:v", "s:h"}, Timestamp: 1}
	b := &gostatsd.Metric{Name: "a", Type: gostatsd.COUNTER, Value: 2, Rate: 1, Tags: gostatsd.Tags{"k:v"}, Source: "h", Timestamp: 1}
	ab := gen.DescribeMap(gostatsd.MergeMaps([]*gostatsd.MetricMap{gen.MapFromMetrics([]*gostatsd.Metric{gen.CopyMetric(a)}), gen.MapFromMetrics([]*gostatsd.Metric{gen.CopyMetric(b)})}))
	ba := gen.DescribeMap(gostatsd.MergeMaps([]*gostatsd.MetricMap{gen.MapFromMetrics([]*gostatsd.Metric{gen.CopyMetric(b)}), gen.MapFromMetrics([]*gostatsd.Metric{gen.CopyMetric(a)})}))
	violated := fmt.Sprint(ab) != fmt.Sprint(ba)
	vt.Probe(t, sigSourceTag, violated, fmt.Sprintf("merging {counter a tags [k:v s:h] no source} and {counter a tags [k:v] source h}: one order gives %v, the other %v", ab, ba))
	ev.C().Case("probe-source-tag-key-collision", true, "probe")
}
