package c17

import (
	"context"
	"fmt"
	"math"
	"regexp"
	"sort"
	"strconv"
	"strings"
	"sync"
	"sync/atomic"
	"testing"
	"time"

	"github.com/atlassian/gostatsd"
	"github.com/atlassian/gostatsd/pkg/statsd"
	"github.com/atlassian/gostatsd/verifhooks"
	"pgregory.net/rapid"

	"verifharness/internal/bk"
	"verifharness/internal/ev"
	"verifharness/internal/fakes"
	"verifharness/internal/gen"
	"verifharness/internal/model"
	"verifharness/internal/vt"
)

func TestMain(m *testing.M) {
	bk.SetupEnv()
	ev.C().Rule("rapid: maps flushed by a real aggregator from generated datapoints (name tokens over [A-Za-z0-9_.-], tags with distinct keys over [A-Za-z0-9_.:/-] plus a value-less tag, two hosts, finite values (short decimals and values needing all 17 significant digits), idle series, gsd_histogram timers, percentiles) x batch sizes 1..60 x sub-metric masks x graphite modes x compression, sent to every bundled backend variant over a scripted transport / loopback listener; every payload is decoded by a decoder written in the harness (validity) and the multiset of (series identity, value) decoded from all payloads of the flush is compared with the aggregate (every enabled sub-metric exactly once, nothing else), hard size limits checked; the statsd relay's bytes are parsed back with gostatsd's own lexer. Non-trivial = a flush spanning >= 2 payloads of some backend, or containing a histogram and a percentile timer")
	vt.Main(m)
}

var tokens = []string{"tk0", "tk1", "tk2", "tk3", "svc.tk4.lat", "tk5-x_y"}
var tokenRe = regexp.MustCompile(`(^|\.)(tk[0-9])(\.|-|$)`)
var tagPool = []string{"env:prod", "region:us-east", "svc:web/api", "k.dot:v_1", "ver:42", "flag", "window:12:30", "up:db:5432/x",
	// tags whose key merely begins with "host": ordinary tags, the series still has its source as host
	"hostname:web1", "hostgroup:db", "hostile"}
var hosts = []string{"", "h1"}

type ident struct {
	token string
	tags  string
	host  string
}

func tokenOf(name string) string {
	m := tokenRe.FindStringSubmatch(name)
	if m == nil {
		return ""
	}
	return m[2]
}

func tagID(tags []string, dropLe bool) string {
	var t []string
	for _, x := range tags {
		if dropLe && strings.HasPrefix(x, "le:") {
			continue
		}
		t = append(t, x)
	}
	sort.Strings(t)
	return strings.Join(t, ",")
}

type expectation struct {
	values map[ident][]float64 // every enabled sub-metric of every series
	otlpH  map[ident][]float64 // the same for otlp AsHistogram (timers as histogram datapoints)
	le     map[ident][]float64 // histogram buckets only, identified by the series' tags plus le:<bound>
}

func baseSubs(tm gostatsd.Timer, d gostatsd.TimerSubtypes) []float64 {
	var v []float64
	add := func(disabled bool, x float64) {
		if !disabled {
			v = append(v, x)
		}
	}
	add(d.Lower, tm.Min)
	add(d.Upper, tm.Max)
	add(d.Count, float64(tm.Count))
	add(d.CountPerSecond, tm.PerSecond)
	add(d.Mean, tm.Mean)
	add(d.Median, tm.Median)
	add(d.StdDev, tm.StdDev)
	add(d.Sum, tm.Sum)
	add(d.SumSquares, tm.SumSquares)
	for _, p := range tm.Percentiles {
		v = append(v, p.Float)
	}
	return v
}

// expectOpts adapts the expectation to documented representation choices of a backend.
type expectOpts struct {
	withTags, withHost bool
	numericTagValues   bool // newrelic turns tag values that parse as numbers into JSON numbers
	bucketRateZero     bool // newrelic represents histogram buckets as counters, which carry a per-second field of 0
	skipSets           bool // known finding: newrelic flush-type metrics emits sets without a value
	ownHostTag         bool // otlp: a series that carries a host: tag of its own is exported with that host, not with its source
}

func numericNorm(tags []string) []string {
	out := make([]string, len(tags))
	for i, t := range tags {
		out[i] = t
		if k := strings.IndexByte(t, ':'); k >= 0 {
			if f, err := strconv.ParseFloat(t[k+1:], 64); err == nil && !math.IsInf(f, 0) && !math.IsNaN(f) {
				out[i] = t[:k+1] + strconv.FormatFloat(f, 'f', -1, 64)
			}
		}
	}
	return out
}

func expect(mm *gostatsd.MetricMap, d gostatsd.TimerSubtypes, o expectOpts) expectation {
	withTags, withHost := o.withTags, o.withHost
	e := expectation{values: map[ident][]float64{}, otlpH: map[ident][]float64{}, le: map[ident][]float64{}}
	id := func(name string, tags gostatsd.Tags, src gostatsd.Source) ident {
		i := ident{token: tokenOf(name)}
		if o.ownHostTag {
			var rest gostatsd.Tags
			for _, tg := range tags {
				if strings.HasPrefix(tg, "host:") {
					src = gostatsd.Source(tg[5:])
				} else {
					rest = append(rest, tg)
				}
			}
			tags = rest
		}
		if withTags {
			if o.numericTagValues {
				i.tags = tagID(numericNorm(tags), false)
			} else {
				i.tags = tagID(tags, false)
			}
		}
		if withHost {
			i.host = string(src)
		}
		return i
	}
	both := func(i ident, v ...float64) {
		e.values[i] = append(e.values[i], v...)
		e.otlpH[i] = append(e.otlpH[i], v...)
	}
	mm.Counters.Each(func(n, _ string, c gostatsd.Counter) { both(id(n, c.Tags, c.Source), float64(c.Value), c.PerSecond) })
	mm.Gauges.Each(func(n, _ string, g gostatsd.Gauge) { both(id(n, g.Tags, g.Source), g.Value) })
	mm.Sets.Each(func(n, _ string, s gostatsd.Set) {
		if o.skipSets {
			ev.C().Excluded("newrelic-metrics-set-series", 1)
			return
		}
		both(id(n, s.Tags, s.Source), float64(len(s.Values)))
	})
	mm.Timers.Each(func(n, _ string, tm gostatsd.Timer) {
		i := id(n, tm.Tags, tm.Source)
		// otlp AsHistogram: count, sum and (when there are values) min, max, plus cumulative bucket counts
		h := []float64{float64(len(tm.Values))}
		sum := 0.0
		for _, v := range tm.Values {
			sum += v
		}
		h = append(h, sum)
		if len(tm.Values) > 0 {
			// the aggregator does not sort the values of a gsd_histogram timer
			lo, hi := tm.Values[0], tm.Values[0]
			for _, v := range tm.Values {
				lo, hi = math.Min(lo, v), math.Max(hi, v)
			}
			h = append(h, lo, hi)
		}
		if tm.Histogram != nil {
			for th, c := range tm.Histogram {
				e.values[i] = append(e.values[i], float64(c))
				bound := strconv.FormatFloat(float64(th), 'f', -1, 64)
				if o.numericTagValues && math.IsInf(float64(th), 1) {
					bound = "infinity" // New Relic's spelling of the last bucket
				}
				li := id(n, append(tm.Tags.Copy(), "le:"+bound), tm.Source)
				e.le[li] = append(e.le[li], float64(c))
				if o.bucketRateZero {
					e.values[i] = append(e.values[i], 0)
					e.le[li] = append(e.le[li], 0)
				}
				h = append(h, float64(c))
			}
		} else {
			e.values[i] = append(e.values[i], baseSubs(tm, d)...)
		}
		e.otlpH[i] = append(e.otlpH[i], h...)
	})
	return e
}

// observedBuckets is observed restricted to points that carry an le: tag, which stays part of the identity.
func observedBuckets(pts []point, withHost bool, hostFromTag bool) map[ident][]float64 {
	var b []point
	for _, p := range pts {
		for _, t := range p.tags {
			if strings.HasPrefix(t, "le:") {
				b = append(b, p)
				break
			}
		}
	}
	return observedLe(b, true, withHost, hostFromTag, false)
}

func observed(pts []point, withTags, withHost bool, hostFromTag bool) map[ident][]float64 {
	return observedLe(pts, withTags, withHost, hostFromTag, true)
}

func observedLe(pts []point, withTags, withHost bool, hostFromTag bool, dropLe bool) map[ident][]float64 {
	out := map[ident][]float64{}
	for _, p := range pts {
		i := ident{token: tokenOf(p.name)}
		tags := p.tags
		host := p.host
		if hostFromTag {
			var rest []string
			seenHost := false
			for _, t := range tags {
				if strings.HasPrefix(t, "host:") && !seenHost {
					host, seenHost = t[5:], true
				} else {
					rest = append(rest, t) // a second host value is not the series' host: it stays visible as a tag
				}
			}
			tags = rest
		}
		if withTags {
			i.tags = tagID(tags, dropLe)
		}
		if withHost {
			i.host = host
		}
		out[i] = append(out[i], p.value)
	}
	return out
}

func withoutHistogramTagged(m map[ident][]float64) map[ident][]float64 {
	out := map[ident][]float64{}
	for i, v := range m {
		if !strings.Contains(i.tags, "gsd_histogram:") {
			out[i] = v
		}
	}
	return out
}

func compare(t vt.TB, variant string, got, want map[ident][]float64, ctxDesc string) {
	for i, w := range want {
		g := append([]float64(nil), got[i]...)
		w = append([]float64(nil), w...)
		sort.Float64s(g)
		sort.Float64s(w)
		okc := len(g) == len(w)
		for k := 0; okc && k < len(g); k++ {
			if strings.HasPrefix(variant, "graphite/") {
				okc = closeTo(g[k], w[k]) // graphite's line format is "%f": six decimals by design
			} else {
				okc = sameFloat(g[k], w[k]) // JSON / protobuf / line-protocol numbers round-trip a float64
			}
		}
		if !okc && len(g) == 0 {
			var near []string
			for k := range got {
				if k.token == i.token {
					near = append(near, fmt.Sprintf("%+v", k))
				}
			}
			sort.Strings(near)
			ctxDesc += fmt.Sprintf(" [payload series of that name: %v]", near)
		}
		if !okc {
			vt.Fail(t, "C17:series-values:"+variant, "%s: series %+v: payloads carry values %v, the aggregate has %v (%s)", variant, i, g, w, ctxDesc)
		}
	}
	for i, g := range got {
		if _, okc := want[i]; !okc {
			vt.Fail(t, "C17:unexpected-series:"+variant, "%s: payloads carry %v for %+v which is not in the aggregate (%s)", variant, g, i, ctxDesc)
		}
	}
}

type cfg struct {
	batch        int
	resourceKeys []string
	compress     bool
	mask         gostatsd.TimerSubtypes
	pcts         []float64
	limit        uint32
}

func datapointGen() *rapid.Generator[*gostatsd.Metric] {
	return rapid.Custom(func(t *rapid.T) *gostatsd.Metric {
		m := &gostatsd.Metric{
			Type:      rapid.SampledFrom([]gostatsd.MetricType{gostatsd.COUNTER, gostatsd.GAUGE, gostatsd.SET, gostatsd.TIMER, gostatsd.TIMER}).Draw(t, "type"),
			Name:      rapid.SampledFrom(tokens).Draw(t, "name"),
			Source:    gostatsd.Source(rapid.SampledFrom(hosts).Draw(t, "host")),
			Rate:      1,
			Timestamp: 1,
		}
		m.Tags = gostatsd.Tags(rapid.SliceOfNDistinct(rapid.SampledFrom(tagPool), 0, 3, rapid.ID[string]).Draw(t, "tags"))
		switch m.Type {
		case gostatsd.SET:
			m.StringValue = rapid.SampledFrom([]string{"u1", "u2", "u/3", "u:4"}).Draw(t, "member")
		case gostatsd.COUNTER:
			m.Value = float64(rapid.IntRange(-5, 1000).Draw(t, "cv"))
		default:
			m.Value = float64(rapid.IntRange(-100000, 1000000).Draw(t, "v")) / float64(rapid.SampledFrom([]int{1, 10, 1000, 1000000, 3, 7000000}).Draw(t, "div"))
			if m.Type == gostatsd.TIMER {
				m.Rate = rapid.SampledFrom([]float64{1, 0.5}).Draw(t, "rate")
				switch rapid.IntRange(0, 7).Draw(t, "hist") {
				case 0, 1:
					m.Tags = append(m.Tags, "gsd_histogram:1_5_10.5")
				case 2:
					// several values on one histogram series, in arrival (unsorted) order
					m.Tags = gostatsd.Tags{"gsd_histogram:1_5_10.5"}
					m.Source = gostatsd.Source(hosts[0])
				}
			}
		}
		return m
	})
}

func send(t vt.TB, kit *bk.Kit, mm *gostatsd.MetricMap) {
	kit.RT.Reset()
	kit.RT.Script = func(a *fakes.Attempt) fakes.Reply {
		if kit.Variant.Backend == "cloudwatch" {
			return fakes.Reply{Status: 200, Body: []byte(`<PutMetricDataResponse xmlns="http://monitoring.amazonaws.com/doc/2010-08-01/"><ResponseMetadata><RequestId>v</RequestId></ResponseMetadata></PutMetricDataResponse>`)}
		}
		return fakes.Reply{Status: 200}
	}
	done := make(chan []error, 2)
	go kit.Backend.SendMetricsAsync(context.Background(), mm, func(errs []error) { done <- errs })
	select {
	case errs := <-done:
		for _, e := range errs {
			if e != nil {
				vt.Fail(t, "C17:send-error:"+kit.Variant.Name, "%s reports %v although the transport accepted everything", kit.Variant.Name, e)
			}
		}
	case <-time.After(time.Duration(atomic.LoadInt64(&sendPatienceMs)) * time.Millisecond):
		atomic.StoreInt64(&sendPatienceMs, 3000) // rapid shrinking the case: 3 s instead of 30
		vt.Fail(t, "C17:no-callback:"+kit.Variant.Name, "%s did not complete within the patience (30s; 3s after a first failure)", kit.Variant.Name)
	}
}

var sendPatienceMs int64 = 30000

// sendDropped sends a flush that the endpoint refuses (500) for as long as the backend keeps trying; the outcome is ignored.
func sendDropped(kit *bk.Kit, mm *gostatsd.MetricMap) {
	kit.RT.Reset()
	kit.RT.Script = func(a *fakes.Attempt) fakes.Reply { return fakes.Reply{Status: 500} }
	done := make(chan struct{}, 2)
	ctx, cancel := context.WithTimeout(context.Background(), 30*time.Millisecond) // the flush's own deadline ends the back-off
	defer cancel()
	go kit.Backend.SendMetricsAsync(ctx, mm, func([]error) { done <- struct{}{} })
	select {
	case <-done:
	case <-time.After(30 * time.Second):
	}
}

func flushMap(t *rapid.T, c cfg, idle bool) *gostatsd.MetricMap {
	agg := statsd.NewMetricAggregator(c.pcts, 0, 0, 0, 0, c.mask, c.limit)
	pts := rapid.SliceOfN(datapointGen(), 1, 24).Draw(t, "datapoints")
	agg.ReceiveMap(gen.MapFromMetrics(pts))
	agg.Flush(10 * time.Second)
	if idle {
		agg.Reset()
		more := rapid.SliceOfN(datapointGen(), 0, 6).Draw(t, "datapoints-after-idle")
		agg.ReceiveMap(gen.MapFromMetrics(more))
		agg.Flush(10 * time.Second)
	}
	var out *gostatsd.MetricMap
	agg.Process(func(mm *gostatsd.MetricMap) { out = gen.CopyMap(mm) })
	return out
}

func cfgGen() *rapid.Generator[cfg] {
	return rapid.Custom(func(t *rapid.T) cfg {
		c := cfg{batch: rapid.SampledFrom([]int{1, 2, 3, 7, 22, 60}).Draw(t, "batch"), compress: rapid.Bool().Draw(t, "compress"),
			limit: rapid.SampledFrom([]uint32{math.MaxUint32, 2, 1, 0}).Draw(t, "hist-limit")}
		c.pcts = rapid.SampledFrom([][]float64{nil, {90}, {90, -10}, {50}}).Draw(t, "percentiles")
		// otlp resource_keys: the tags with these keys move from the datapoint to the resource, the flush then spreads over
		// several resources; the series and the per-request limit stay what they were
		c.resourceKeys = rapid.SampledFrom([][]string{nil, {"env"}, {"env", "region"}, {"svc", "window", "nokey"}}).Draw(t, "otlp-resource-keys")
		if rapid.IntRange(0, 2).Draw(t, "masked") == 0 {
			b := func(n string) bool { return rapid.Bool().Draw(t, n) }
			c.mask = gostatsd.TimerSubtypes{Lower: b("l"), Upper: b("u"), Count: b("c"), CountPerSecond: b("cps"), Mean: b("m"), Median: b("md"), StdDev: b("sd"), Sum: b("s"), SumSquares: b("ss"),
				LowerPct: b("lp"), UpperPct: b("up"), CountPct: b("cp"), MeanPct: b("mp"), SumPct: b("sp"), SumSquaresPct: b("ssp")}
		}
		return c
	})
}

// sigNRSet is the signature of the recorded finding "newrelic flush-type metrics emits a set without type and value".
const sigNRSet = "C17:newrelic-metrics-set-without-value"

// TestProbeNewRelicMetricsSet re-checks the recorded finding on exactly its input.
func TestProbeNewRelicMetricsSet(t *testing.T) {
	agg := statsd.NewMetricAggregator(nil, 0, 0, 0, 0, gostatsd.TimerSubtypes{}, 10)
	agg.ReceiveMap(gen.MapFromMetrics([]*gostatsd.Metric{{Name: "tk0", Type: gostatsd.SET, StringValue: "u1", Rate: 1}, {Name: "tk0", Type: gostatsd.SET, StringValue: "u2", Rate: 1}}))
	agg.Flush(10 * time.Second)
	var mm *gostatsd.MetricMap
	agg.Process(func(m *gostatsd.MetricMap) { mm = gen.CopyMap(m) })
	kit, err := bk.New(variant("newrelic/metrics"), bk.Options{Batch: 100})
	if err != nil {
		t.Fatal(err)
	}
	defer kit.Close()
	send(t, kit, mm)
	violated, detail := false, ""
	var pts []point
	for _, a := range kit.RT.Attempts() {
		strictNRSets = true
		p, err := decodeNewRelic(a, "metrics")
		strictNRSets = false
		if err != nil {
			violated, detail = true, err.Error()
		}
		pts = append(pts, p...)
	}
	if !violated {
		got := observed(pts, true, true, false)
		want := expect(mm, gostatsd.TimerSubtypes{}, expectOpts{withTags: true, withHost: true}).values
		for i, w := range want {
			if len(got[i]) != len(w) || !closeTo(got[i][0], w[0]) {
				violated, detail = true, fmt.Sprintf("set %+v carries %v want %v", i, got[i], w)
			}
		}
	}
	vt.Probe(t, sigNRSet, violated, "newrelic/metrics flush of a set with 2 members: "+detail)
	ev.C().Case("probe-newrelic-metrics-set", true, "probe")
}

var httpChecked = []string{"datadog", "influxdb/v1", "influxdb/v2", "newrelic/infra", "newrelic/insights", "newrelic/metrics", "otlp/AsGauge", "otlp/AsHistogram", "cloudwatch"}

func variant(name string) bk.Variant {
	for _, v := range bk.Variants() {
		if v.Name == name {
			return v
		}
	}
	panic(name)
}

// withOwnHost returns a copy of the map in which every series that has a source also carries the tag host:web1, at the
// front, at the back or where sorting puts it: the tag stage appends its tags without sorting, so a backend meets tags in any order.
func withOwnHost(mm *gostatsd.MetricMap, pos string) *gostatsd.MetricMap {
	out := gen.CopyMapSpare(mm)
	place := func(tags gostatsd.Tags, src gostatsd.Source) gostatsd.Tags {
		if src == "" {
			return tags
		}
		t := append(gostatsd.Tags{}, tags...)
		switch pos {
		case "front":
			return append(gostatsd.Tags{"host:web1"}, t...)
		case "back":
			return append(t, "host:web1")
		}
		t = append(t, "host:web1")
		sort.Strings(t)
		return t
	}
	for n, m := range out.Counters {
		for k, v := range m {
			v.Tags = place(v.Tags, v.Source)
			out.Counters[n][k] = v
		}
	}
	for n, m := range out.Gauges {
		for k, v := range m {
			v.Tags = place(v.Tags, v.Source)
			out.Gauges[n][k] = v
		}
	}
	for n, m := range out.Sets {
		for k, v := range m {
			v.Tags = place(v.Tags, v.Source)
			out.Sets[n][k] = v
		}
	}
	for n, m := range out.Timers {
		for k, v := range m {
			v.Tags = place(v.Tags, v.Source)
			out.Timers[n][k] = v
		}
	}
	return out
}

func TestPayloadsCarryEverySeriesOnce(t *testing.T) {
	rapid.Check(t, func(t *rapid.T) {
		c := cfgGen().Draw(t, "config")
		mm := flushMap(t, c, rapid.Bool().Draw(t, "idle-flush"))
		desc := fmt.Sprintf("batch=%d compress=%v mask=%+v pcts=%v limit=%d resource-keys=%v map=%v", c.batch, c.compress, c.mask, c.pcts, c.limit, c.resourceKeys, gen.DescribeMap(mm))
		multiPayload, hasHist, hasPct := false, false, false
		mm.Timers.Each(func(_, _ string, tm gostatsd.Timer) {
			hasHist = hasHist || tm.Histogram != nil
			hasPct = hasPct || len(tm.Percentiles) > 0
		})
		masked := c.mask != (gostatsd.TimerSubtypes{})
		// the flusher hands one and the same map to every configured backend, one after the other: in half of the cases the
		// backends here get one shared map too, in a drawn order (what one backend does to it, the next one sees)
		afterDropped := rapid.IntRange(0, 5).Draw(t, "after-a-dropped-flush") == 0
		afterDroppedRounds := rapid.IntRange(0, 4).Draw(t, "flushes-since-the-dropped-one")
		dropMap := gen.MapFromMetrics([]*gostatsd.Metric{{Name: "dropped.before", Type: gostatsd.GAUGE, Value: 99, Rate: 1, Tags: gostatsd.Tags{"stale:1"}}})
		otlpOwnHost := rapid.SampledFrom([]string{"", "", "front", "back", "sorted"}).Draw(t, "otlp-series-with-own-host-tag")
		order := append([]string(nil), httpChecked...)
		var shared *gostatsd.MetricMap
		if rapid.Bool().Draw(t, "backends-share-the-flushed-map") {
			shared = gen.CopyMapSpare(mm)
			order = rapid.Permutation(order).Draw(t, "backend-order")
		}
		for _, name := range order {
			opts := bk.Options{Batch: c.batch, Compress: c.compress, Disabled: c.mask, ResourceKeys: c.resourceKeys}
			dropFirst := afterDropped && (strings.HasPrefix(name, "datadog") || strings.HasPrefix(name, "influxdb") || strings.HasPrefix(name, "newrelic"))
			if dropFirst {
				opts.MaxElapsed = "1ms"
			}
			kit, err := bk.New(variant(name), opts)
			if err != nil {
				t.Fatalf("%v", err)
			}
			if dropFirst {
				// an earlier flush of this backend was given up (the endpoint answered 500 throughout its retry window), and a few
				// ordinary flushes went through since: the payloads of the flush under test are its own all the same
				sendDropped(kit, dropMap)
				for i := 0; i < afterDroppedRounds; i++ {
					send(t, kit, gen.CopyMapSpare(mm))
				}
			}
			flushed := mm // what this backend was given (for its expectation)
			if otlpOwnHost != "" && kit.Variant.Backend == "otlp" {
				flushed = withOwnHost(mm, otlpOwnHost)
				send(t, kit, gen.CopyMapSpare(flushed))
			} else if shared != nil {
				send(t, kit, shared)
			} else {
				send(t, kit, gen.CopyMapSpare(mm))
			}
			attempts := kit.RT.Attempts()
			kit.Close()
			if len(attempts) >= 2 {
				multiPayload = true
			}
			var pts []point
			for _, a := range attempts {
				if a.CtxDone {
					continue // a straggling attempt of the given-up flush: made with a finished context, nothing goes on the wire
				}
				var p []point
				var err error
				switch kit.Variant.Backend {
				case "datadog":
					p, err = decodeDatadog(a)
				case "influxdb":
					var lines int
					p, lines, err = decodeInflux(a)
					if err == nil && lines > c.batch {
						vt.Fail(t, "C17:batch-limit:"+name, "%s request carries %d lines with metrics-per-batch %d (%s)", name, lines, c.batch, desc)
					}
				case "newrelic":
					p, err = decodeNewRelic(a, strings.TrimPrefix(name, "newrelic/"))
				case "otlp":
					var n int
					p, n, err = decodeOTLP(a)
					if err == nil && n > c.batch {
						vt.Fail(t, "C17:batch-limit:"+name, "%s request carries %d metrics with metrics_per_batch %d (%s)", name, n, c.batch, desc)
					}
				case "cloudwatch":
					var n int
					p, n, err = decodeCloudwatch(a)
					if err == nil && n > 20 {
						vt.Fail(t, "C17:batch-limit:"+name, "cloudwatch call carries %d data (limit 20)", n)
					}
				}
				if err != nil {
					vt.WriteCase(map[string]interface{}{"variant": name, "config": desc, "body": string(a.Body)})
					vt.Fail(t, "C17:invalid-payload:"+name, "%s emitted a payload its protocol decoder rejects: %v (%s)", name, err, desc)
				}
				pts = append(pts, p...)
			}
			withHost := kit.Variant.Backend == "datadog" || kit.Variant.Backend == "newrelic" || kit.Variant.Backend == "otlp"
			isNR := kit.Variant.Backend == "newrelic"
			ex := expect(flushed, c.mask, expectOpts{withTags: true, withHost: withHost, numericTagValues: isNR, bucketRateZero: isNR, skipSets: name == "newrelic/metrics" && vt.Excluded(sigNRSet),
				ownHostTag: otlpOwnHost != "" && kit.Variant.Backend == "otlp"})
			want := ex.values
			if name == "otlp/AsHistogram" {
				want = ex.otlpH
			}
			if masked && name == "newrelic/metrics" {
				// this flush type always carries count/sum/min/max inside its summary metric: compare without a mask there
				continue
			}
			obs := observed(pts, true, withHost, kit.Variant.Backend == "otlp")
			if c.limit == 0 {
				// a gsd_histogram timer under histogram limit 0 has neither buckets nor statistics; whether a backend mentions it at
				// all (OTLP reports its zero statistics, the others nothing) is not part of the statement: left out on both sides
				obs, want = withoutHistogramTagged(obs), withoutHistogramTagged(want)
			}
			compare(t, name, obs, want, desc)
			// histogram buckets are separate series distinguished by an le:<bound> tag: each bound exactly once with its count
			if name != "otlp/AsHistogram" && kit.Variant.Backend != "influxdb" {
				compare(t, name, observedBuckets(pts, withHost, kit.Variant.Backend == "otlp"), ex.le, desc+" [buckets by le]")
			}
		}
		// graphite: tags mode carries tags and host, legacy/basic drop them
		for _, name := range []string{"graphite/tags", "graphite/basic", "graphite/legacy"} {
			kit, err := bk.New(variant(name), bk.Options{Disabled: c.mask})
			if err != nil {
				t.Fatalf("%v", err)
			}
			send(t, kit, gen.CopyMapSpare(mm))
			tagsMode := name == "graphite/tags"
			var stream []byte
			// the sender closes its connection when stopped; the listener has the whole stream once it has read to EOF
			kit.Stop()
			if !mm.IsEmpty() && !kit.Loop.WaitEOF(30*time.Second) {
				vt.Fail(t, "C17:no-callback:"+name, "%s: the connection carrying the flush was not closed within 30s after the backend stopped (%s)", name, desc)
			}
			for _, ch := range kit.Loop.Snapshot() {
				stream = append(stream, ch...)
			}
			kit.Close()
			pts, err := decodeGraphite(stream, tagsMode)
			if err != nil {
				vt.Fail(t, "C17:invalid-payload:"+name, "%s: %v (%s)", name, err, desc)
			}
			compare(t, name, observed(pts, tagsMode, tagsMode, false), expect(mm, c.mask, expectOpts{withTags: tagsMode, withHost: tagsMode}).values, desc)
		}
		nt := multiPayload || (hasHist && hasPct)
		labels := []string{fmt.Sprintf("batch=%d", c.batch)}
		if multiPayload {
			labels = append(labels, "multi-payload-flush")
		}
		if hasHist {
			labels = append(labels, "histogram-timer")
		}
		if hasPct {
			labels = append(labels, "percentile-timer")
		}
		if masked {
			labels = append(labels, "masked")
		}
		if ev.C().WantSample() {
			ev.C().Sample(map[string]interface{}{"config": fmt.Sprintf("batch=%d compress=%v pcts=%v limit=%d masked=%v", c.batch, c.compress, c.pcts, c.limit, masked), "flushed_map": gen.DescribeMap(mm)})
		}
		ev.C().Case(desc, nt, labels...)
	})
}

// ---------- the statsd relay parses back under gostatsd's own parser ----------

func relayAgg(t vt.TB, chunks [][]byte, udp bool, desc string) model.Agg {
	l := verifhooks.NewLexer(0)
	got := model.Agg{}
	for _, ch := range chunks {
		if udp && len(ch) > 1472 && strings.Count(strings.TrimSuffix(string(ch), "\n"), "\n") > 0 {
			vt.Fail(t, "C17:relay-datagram-too-big", "relay datagram of %d bytes holds several lines (limit 1472) (%s)", len(ch), desc)
		}
		if len(ch) == 0 {
			continue
		}
		if ch[len(ch)-1] != '\n' {
			vt.Fail(t, "C17:invalid-payload:statsdaemon", "relay chunk does not end with a newline: %q", ch)
		}
		for _, line := range strings.Split(strings.TrimSuffix(string(ch), "\n"), "\n") {
			m, e, err := l.Run([]byte(line), "")
			if err != nil || e != nil || m == nil {
				vt.Fail(t, "C17:invalid-payload:statsdaemon", "relay line %q does not parse as a metric under gostatsd's lexer: %v (%s)", line, err, desc)
			}
			c := *m
			c.Tags = m.Tags.Copy()
			m.Done()
			c.Timestamp = 1
			got.AddMetric(&c)
		}
	}
	return got
}

func TestRelayRoundTrip(t *testing.T) {
	rapid.Check(t, func(t *rapid.T) {
		c := cfgGen().Draw(t, "config")
		mm := flushMap(t, c, rapid.Bool().Draw(t, "idle-flush"))
		// long tag values make single lines approach / exceed the datagram size
		if rapid.IntRange(0, 3).Draw(t, "long") == 0 {
			big := gostatsd.NewMetricMap(false)
			big.Receive(&gostatsd.Metric{Name: "tk9", Type: gostatsd.GAUGE, Value: 1, Rate: 1, Tags: gostatsd.Tags{"blob:" + strings.Repeat("x", rapid.SampledFrom([]int{700, 1400, 1500, 3000}).Draw(t, "blob"))}, Timestamp: 1})
			mm.Merge(big)
		}
		// two lines whose total length sits exactly around the datagram size (1470..1475 bytes including newlines)
		if rapid.IntRange(0, 2).Draw(t, "boundary") == 0 {
			mm = gostatsd.NewMetricMap(false)
			total := rapid.IntRange(1468, 1476).Draw(t, "two-line-total")
			fixed := len("tk8:1.000000|g|#blob:\n")
			b1 := rapid.IntRange(50, total-2*fixed-50).Draw(t, "blob1")
			b2 := total - 2*fixed - b1
			mm.Receive(&gostatsd.Metric{Name: "tk8", Type: gostatsd.GAUGE, Value: 1, Rate: 1, Tags: gostatsd.Tags{"blob:" + strings.Repeat("x", b1)}, Timestamp: 1})
			mm.Receive(&gostatsd.Metric{Name: "tk7", Type: gostatsd.GAUGE, Value: 1, Rate: 1, Tags: gostatsd.Tags{"blob:" + strings.Repeat("y", b2)}, Timestamp: 1})
		}
		name := rapid.SampledFrom([]string{"statsdaemon/udp", "statsdaemon/udp", "statsdaemon/tcp"}).Draw(t, "variant")
		// rarely: a flush of more than a thousand datagrams over UDP (a thousand is what the relay's hand-over to its sender
		// holds at a time): 1001..1100 series whose lines take a datagram each
		crowd := rapid.IntRange(0, 29).Draw(t, "flush-of-a-thousand-datagrams") == 17
		if crowd {
			name = "statsdaemon/udp"
			mm = gostatsd.NewMetricMap(false)
			n := rapid.SampledFrom([]int{1001, 1100}).Draw(t, "datagrams")
			for i := 0; i < n; i++ {
				mm.Receive(&gostatsd.Metric{Name: fmt.Sprintf("tk%d", i%10), Type: gostatsd.GAUGE, Value: float64(i), Rate: 1, Tags: gostatsd.Tags{fmt.Sprintf("blob:%05d%s", i, strings.Repeat("x", 740))}, Timestamp: 1})
			}
		}
		kit, err := bk.New(variant(name), bk.Options{})
		if err != nil {
			t.Fatalf("%v", err)
		}
		defer kit.Close()
		desc := fmt.Sprintf("%s map=%v", name, gen.DescribeMap(mm))
		if crowd {
			desc = fmt.Sprintf("%s, one flush of %d gauge series with 750-byte tags (a datagram each)", name, countGauges(mm))
		}
		send(t, kit, gen.CopyMapSpare(mm))
		want := model.Agg{}
		lines := 0
		mm.Counters.Each(func(n, _ string, c gostatsd.Counter) {
			want.AddCounter(model.MakeKey(gostatsd.COUNTER, n, relayTags(c.Tags, c.Source), ""), c.Value, 1)
			lines++
		})
		// the relay's line format is "%f": a value travels with six decimals by design
		sixDecimals := func(v float64) float64 {
			f, _ := strconv.ParseFloat(fmt.Sprintf("%f", v), 64)
			return f
		}
		mm.Gauges.Each(func(n, _ string, g gostatsd.Gauge) {
			want.AddGauge(model.MakeKey(gostatsd.GAUGE, n, relayTags(g.Tags, g.Source), ""), sixDecimals(g.Value), 1)
			lines++
		})
		mm.Timers.Each(func(n, _ string, tm gostatsd.Timer) {
			if len(tm.Values) > 0 {
				vs := make([]float64, len(tm.Values))
				for i, v := range tm.Values {
					vs[i] = sixDecimals(v)
				}
				want.AddTimer(model.MakeKey(gostatsd.TIMER, n, relayTags(tm.Tags, tm.Source), ""), vs, float64(len(tm.Values)), 1)
				lines += len(tm.Values)
			}
		})
		mm.Sets.Each(func(n, _ string, s gostatsd.Set) {
			if len(s.Values) > 0 {
				want.AddSet(model.MakeKey(gostatsd.SET, n, relayTags(s.Tags, s.Source), ""), s.Values, 1)
				lines += len(s.Values)
			}
		})
		// wait until the listener has everything the sender wrote: a TCP stream is complete at EOF (the stopped sender
		// closes it), datagrams are counted
		if kit.Variant.Socket != "udp" && lines > 0 {
			kit.Stop()
			if !kit.Loop.WaitEOF(30 * time.Second) {
				vt.Fail(t, "C17:relay-roundtrip", "the relay's connection was not closed within 30s after the backend stopped (%s)", desc)
			}
		}
		deadline := time.Now().Add(30 * time.Second)
		var got model.Agg
		for {
			got = relayAgg(t, kit.Loop.Snapshot(), kit.Variant.Socket == "udp", desc)
			n := 0
			for _, s := range got {
				n += s.N
			}
			if n >= lines || time.Now().After(deadline) {
				break
			}
			time.Sleep(time.Millisecond)
		}
		if d := model.Diff(got, want, model.Opts{IgnoreTimestamps: true, SampledTol: 1e-9}); d != "" {
			if crowd && kit.Loop.KernelDrops() != 0 {
				// the kernel says it discarded datagrams at the listener (or cannot say): UDP lost them, not the relay
				ev.C().Excluded("datagram-dropped-by-the-kernel", 1)
				t.Skip("the kernel dropped a datagram")
			}
			if len(d) > 600 {
				d = d[:600] + " ..."
			}
			vt.Fail(t, "C17:relay-roundtrip", "what the relay emitted parses back to something else than the aggregate: %s (%s)", d, desc)
		}
		chunks := kit.Loop.Snapshot()
		ev.C().Case("R|"+desc, len(chunks) >= 2, "relay", "relay-"+kit.Variant.Socket)
	})
}

func countGauges(mm *gostatsd.MetricMap) int {
	n := 0
	mm.Gauges.Each(func(_, _ string, _ gostatsd.Gauge) { n++ })
	return n
}

func relayTags(tags gostatsd.Tags, src gostatsd.Source) []string {
	t := append([]string(nil), tags...)
	if src != "" {
		t = append(t, "s:"+string(src))
	}
	return t
}

func TestRelayEvents(t *testing.T) {
	rapid.Check(t, func(t *rapid.T) {
		es := gen.Event().Draw(t, "event")
		e := es.Event
		if strings.Contains(e.Text, "\\n") || strings.Contains(es.Line, "|x") {
			t.Skip("text with a literal backslash-n pair is outside the domain")
		}
		for _, tag := range e.Tags {
			if tag == "" {
				t.Skip("empty tag")
			}
		}
		kit, err := bk.New(variant("statsdaemon/udp"), bk.Options{})
		if err != nil {
			t.Fatalf("%v", err)
		}
		defer kit.Close()
		if err := kit.Backend.SendEvent(context.Background(), fakes.CopyEvent(&e)); err != nil {
			vt.Fail(t, "C17:relay-event-send", "SendEvent: %v", err)
		}
		deadline := time.Now().Add(30 * time.Second)
		for kit.Loop.Total() == 0 && time.Now().Before(deadline) {
			time.Sleep(200 * time.Microsecond)
		}
		chunks := kit.Loop.Snapshot()
		if len(chunks) != 1 {
			vt.Fail(t, "C17:relay-event", "event produced %d datagrams", len(chunks))
		}
		_, pe, err := verifhooks.NewLexer(0).Run(append([]byte(nil), chunks[0]...), "")
		if err != nil || pe == nil {
			vt.Fail(t, "C17:relay-event", "relayed event %q does not parse: %v", chunks[0], err)
		}
		if pe.Title != e.Title || pe.Text != e.Text || pe.DateHappened != e.DateHappened || pe.AggregationKey != e.AggregationKey || pe.SourceTypeName != e.SourceTypeName ||
			pe.Source != e.Source || pe.Priority != e.Priority || pe.AlertType != e.AlertType || strings.Join(pe.Tags, ",") != strings.Join(e.Tags, ",") {
			vt.Fail(t, "C17:relay-event", "event %+v relayed as %q parses back to %+v", e, chunks[0], *pe)
		}
		ev.C().Case("E|"+es.Line, es.Opt >= 2, "relay-event")
	})
}

// sameFloat: equal up to the last couple of bits (a decimal rendering with 17 significant digits and back).
func sameFloat(a, b float64) bool {
	if a == b {
		return true
	}
	return math.Abs(a-b) <= 4e-16*math.Max(math.Abs(a), math.Abs(b))
}

// TestConcurrentRelayFlushes: gostatsd flushes every aggregator on its own goroutine, so one backend instance serves
// several SendMetricsAsync calls at the same time, each with its own map. Two to four such flushes, each larger than one
// datagram, run concurrently against one statsd relay client; what arrives must be every line of every flush exactly
// once (parsed back with gostatsd's own lexer and summed).
func TestConcurrentRelayFlushes(t *testing.T) {
	rapid.Check(t, func(t *rapid.T) {
		name := rapid.SampledFrom([]string{"statsdaemon/udp", "statsdaemon/udp", "statsdaemon/tcp"}).Draw(t, "variant")
		kit, err := bk.New(variant(name), bk.Options{})
		if err != nil {
			t.Fatalf("%v", err)
		}
		defer kit.Close()
		flushes := rapid.IntRange(2, 4).Draw(t, "concurrent-flushes")
		want := model.Agg{}
		lines := 0
		var maps []*gostatsd.MetricMap
		for f := 0; f < flushes; f++ {
			n := rapid.IntRange(60, 220).Draw(t, "series")
			mm := gostatsd.NewMetricMap(false)
			for i := 0; i < n; i++ {
				nm := fmt.Sprintf("flush%d.requests.handled.%03d", f, i)
				tags := gostatsd.Tags{fmt.Sprintf("shard:%d", f), "service:checkout"}
				if i%2 == 0 {
					mm.Receive(&gostatsd.Metric{Name: nm, Type: gostatsd.COUNTER, Value: float64(1000*f + i), Rate: 1, Tags: tags.Copy(), Timestamp: 1})
					want.AddCounter(model.MakeKey(gostatsd.COUNTER, nm, tags, ""), int64(1000*f+i), 1)
				} else {
					mm.Receive(&gostatsd.Metric{Name: nm, Type: gostatsd.GAUGE, Value: float64(i) + 0.5, Rate: 1, Tags: tags.Copy(), Timestamp: 1})
					want.AddGauge(model.MakeKey(gostatsd.GAUGE, nm, tags, ""), float64(i)+0.5, 1)
				}
				lines++
			}
			maps = append(maps, mm)
		}
		var wg sync.WaitGroup
		errCh := make(chan string, flushes)
		start := make(chan struct{})
		for _, mm := range maps {
			wg.Add(1)
			go func(mm *gostatsd.MetricMap) {
				defer wg.Done()
				<-start
				done := make(chan []error, 2)
				kit.Backend.SendMetricsAsync(context.Background(), mm, func(errs []error) { done <- errs })
				select {
				case errs := <-done:
					for _, e := range errs {
						if e != nil {
							errCh <- e.Error()
						}
					}
				case <-time.After(30 * time.Second):
					errCh <- "no callback within 30s"
				}
			}(mm)
		}
		close(start)
		wg.Wait()
		select {
		case e := <-errCh:
			vt.Fail(t, "C17:send-error:"+name, "%s with %d concurrent flushes: %s", name, flushes, e)
		default:
		}
		desc := fmt.Sprintf("%s, %d concurrent flushes, %d lines", name, flushes, lines)
		if kit.Variant.Socket != "udp" {
			kit.Stop()
			if !kit.Loop.WaitEOF(30 * time.Second) {
				vt.Fail(t, "C17:relay-roundtrip", "the relay's connection was not closed within 30s after the backend stopped (%s)", desc)
			}
		}
		deadline := time.Now().Add(30 * time.Second)
		var got model.Agg
		for {
			got = relayAgg(t, kit.Loop.Snapshot(), kit.Variant.Socket == "udp", desc)
			n := 0
			for _, s := range got {
				n += s.N
			}
			if n >= lines || time.Now().After(deadline) {
				break
			}
			time.Sleep(time.Millisecond)
		}
		if d := model.Diff(got, want, model.Opts{IgnoreTimestamps: true, SampledTol: 1e-9}); d != "" {
			vt.Fail(t, "C17:relay-roundtrip", "concurrent flushes through one relay client: what arrived differs from the flushes' own lines: %s (%s)", d, desc)
		}
		ev.C().Case(fmt.Sprintf("X|%s|%d|%d", name, flushes, lines), true, "relay-concurrent-flushes", "relay-"+kit.Variant.Socket)
		if ev.C().WantSample() {
			ev.C().Sample(map[string]interface{}{"variant": name, "concurrent_flushes": flushes, "lines": lines})
		}
	})
}
