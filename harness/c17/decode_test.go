package c17

import (
	"bytes"
	"compress/gzip"
	"compress/zlib"
	"encoding/json"
	"fmt"
	"io"
	"math"
	"net/url"
	"sort"
	"strconv"
	"strings"

	v1export "go.opentelemetry.io/proto/otlp/collector/metrics/v1"
	v1common "go.opentelemetry.io/proto/otlp/common/v1"
	v1metrics "go.opentelemetry.io/proto/otlp/metrics/v1"
	"google.golang.org/protobuf/proto"

	"verifharness/internal/fakes"
	"verifharness/internal/vt"
)

// point is one decoded datapoint: the emitted metric name, its value, its tags as "k:v" / "flag" strings and the host.
type point struct {
	name  string
	value float64
	tags  []string
	host  string
}

func (p point) String() string {
	return fmt.Sprintf("%s=%v tags=%v host=%q", p.name, p.value, p.tags, p.host)
}

func gunzip(b []byte) ([]byte, error) {
	r, err := gzip.NewReader(bytes.NewReader(b))
	if err != nil {
		return nil, err
	}
	return io.ReadAll(r)
}

func inflate(b []byte) ([]byte, error) {
	r, err := zlib.NewReader(bytes.NewReader(b))
	if err != nil {
		return nil, err
	}
	return io.ReadAll(r)
}

func bodyOf(a *fakes.Attempt) ([]byte, error) {
	switch a.Header.Get("Content-Encoding") {
	case "gzip":
		return gunzip(a.Body)
	case "deflate":
		return inflate(a.Body)
	case "", "identity":
		return a.Body, nil
	}
	return nil, fmt.Errorf("unknown content-encoding %q", a.Header.Get("Content-Encoding"))
}

// ---- datadog ----

func decodeDatadog(a *fakes.Attempt) ([]point, error) {
	b, err := bodyOf(a)
	if err != nil {
		return nil, err
	}
	var doc struct {
		Series []struct {
			Host     string       `json:"host"`
			Metric   string       `json:"metric"`
			Points   [][2]float64 `json:"points"`
			Tags     []string     `json:"tags"`
			Type     string       `json:"type"`
			Interval float64      `json:"interval"`
		} `json:"series"`
	}
	dec := json.NewDecoder(bytes.NewReader(b))
	dec.DisallowUnknownFields()
	if err := dec.Decode(&doc); err != nil {
		return nil, fmt.Errorf("datadog payload is not the documented JSON: %v", err)
	}
	var out []point
	for _, s := range doc.Series {
		if len(s.Points) != 1 || s.Metric == "" {
			return nil, fmt.Errorf("datadog series %q has %d points", s.Metric, len(s.Points))
		}
		switch s.Type {
		case "gauge", "rate", "count":
		default:
			return nil, fmt.Errorf("datadog series %q has type %q", s.Metric, s.Type)
		}
		out = append(out, point{name: s.Metric, value: s.Points[0][1], tags: s.Tags, host: s.Host})
	}
	return out, nil
}

// ---- influxdb line protocol ----

func unescapeInflux(s string) string {
	var b strings.Builder
	for i := 0; i < len(s); i++ {
		if s[i] == '\\' && i+1 < len(s) {
			i++
			switch s[i] {
			case 'n':
				b.WriteByte('\n')
			case 'r':
				b.WriteByte('\r')
			case 't':
				b.WriteByte('\t')
			default:
				b.WriteByte(s[i])
			}
			continue
		}
		b.WriteByte(s[i])
	}
	return b.String()
}

// splitUnescaped splits on sep where it is not preceded by a backslash.
func splitUnescaped(s string, sep byte) []string {
	var out []string
	start := 0
	for i := 0; i < len(s); i++ {
		if s[i] == '\\' {
			i++
			continue
		}
		if s[i] == sep {
			out = append(out, s[start:i])
			start = i + 1
		}
	}
	return append(out, s[start:])
}

func decodeInflux(a *fakes.Attempt) (pts []point, lines int, err error) {
	b, err := bodyOf(a)
	if err != nil {
		return nil, 0, err
	}
	if len(b) == 0 || b[len(b)-1] != '\n' {
		return nil, 0, fmt.Errorf("influx payload does not end with a newline")
	}
	for _, line := range strings.Split(strings.TrimSuffix(string(b), "\n"), "\n") {
		lines++
		parts := splitUnescaped(line, ' ')
		if len(parts) != 3 {
			return nil, lines, fmt.Errorf("influx line %q has %d space separated parts", line, len(parts))
		}
		if _, err := strconv.ParseInt(parts[2], 10, 64); err != nil {
			return nil, lines, fmt.Errorf("influx line %q: bad timestamp", line)
		}
		key := splitUnescaped(parts[0], ',')
		name := unescapeInflux(key[0])
		var tags []string
		host := ""
		for _, kv := range key[1:] {
			p := splitUnescaped(kv, '=')
			if len(p) != 2 || p[0] == "" {
				return nil, lines, fmt.Errorf("influx line %q: bad tag %q", line, kv)
			}
			k, v := unescapeInflux(p[0]), unescapeInflux(p[1])
			for _, one := range strings.Split(v, "__") {
				if k == "unnamed" {
					tags = append(tags, one)
				} else {
					tags = append(tags, k+":"+one)
				}
			}
		}
		fields := splitUnescaped(parts[1], ',')
		if len(fields) == 0 {
			return nil, lines, fmt.Errorf("influx line %q has no fields", line)
		}
		for _, f := range fields {
			p := strings.SplitN(f, "=", 2)
			if len(p) != 2 || p[0] == "" {
				return nil, lines, fmt.Errorf("influx line %q: bad field %q", line, f)
			}
			v, err := strconv.ParseFloat(p[1], 64)
			if err != nil {
				return nil, lines, fmt.Errorf("influx line %q: field %q is not numeric", line, f)
			}
			pts = append(pts, point{name: name + "." + p[0], value: v, tags: tags, host: host})
		}
	}
	return pts, lines, nil
}

// ---- graphite ----

func decodeGraphite(stream []byte, tagsMode bool) ([]point, error) {
	if len(stream) == 0 {
		return nil, nil
	}
	if stream[len(stream)-1] != '\n' {
		return nil, fmt.Errorf("graphite stream does not end with a newline")
	}
	var out []point
	for _, line := range strings.Split(strings.TrimSuffix(string(stream), "\n"), "\n") {
		parts := strings.Split(line, " ")
		if len(parts) != 3 {
			return nil, fmt.Errorf("graphite line %q does not have 3 fields", line)
		}
		v, err := strconv.ParseFloat(parts[1], 64)
		if err != nil {
			return nil, fmt.Errorf("graphite line %q: bad value", line)
		}
		if _, err := strconv.ParseInt(parts[2], 10, 64); err != nil {
			return nil, fmt.Errorf("graphite line %q: bad timestamp", line)
		}
		segs := strings.Split(parts[0], ";")
		p := point{name: segs[0], value: v}
		if !tagsMode && len(segs) > 1 {
			return nil, fmt.Errorf("graphite line %q carries tags outside tags mode", line)
		}
		for _, kv := range segs[1:] {
			i := strings.IndexByte(kv, '=')
			if i <= 0 {
				return nil, fmt.Errorf("graphite line %q: bad tag %q", line, kv)
			}
			k, val := kv[:i], kv[i+1:]
			switch {
			case k == "unnamed":
				p.tags = append(p.tags, val)
			case k == "host" && kv == segs[len(segs)-1] && !containsPrefix(p.tags, "host:"):
				// a trailing host= is how the source travels when the metric has no host tag
				p.host = val
			default:
				p.tags = append(p.tags, k+":"+val)
			}
		}
		out = append(out, p)
	}
	return out, nil
}

func containsPrefix(l []string, p string) bool {
	for _, x := range l {
		if strings.HasPrefix(x, p) {
			return true
		}
	}
	return false
}

// ---- newrelic ----

// strictNRSets makes the decoder reject the recorded "set without value" payload (used by the probe).
var strictNRSets bool

var nrBuiltin = map[string]bool{"timestamp": true, "interval": true, "integration_version": true, "event_type": true, "eventType": true, "type": true, "name": true, "value": true,
	"per_second": true, "min": true, "max": true, "count": true, "mean": true, "median": true, "std_dev": true, "sum": true, "sum_squares": true}

func nrTags(m map[string]interface{}, skip map[string]bool, isPct func(string) bool) (tags []string, host string) {
	for k, v := range m {
		if skip[k] || (isPct != nil && isPct(k)) {
			continue
		}
		var s string
		switch x := v.(type) {
		case string:
			s = x
		case float64:
			s = strconv.FormatFloat(x, 'f', -1, 64)
		default:
			s = fmt.Sprint(x)
		}
		if k == "statsdSource" {
			host = s
			continue
		}
		if s == "true" {
			tags = append(tags, k)
		} else {
			tags = append(tags, k+":"+s)
		}
	}
	return
}

func isPctKey(k string) bool {
	for _, p := range []string{"count_", "mean_", "sum_squares_", "sum_", "upper_", "lower_"} {
		if strings.HasPrefix(k, p) {
			if _, err := strconv.Atoi(k[len(p):]); err == nil {
				return true
			}
		}
	}
	return false
}

func decodeNRFlat(sets []map[string]interface{}) ([]point, error) {
	var out []point
	for _, m := range sets {
		name, _ := m["name"].(string)
		typ, _ := m["type"].(string)
		if name == "" || typ == "" {
			return nil, fmt.Errorf("newrelic metric set without name/type: %v", m)
		}
		tags, host := nrTags(m, nrBuiltin, isPctKey)
		for k, v := range m {
			f, isNum := v.(float64)
			if !isNum {
				continue
			}
			switch {
			case k == "value" && typ != "timer":
				out = append(out, point{name: name + ".value", value: f, tags: tags, host: host})
			case k == "per_second" || k == "min" || k == "max" || k == "count" || k == "mean" || k == "median" || k == "std_dev" || k == "sum" || k == "sum_squares" || isPctKey(k):
				out = append(out, point{name: name + "." + k, value: f, tags: tags, host: host})
			}
		}
	}
	return out, nil
}

func decodeNewRelic(a *fakes.Attempt, flushType string) ([]point, error) {
	b, err := bodyOf(a)
	if err != nil {
		return nil, err
	}
	switch flushType {
	case "infra":
		var doc struct {
			Name               string `json:"name"`
			ProtocolVersion    string `json:"protocol_version"`
			IntegrationVersion string `json:"integration_version"`
			Data               []struct {
				Metrics []map[string]interface{} `json:"metrics"`
			} `json:"data"`
		}
		if err := json.Unmarshal(b, &doc); err != nil {
			return nil, fmt.Errorf("newrelic infra payload: %v", err)
		}
		if doc.Name == "" || len(doc.Data) != 1 {
			return nil, fmt.Errorf("newrelic infra payload: name %q, %d data blocks", doc.Name, len(doc.Data))
		}
		return decodeNRFlat(doc.Data[0].Metrics)
	case "insights":
		var sets []map[string]interface{}
		if err := json.Unmarshal(b, &sets); err != nil {
			return nil, fmt.Errorf("newrelic insights payload: %v", err)
		}
		return decodeNRFlat(sets)
	}
	var doc []struct {
		Common struct {
			Attributes map[string]interface{} `json:"attributes"`
			IntervalMs float64                `json:"interval.ms"`
		} `json:"common"`
		Metrics []struct {
			Name       string                 `json:"name"`
			Type       string                 `json:"type"`
			Value      interface{}            `json:"value"`
			Timestamp  int64                  `json:"timestamp"`
			Attributes map[string]interface{} `json:"attributes"`
		} `json:"metrics"`
	}
	if err := json.Unmarshal(b, &doc); err != nil {
		return nil, fmt.Errorf("newrelic metrics payload: %v", err)
	}
	if len(doc) != 1 {
		return nil, fmt.Errorf("newrelic metrics payload has %d blocks", len(doc))
	}
	var out []point
	for _, m := range doc[0].Metrics {
		if m.Name == "" {
			return nil, fmt.Errorf("newrelic metric without a name")
		}
		tags, host := nrTags(m.Attributes, map[string]bool{"statsdType": true, "percentile": true}, nil)
		switch v := m.Value.(type) {
		case float64:
			if m.Type != "gauge" && m.Type != "count" {
				return nil, fmt.Errorf("newrelic metric %q: type %q with scalar value", m.Name, m.Type)
			}
			out = append(out, point{name: m.Name, value: v, tags: tags, host: host})
		case map[string]interface{}:
			if m.Type != "summary" {
				return nil, fmt.Errorf("newrelic metric %q: type %q with object value", m.Name, m.Type)
			}
			for k, x := range v {
				f, ok := x.(float64)
				if !ok {
					return nil, fmt.Errorf("newrelic summary %q: field %q not numeric", m.Name, k)
				}
				out = append(out, point{name: m.Name + "." + k, value: f, tags: tags, host: host})
			}
		default:
			if m.Value == nil && m.Attributes["statsdType"] == "set" && !strictNRSets && vt.Excluded("C17:newrelic-metrics-set-without-value") {
				continue // recorded finding: sets are emitted without type and value in this flush type (probe re-checks it)
			}
			return nil, fmt.Errorf("newrelic metric %q (statsdType %v) has value %v and type %q", m.Name, m.Attributes["statsdType"], m.Value, m.Type)
		}
	}
	return out, nil
}

// ---- otlp ----

func kvTags(kvs []*v1common.KeyValue) []string {
	var out []string
	for _, kv := range kvs {
		switch v := kv.Value.Value.(type) {
		case *v1common.AnyValue_StringValue:
			if v.StringValue == "" {
				out = append(out, kv.Key)
			} else {
				out = append(out, kv.Key+":"+v.StringValue)
			}
		case *v1common.AnyValue_ArrayValue:
			for _, x := range v.ArrayValue.Values {
				out = append(out, kv.Key+":"+x.GetStringValue())
			}
		}
	}
	return out
}

func decodeOTLP(a *fakes.Attempt) (pts []point, metrics int, err error) {
	b, err := bodyOf(a)
	if err != nil {
		return nil, 0, err
	}
	var req v1export.ExportMetricsServiceRequest
	if err := proto.Unmarshal(b, &req); err != nil {
		return nil, 0, fmt.Errorf("otlp payload: %v", err)
	}
	for _, rm := range req.ResourceMetrics {
		var rtags []string
		if rm.Resource != nil {
			rtags = kvTags(rm.Resource.Attributes)
		}
		for _, sm := range rm.ScopeMetrics {
			for _, m := range sm.Metrics {
				metrics++
				add := func(suffix string, v float64, attrs []*v1common.KeyValue) {
					tags := append(append([]string(nil), rtags...), kvTags(attrs)...)
					pts = append(pts, point{name: m.Name + suffix, value: v, tags: tags})
				}
				switch {
				case m.GetGauge() != nil:
					for _, dp := range m.GetGauge().DataPoints {
						v, ok := numberOf(dp)
						if !ok {
							return nil, metrics, fmt.Errorf("otlp gauge %q datapoint without value", m.Name)
						}
						add("", v, dp.Attributes)
					}
				case m.GetSum() != nil:
					for _, dp := range m.GetSum().DataPoints {
						v, ok := numberOf(dp)
						if !ok {
							return nil, metrics, fmt.Errorf("otlp sum %q datapoint without value", m.Name)
						}
						add("", v, dp.Attributes)
					}
				case m.GetHistogram() != nil:
					for _, dp := range m.GetHistogram().DataPoints {
						add(".h_count", float64(dp.Count), dp.Attributes)
						if dp.Sum != nil {
							add(".h_sum", *dp.Sum, dp.Attributes)
						}
						if dp.Min != nil {
							add(".h_min", *dp.Min, dp.Attributes)
						}
						if dp.Max != nil {
							add(".h_max", *dp.Max, dp.Attributes)
						}
						if len(dp.BucketCounts) > 0 && len(dp.BucketCounts) != len(dp.ExplicitBounds)+1 {
							return nil, metrics, fmt.Errorf("otlp histogram %q: %d bucket counts for %d bounds", m.Name, len(dp.BucketCounts), len(dp.ExplicitBounds))
						}
						cum := uint64(0)
						for i, c := range dp.BucketCounts {
							cum += c
							b := "+Inf"
							if i < len(dp.ExplicitBounds) {
								b = strconv.FormatFloat(dp.ExplicitBounds[i], 'f', -1, 64)
							}
							add(".h_le:"+b, float64(cum), dp.Attributes)
						}
					}
				default:
					return nil, metrics, fmt.Errorf("otlp metric %q has no data", m.Name)
				}
			}
		}
	}
	return pts, metrics, nil
}

func numberOf(dp *v1metrics.NumberDataPoint) (float64, bool) {
	switch v := dp.Value.(type) {
	case *v1metrics.NumberDataPoint_AsDouble:
		return v.AsDouble, true
	case *v1metrics.NumberDataPoint_AsInt:
		return float64(v.AsInt), true
	}
	return 0, false
}

// ---- cloudwatch (awsquery form) ----

func decodeCloudwatch(a *fakes.Attempt) (pts []point, data int, err error) {
	b, err := bodyOf(a)
	if err != nil {
		return nil, 0, err
	}
	q, err := url.ParseQuery(string(b))
	if err != nil {
		return nil, 0, fmt.Errorf("cloudwatch body is not a query form: %v", err)
	}
	if q.Get("Action") != "PutMetricData" || q.Get("Namespace") == "" {
		return nil, 0, fmt.Errorf("cloudwatch body: Action=%q Namespace=%q", q.Get("Action"), q.Get("Namespace"))
	}
	for i := 1; ; i++ {
		pre := fmt.Sprintf("MetricData.member.%d.", i)
		name := q.Get(pre + "MetricName")
		if name == "" {
			break
		}
		data++
		v, err := strconv.ParseFloat(q.Get(pre+"Value"), 64)
		if err != nil {
			return nil, data, fmt.Errorf("cloudwatch datum %q: bad value %q", name, q.Get(pre+"Value"))
		}
		p := point{name: name, value: v}
		for d := 1; ; d++ {
			k := q.Get(fmt.Sprintf("%sDimensions.member.%d.Name", pre, d))
			if k == "" {
				break
			}
			val := q.Get(fmt.Sprintf("%sDimensions.member.%d.Value", pre, d))
			if val == "set" {
				p.tags = append(p.tags, k)
			} else {
				p.tags = append(p.tags, k+":"+val)
			}
		}
		pts = append(pts, p)
	}
	return pts, data, nil
}

func sortedCopy(l []string) []string {
	c := append([]string(nil), l...)
	sort.Strings(c)
	return c
}

func closeTo(a, b float64) bool {
	if a == b {
		return true
	}
	d := math.Abs(a - b)
	return d <= 1e-6 || d <= 1e-9*math.Max(math.Abs(a), math.Abs(b))
}
