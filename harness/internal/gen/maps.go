// Package gen holds rapid generators shared by the checks.
package gen

import (
	"fmt"
	"math"
	"sort"
	"strings"

	"github.com/atlassian/gostatsd"
	"pgregory.net/rapid"
)

// Pools small enough that series collide often.
var (
	Names   = []string{"a", "b", "ab", "c", "a.b", "req.time", "x-y_z"}
	TagPool = []string{"k:v", "k:w", "env:prod", "env:dev", "region:us", "region:eu", "service:web", "t", "u", "k2:v:w", "a", "bc", "ab", "c"}
	Sources = []string{"", "1.2.3.4", "10.0.0.1", "i-abc"}
)

func NameGen() *rapid.Generator[string]   { return rapid.SampledFrom(Names) }
func SourceGen() *rapid.Generator[string] { return rapid.SampledFrom(Sources) }

// TagsGen draws 0..max distinct tags from the pool (order drawn, not sorted).
func TagsGen(max int) *rapid.Generator[[]string] {
	return rapid.Custom(func(t *rapid.T) []string {
		n := rapid.IntRange(0, max).Draw(t, "ntags")
		if n == 0 {
			if rapid.Bool().Draw(t, "niltags") {
				return nil
			}
			return []string{}
		}
		out := rapid.SliceOfNDistinct(rapid.SampledFrom(TagPool), n, n, rapid.ID[string]).Draw(t, "tags")
		return out
	})
}

// Value kinds for datapoints.
func FiniteValue() *rapid.Generator[float64] {
	return rapid.OneOf(
		rapid.Custom(func(t *rapid.T) float64 { return float64(rapid.IntRange(-20, 1000).Draw(t, "iv")) }),
		rapid.Custom(func(t *rapid.T) float64 {
			return float64(rapid.IntRange(-100000, 100000).Draw(t, "dv")) / math.Pow(10, float64(rapid.IntRange(0, 4).Draw(t, "dp")))
		}),
		rapid.Float64Range(-1e9, 1e9),
	)
}

var Rates = []float64{1, 1, 1, 0.5, 0.25, 0.1, 0.3, 0.125}

func RateGen() *rapid.Generator[float64] { return rapid.SampledFrom(Rates) }

var Types = []gostatsd.MetricType{gostatsd.COUNTER, gostatsd.TIMER, gostatsd.GAUGE, gostatsd.SET}

// Datapoint is a parsed-metric-shaped datapoint (what the parser hands to MetricMap.Receive).
func Datapoint(tsGen *rapid.Generator[int64]) *rapid.Generator[*gostatsd.Metric] {
	return rapid.Custom(func(t *rapid.T) *gostatsd.Metric {
		m := &gostatsd.Metric{
			Type:      rapid.SampledFrom(Types).Draw(t, "type"),
			Name:      NameGen().Draw(t, "name"),
			Tags:      gostatsd.Tags(TagsGen(3).Draw(t, "tags")),
			Source:    gostatsd.Source(SourceGen().Draw(t, "source")),
			Rate:      1,
			Timestamp: gostatsd.Nanotime(tsGen.Draw(t, "ts")),
		}
		switch m.Type {
		case gostatsd.SET:
			m.StringValue = rapid.SampledFrom([]string{"u1", "u2", "u3", "", "joe", "u:4"}).Draw(t, "member")
		case gostatsd.GAUGE:
			m.Value = FiniteValue().Draw(t, "value")
		default:
			m.Value = FiniteValue().Draw(t, "value")
			m.Rate = RateGen().Draw(t, "rate")
		}
		return m
	})
}

// CopyMetric deep-copies a datapoint (Receive sorts tags in place and may keep references).
func CopyMetric(m *gostatsd.Metric) *gostatsd.Metric {
	c := *m
	c.Tags = m.Tags.Copy()
	c.TagsKey = ""
	c.DoneFunc = nil
	return &c
}

// MapFromMetrics builds a MetricMap by Receive-ing copies of the datapoints.
func MapFromMetrics(ms []*gostatsd.Metric) *gostatsd.MetricMap {
	mm := gostatsd.NewMetricMap(false)
	for _, m := range ms {
		mm.Receive(CopyMetric(m))
	}
	return mm
}

// MetricMapGen draws a metric map built from 0..maxPoints datapoints with timestamps from tsGen.
func MetricsGen(maxPoints int, tsGen *rapid.Generator[int64]) *rapid.Generator[[]*gostatsd.Metric] {
	return rapid.SliceOfN(Datapoint(tsGen), 0, maxPoints)
}

// CopyMap deep-copies a metric map (maps, tag slices, timer values, set members).
func CopyMap(mm *gostatsd.MetricMap) *gostatsd.MetricMap {
	out := gostatsd.NewMetricMap(mm.Forwarded)
	mm.Counters.Each(func(n, k string, c gostatsd.Counter) {
		c.Tags = c.Tags.Copy()
		if out.Counters[n] == nil {
			out.Counters[n] = map[string]gostatsd.Counter{}
		}
		out.Counters[n][k] = c
	})
	mm.Gauges.Each(func(n, k string, c gostatsd.Gauge) {
		c.Tags = c.Tags.Copy()
		if out.Gauges[n] == nil {
			out.Gauges[n] = map[string]gostatsd.Gauge{}
		}
		out.Gauges[n][k] = c
	})
	mm.Timers.Each(func(n, k string, c gostatsd.Timer) {
		c.Tags = c.Tags.Copy()
		if c.Values != nil {
			c.Values = append([]float64{}, c.Values...)
		}
		if c.Percentiles != nil {
			c.Percentiles = append(gostatsd.Percentiles{}, c.Percentiles...)
		}
		if c.Histogram != nil {
			h := map[gostatsd.HistogramThreshold]int{}
			for a, b := range c.Histogram {
				h[a] = b
			}
			c.Histogram = h
		}
		if out.Timers[n] == nil {
			out.Timers[n] = map[string]gostatsd.Timer{}
		}
		out.Timers[n][k] = c
	})
	mm.Sets.Each(func(n, k string, c gostatsd.Set) {
		c.Tags = c.Tags.Copy()
		v := make(map[string]struct{}, len(c.Values))
		for m := range c.Values {
			v[m] = struct{}{}
		}
		c.Values = v
		if out.Sets[n] == nil {
			out.Sets[n] = map[string]gostatsd.Set{}
		}
		out.Sets[n][k] = c
	})
	return out
}

// DescribeMetric renders a datapoint for samples / canonical encodings.
func DescribeMetric(m *gostatsd.Metric) string {
	tags := append([]string(nil), m.Tags...)
	v := fmt.Sprintf("%v", m.Value)
	if m.Type == gostatsd.SET {
		v = fmt.Sprintf("%q", m.StringValue)
	}
	return fmt.Sprintf("%s:%s|%s|@%v|#%s|src=%s|ts=%d", m.Name, v, m.Type, m.Rate, strings.Join(tags, ","), m.Source, m.Timestamp)
}

func DescribeMetrics(ms []*gostatsd.Metric) []string {
	out := make([]string, len(ms))
	for i, m := range ms {
		out[i] = DescribeMetric(m)
	}
	return out
}

// DescribeMap renders a metric map canonically.
func DescribeMap(mm *gostatsd.MetricMap) []string {
	var out []string
	mm.Counters.Each(func(n, k string, c gostatsd.Counter) {
		out = append(out, fmt.Sprintf("counter %q key=%q v=%d tags=%q src=%q ts=%d", n, k, c.Value, []string(c.Tags), c.Source, c.Timestamp))
	})
	mm.Gauges.Each(func(n, k string, c gostatsd.Gauge) {
		out = append(out, fmt.Sprintf("gauge %q key=%q v=%v tags=%q src=%q ts=%d", n, k, c.Value, []string(c.Tags), c.Source, c.Timestamp))
	})
	mm.Timers.Each(func(n, k string, c gostatsd.Timer) {
		out = append(out, fmt.Sprintf("timer %q key=%q v=%v sc=%v tags=%q src=%q ts=%d", n, k, c.Values, c.SampledCount, []string(c.Tags), c.Source, c.Timestamp))
	})
	mm.Sets.Each(func(n, k string, c gostatsd.Set) {
		ms := make([]string, 0, len(c.Values))
		for m := range c.Values {
			ms = append(ms, m)
		}
		sort.Strings(ms)
		out = append(out, fmt.Sprintf("set %q key=%q v=%q tags=%q src=%q ts=%d", n, k, ms, []string(c.Tags), c.Source, c.Timestamp))
	})
	sort.Strings(out)
	return out
}

// SeriesID is a drawn series identity used to make datapoints collide on purpose.
type SeriesID struct {
	Type   gostatsd.MetricType
	Name   string
	Tags   []string
	Source string
}

// SeriesPool draws n series identities (types, names, tags, sources from the small pools).
func SeriesPool(min, max int) *rapid.Generator[[]SeriesID] {
	return rapid.SliceOfN(rapid.Custom(func(t *rapid.T) SeriesID {
		return SeriesID{
			Type:   rapid.SampledFrom(Types).Draw(t, "type"),
			Name:   NameGen().Draw(t, "name"),
			Tags:   TagsGen(3).Draw(t, "tags"),
			Source: SourceGen().Draw(t, "source"),
		}
	}), min, max)
}

// DatapointFrom draws a datapoint that belongs to one of the pool's series with probability ~3/4
// and is unconstrained otherwise.
func DatapointFrom(pool []SeriesID, tsGen *rapid.Generator[int64]) *rapid.Generator[*gostatsd.Metric] {
	return rapid.Custom(func(t *rapid.T) *gostatsd.Metric {
		if len(pool) == 0 || rapid.IntRange(0, 3).Draw(t, "free") == 0 {
			return Datapoint(tsGen).Draw(t, "dp")
		}
		s := rapid.SampledFrom(pool).Draw(t, "series")
		m := &gostatsd.Metric{Type: s.Type, Name: s.Name, Tags: gostatsd.Tags(append([]string(nil), s.Tags...)), Source: gostatsd.Source(s.Source),
			Rate: 1, Timestamp: gostatsd.Nanotime(tsGen.Draw(t, "ts"))}
		if s.Tags == nil {
			m.Tags = nil
		}
		switch m.Type {
		case gostatsd.SET:
			m.StringValue = rapid.SampledFrom([]string{"u1", "u2", "u3", "", "joe", "u:4"}).Draw(t, "member")
		case gostatsd.GAUGE:
			m.Value = FiniteValue().Draw(t, "value")
		default:
			m.Value = FiniteValue().Draw(t, "value")
			m.Rate = RateGen().Draw(t, "rate")
		}
		return m
	})
}

// CopyMapSpare is CopyMap with tag slices that have spare capacity, as slices grown by append usually do (the tags of
// a parsed metric live in such slices): code that appends to a series' tags without copying then shows.
func CopyMapSpare(mm *gostatsd.MetricMap) *gostatsd.MetricMap {
	out := CopyMap(mm)
	spare := func(t gostatsd.Tags) gostatsd.Tags {
		if t == nil {
			return nil
		}
		s := make(gostatsd.Tags, len(t), len(t)+3)
		copy(s, t)
		return s
	}
	for n, byKey := range out.Counters {
		for k, v := range byKey {
			v.Tags = spare(v.Tags)
			out.Counters[n][k] = v
		}
	}
	for n, byKey := range out.Gauges {
		for k, v := range byKey {
			v.Tags = spare(v.Tags)
			out.Gauges[n][k] = v
		}
	}
	for n, byKey := range out.Timers {
		for k, v := range byKey {
			v.Tags = spare(v.Tags)
			out.Timers[n][k] = v
		}
	}
	for n, byKey := range out.Sets {
		for k, v := range byKey {
			v.Tags = spare(v.Tags)
			out.Sets[n][k] = v
		}
	}
	return out
}
