package gen

import (
	"fmt"
	"math"
	"strconv"
	"strings"

	"github.com/atlassian/gostatsd"
	"pgregory.net/rapid"
)

// NormalizeName is the documented name normalisation: '/' -> '-', blank -> '_', everything else
// outside [A-Za-z0-9._-] removed.
func NormalizeName(raw string) string {
	var b strings.Builder
	for i := 0; i < len(raw); i++ {
		c := raw[i]
		switch {
		case c == '/':
			b.WriteByte('-')
		case c == ' ' || c == '\t':
			b.WriteByte('_')
		case c == '.' || c == '-' || c == '_' || (c >= 'a' && c <= 'z') || (c >= 'A' && c <= 'Z') || (c >= '0' && c <= '9'):
			b.WriteByte(c)
		}
	}
	return b.String()
}

// LineSpec is a generated metric line together with the fields it must parse to.
type LineSpec struct {
	RawName  string
	Name     string // normalised, without namespace
	ValueStr string
	Value    float64
	TypeStr  string
	Type     gostatsd.MetricType
	HasRate  bool
	RateStr  string
	Rate     float64
	Tags     []string // expected tags in order
	Fields   []string // optional fields as rendered, in order
	Line     string
	Opt      int  // number of optional fields
	Normal   bool // name needed normalisation
}

var nameAlphabet = []byte("abcdefghijklmnopqrstuvwxyzABCDEFGHIJKLMNOPQRSTUVWXYZ0123456789._-")
var nameOdd = []string{"/", " ", "\t", "$", ",", "#", "@", "\xc3\xa9", "\xff", "\x80", "(", "=", "\r", "\x01", "\\"}

// RawName draws a bucket name; with probability ~1/3 it contains characters needing normalisation.
// Never starts with '_' and never contains ':', '|', newline or NUL.
func RawName() *rapid.Generator[string] {
	return rapid.Custom(func(t *rapid.T) string {
		n := rapid.IntRange(1, 12).Draw(t, "len")
		odd := rapid.IntRange(0, 2).Draw(t, "oddname") == 0
		var b strings.Builder
		for i := 0; i < n; i++ {
			if odd && rapid.IntRange(0, 3).Draw(t, "o") == 0 {
				b.WriteString(rapid.SampledFrom(nameOdd).Draw(t, "oc"))
			} else {
				b.WriteByte(rapid.SampledFrom(nameAlphabet).Draw(t, "c"))
			}
		}
		s := b.String()
		if s[0] == '_' {
			s = "u" + s[1:]
		}
		switch rapid.IntRange(0, 11).Draw(t, "shape") {
		case 0: // a name that already starts with what a configured namespace would put in front
			s = rapid.SampledFrom([]string{"ns.", "a.b.", "ns", "a.b", "stats."}).Draw(t, "nsprefix") + s
		case 1: // a long name (around any fixed-size scratch buffer an implementation may use)
			n := rapid.SampledFrom([]int{60, 100, 118, 124, 125, 126, 127, 128, 129, 140, 255, 256, 300}).Draw(t, "longlen")
			for len(s) < n {
				s += "." + s
			}
			s = s[:n]
		}
		return s
	})
}

var numberPool = []string{"0", "1", "-1", "+5", "10", "3.25", "-0", ".5", "5.", "1e3", "1E-2", "-2.5e+2", "123456789", "0.000001",
	"1e308", "-1e308", "4.9e-324", "inf", "-Inf", "+Inf", "Infinity", "-infinity", "0x1p4", "0x_1p-2", "1e400", "9007199254740993", "00012", "1_0"}

// NumberString draws the textual value of a metric (anything strconv.ParseFloat may or may not accept is decided by ParseFloat itself).
func NumberString() *rapid.Generator[string] {
	return rapid.OneOf(
		rapid.SampledFrom(numberPool),
		rapid.Custom(func(t *rapid.T) string { return strconv.Itoa(rapid.IntRange(-1000, 100000).Draw(t, "int")) }),
		rapid.Custom(func(t *rapid.T) string {
			return strconv.FormatFloat(rapid.Float64Range(-1e6, 1e6).Draw(t, "f"), byte(rapid.SampledFrom([]rune{'f', 'g', 'e'}).Draw(t, "fmt")), rapid.IntRange(-1, 6).Draw(t, "prec"), 64)
		}),
		// long decimal spellings: up to 30 significant digits, optional sign, point and exponent, so that the
		// correctly rounded float64 differs from what naive digit accumulation gives (> 2^53, ties, many digits)
		rapid.Custom(func(t *rapid.T) string {
			n := rapid.IntRange(1, 30).Draw(t, "ndigits")
			var b strings.Builder
			b.WriteString(rapid.SampledFrom([]string{"", "", "", "-", "+"}).Draw(t, "sign"))
			point := rapid.IntRange(-1, n).Draw(t, "point") // -1 or n: no point inside
			for i := 0; i < n; i++ {
				if i == point && i > 0 {
					b.WriteByte('.')
				}
				lo := 0
				if i == 0 {
					lo = 1
				}
				b.WriteByte(byte('0' + rapid.IntRange(lo, 9).Draw(t, "d")))
			}
			if rapid.IntRange(0, 3).Draw(t, "exp") == 0 {
				b.WriteString("e" + strconv.Itoa(rapid.IntRange(-30, 30).Draw(t, "e")))
			}
			return b.String()
		}),
		// any finite or non-finite float64 in its shortest round-trip spelling
		rapid.Custom(func(t *rapid.T) string {
			return strconv.FormatFloat(rapid.Float64().Draw(t, "anyf"), 'g', -1, 64)
		}),
	)
}

var ratePool = []string{"1", "0.5", "0.25", "0.1", "1.0", ".3", "1e-1", "0.001", "5e-1", "0.999", "1e-9", "2", "10", "1e-18", "1e-19", "1e-20", "1e-300", "4.9e-324", "0.00000000000000000000001"}

var tagAlphabet = []string{"a", "b", "k", "v", "1", "9", ":", ".", "-", "_", "/", "#", "@", "=", " ", "\xc3\xa9", "\xff", "A", "Z", "host", "env", "s", "\r", "\t"}

// TagString draws a non-empty tag without ',', '|', newline or NUL.
func TagString() *rapid.Generator[string] {
	return rapid.Custom(func(t *rapid.T) string {
		n := rapid.IntRange(1, 6).Draw(t, "taglen")
		var b strings.Builder
		for i := 0; i < n; i++ {
			b.WriteString(rapid.SampledFrom(tagAlphabet).Draw(t, "tc"))
		}
		return b.String()
	})
}

// tagsField renders a '#' field; empty items (",,") may be interleaved and must be skipped by the parser.
func tagsField(t *rapid.T) (string, []string) {
	n := rapid.IntRange(0, 5).Draw(t, "ntags")
	var items, want []string
	for i := 0; i < n; i++ {
		if rapid.IntRange(0, 7).Draw(t, "emptyitem") == 0 {
			items = append(items, "")
			continue
		}
		s := TagString().Draw(t, "tag")
		items = append(items, s)
		want = append(want, s)
	}
	return "#" + strings.Join(items, ","), want
}

var unknownFields = []string{"c:xyz", "x:", "T1656581400", ":", "c::,#@", "e:abc", "x", "!", "c:"}
var setValues = []string{"joe", "", "a:b", "42", "u\xc3\xa9", "x y", "#", "@0.1", "nan"}

var typeTable = []struct {
	s string
	t gostatsd.MetricType
}{{"c", gostatsd.COUNTER}, {"g", gostatsd.GAUGE}, {"ms", gostatsd.TIMER}, {"h", gostatsd.TIMER}, {"s", gostatsd.SET}}

// Line draws a line of the documented grammar: name:value|type[|@rate][|#tags][|unknown...] with the
// optional fields in a drawn order, each at most once (unknown fields up to twice), never empty.
func Line() *rapid.Generator[LineSpec] {
	return rapid.Custom(func(t *rapid.T) LineSpec {
		var s LineSpec
		s.RawName = RawName().Draw(t, "name")
		s.Name = NormalizeName(s.RawName)
		s.Normal = s.Name != s.RawName
		ty := rapid.SampledFrom(typeTable).Draw(t, "type")
		s.TypeStr, s.Type = ty.s, ty.t
		if s.Type == gostatsd.SET {
			s.ValueStr = rapid.SampledFrom(setValues).Draw(t, "member")
		} else {
			s.ValueStr = NumberString().Draw(t, "value")
			v, err := strconv.ParseFloat(s.ValueStr, 64)
			if err == nil {
				s.Value = v
			}
		}
		s.Rate = 1
		kinds := rapid.SliceOfNDistinct(rapid.IntRange(0, 3), 0, 4, rapid.ID[int]).Draw(t, "fieldkinds")
		for _, k := range kinds {
			switch k {
			case 0:
				s.HasRate = true
				s.RateStr = rapid.SampledFrom(ratePool).Draw(t, "rate")
				s.Rate, _ = strconv.ParseFloat(s.RateStr, 64)
				s.Fields = append(s.Fields, "@"+s.RateStr)
			case 1:
				f, want := tagsField(t)
				s.Tags = want
				s.Fields = append(s.Fields, f)
			default:
				s.Fields = append(s.Fields, rapid.SampledFrom(unknownFields).Draw(t, "unknown"))
			}
		}
		s.Opt = len(s.Fields)
		s.Line = s.RawName + ":" + s.ValueStr + "|" + s.TypeStr
		for _, f := range s.Fields {
			s.Line += "|" + f
		}
		return s
	})
}

// EventSpec is a generated event line and the fields it must parse to.
type EventSpec struct {
	Line  string
	Event gostatsd.Event // expected (Source = h: value as the lexer reports it; DateHappened 0 when absent)
	Opt   int
}

var textPieces = []string{"a", "b", "hello", " ", ",", "|", "||", ":", "\\n", "\\", "n", "\xc3\xa9", "#", "_", "{", "}", "x:y", "\t", "é|d:1"}

func eventText(label string, min int) *rapid.Generator[string] {
	return rapid.Custom(func(t *rapid.T) string {
		n := rapid.IntRange(min, 6).Draw(t, label+"len")
		var b strings.Builder
		for i := 0; i < n; i++ {
			b.WriteString(rapid.SampledFrom(textPieces).Draw(t, label))
		}
		return b.String()
	})
}

var attrValue = []string{"x", "host-1", "agg key", "a:b", "", "\xc3\xa9", "my.app", "1.2.3.4", "#", "@"}

// Event draws an event line of the documented grammar.
func Event() *rapid.Generator[EventSpec] {
	return rapid.Custom(func(t *rapid.T) EventSpec {
		var s EventSpec
		title := eventText("title", 1).Draw(t, "titlev")
		text := eventText("text", 1).Draw(t, "textv")
		s.Event.Title = title
		s.Event.Text = strings.ReplaceAll(text, "\\n", "\n")
		line := fmt.Sprintf("_e{%d,%d}:%s|%s", len(title), len(text), title, text)
		kinds := rapid.SliceOfNDistinct(rapid.IntRange(0, 8), 0, 8, rapid.ID[int]).Draw(t, "attrkinds")
		for _, k := range kinds {
			switch k {
			case 0:
				d := rapid.OneOf(rapid.Int64Range(1, 4102444800), rapid.SampledFrom([]int64{1, 1463746133, 9223372036854775807})).Draw(t, "date")
				s.Event.DateHappened = d
				line += fmt.Sprintf("|d:%d", d)
			case 1:
				v := rapid.SampledFrom(attrValue).Draw(t, "host")
				s.Event.Source = gostatsd.Source(v)
				line += "|h:" + v
			case 2:
				v := rapid.SampledFrom(attrValue).Draw(t, "aggkey")
				s.Event.AggregationKey = v
				line += "|k:" + v
			case 3:
				if rapid.Bool().Draw(t, "low") {
					s.Event.Priority = gostatsd.PriLow
					line += "|p:low"
				} else {
					line += "|p:normal"
				}
			case 4:
				v := rapid.SampledFrom(attrValue).Draw(t, "sourcetype")
				s.Event.SourceTypeName = v
				line += "|s:" + v
			case 5:
				a := rapid.SampledFrom([]gostatsd.AlertType{gostatsd.AlertInfo, gostatsd.AlertWarning, gostatsd.AlertError, gostatsd.AlertSuccess}).Draw(t, "alert")
				s.Event.AlertType = a
				line += "|t:" + a.String()
			case 6:
				f, want := tagsField(t)
				s.Event.Tags = want
				line += "|" + f
			default:
				line += "|" + rapid.SampledFrom([]string{"c:xyz", "x:unk", "z", "m:1"}).Draw(t, "unknownattr")
			}
		}
		s.Opt = len(kinds)
		s.Line = line
		return s
	})
}

// Accepted says whether the documented grammar requires this generated line to be accepted:
// the value parses (non-set types, not NaN), the rate (if any) is finite and > 0, the name does not normalise to nothing.
func (s LineSpec) Accepted() bool {
	if s.Name == "" {
		return false
	}
	if s.HasRate && !(s.Rate > 0 && !math.IsInf(s.Rate, 0)) {
		return false
	}
	if s.Type != gostatsd.SET {
		v, err := strconv.ParseFloat(s.ValueStr, 64)
		if err != nil || math.IsNaN(v) {
			return false
		}
	}
	return true
}
