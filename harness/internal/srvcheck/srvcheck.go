// Package srvcheck drives a whole standalone statsd.Server - assembled from its settings the way the gostatsd command
// assembles it (receiver -> parser -> cloud stage -> tag stage -> sharded aggregators -> flusher -> backend) - with
// generated settings and traffic, and compares what the backend receives with a model of the stages. The property
// packages call it with their own signature prefix: the wiring between the stages is where settings such as
// ignore-host, default tags, a cloud provider, the number of workers or internal events reach the code the per-stage
// harnesses build by hand.
package srvcheck

import (
	"bytes"
	"fmt"
	"io"
	"net"
	"net/http"
	"sort"
	"strings"
	"time"

	"github.com/atlassian/gostatsd/pb"
	"google.golang.org/protobuf/proto"

	"github.com/atlassian/gostatsd"
	"github.com/atlassian/gostatsd/pkg/statsd"
	"pgregory.net/rapid"

	"verifharness/internal/ev"
	"verifharness/internal/model"
	"verifharness/internal/rig"
	"verifharness/internal/vt"
)

var instances = map[gostatsd.Source]*gostatsd.Instance{
	"127.0.0.1": {ID: "i-local", Tags: gostatsd.Tags{"region:us", "role:web"}},
	"10.1.2.3":  {ID: "i-0123", Tags: gostatsd.Tags{"region:eu"}},
	"10.9.9.9":  nil, // known to be unknown
}

type settings struct {
	ignoreHost  bool
	provider    string // "none", "fast", "slow"
	defaultTags []string
	workers     int
	parsers     int
	queue       int
	namespace   string
	filter      string // "none", "drop-tags", "drop-host", "drop-metric", "drop-region-m0"
	batch       int
	heartbeat   bool
}

func (s settings) String() string {
	return fmt.Sprintf("ignore-host=%v cloud-provider=%s default-tags=%q max-workers=%d max-parsers=%d max-queue-size=%d namespace=%q filter=%s receive-batch-size=%d heartbeat=%v", s.ignoreHost, s.provider, s.defaultTags, s.workers, s.parsers, s.queue, s.namespace, s.filter, s.batch, s.heartbeat)
}

// prefix is what the namespace puts in front of every metric name.
func (s settings) prefix() string {
	if s.namespace == "" {
		return ""
	}
	return s.namespace + "."
}

// identity computes what a datapoint (of series number i) or an event with these tags from the rig's sender becomes after
// parser, cloud stage and tag stage; dropped says the configured filter removes the metric.
func (s settings) identity(i int, tags []string, event bool) (out []string, src string, dropped bool) {
	src = "127.0.0.1"
	tg := append([]string(nil), tags...)
	if s.ignoreHost && !event {
		src = ""
		for j, x := range tg {
			if strings.HasPrefix(x, "host:") {
				src = x[5:]
				tg = append(tg[:j], tg[j+1:]...)
				break
			}
		}
	}
	if s.provider != "none" && src != "" {
		if in := instances[gostatsd.Source(src)]; in != nil {
			tg = append(tg, in.Tags...)
			src = string(in.ID)
		}
	}
	all := append(tg, s.defaultTags...)
	if !event { // filters are a clean-up of metrics (FILTERING.md); events pass
		switch s.filter {
		case "drop-tags": // every metric: tags k:* go
			var kept []string
			for _, x := range all {
				if !strings.HasPrefix(x, "k:") {
					kept = append(kept, x)
				}
			}
			all = kept
		case "drop-region-m0": // metric m0 only: tags region:* go (also a default tag, when the metric carries the same tag)
			if i == 0 {
				drop := map[string]bool{}
				for _, x := range tg {
					if strings.HasPrefix(x, "region:") {
						drop[x] = true
					}
				}
				var kept []string
				for _, x := range all {
					if !drop[x] {
						kept = append(kept, x)
					}
				}
				all = kept
			}
		case "drop-host": // metric m0 only
			if i == 0 {
				src = ""
			}
		case "drop-metric": // metric m1 only
			if i == 1 {
				return nil, "", true
			}
		}
	}
	seen := map[string]bool{}
	for _, x := range all {
		if !seen[x] {
			seen[x] = true
			out = append(out, x)
		}
	}
	return out, src, false
}

// Run is one generated case. prop is the property id used in failure signatures.
func Run(t *rapid.T, prop string) {
	s := settings{
		ignoreHost:  rapid.Bool().Draw(t, "ignore-host"),
		provider:    rapid.SampledFrom([]string{"none", "fast", "fast", "slow"}).Draw(t, "cloud-provider"),
		defaultTags: rapid.SampledFrom([][]string{nil, nil, {"env:x"}, {"region:us"}, {"region:us", "env:x"}}).Draw(t, "default-tags"),
		workers:     rapid.IntRange(1, 5).Draw(t, "max-workers"),
		parsers:     rapid.IntRange(1, 3).Draw(t, "max-parsers"),
		queue:       rapid.SampledFrom([]int{1, 10, 100}).Draw(t, "max-queue-size"),
		namespace:   rapid.SampledFrom([]string{"", "", "ns"}).Draw(t, "namespace"),
		filter:      rapid.SampledFrom([]string{"none", "none", "drop-tags", "drop-host", "drop-metric", "drop-region-m0", "drop-region-m0"}).Draw(t, "filter"),
		batch:       rapid.SampledFrom([]int{1, 8}).Draw(t, "receive-batch-size"),
		heartbeat:   rapid.Bool().Draw(t, "heartbeat"),
	}
	internalStatser := rapid.Bool().Draw(t, "internal-statser")
	disableInternalEvents := rapid.Bool().Draw(t, "disable-internal-events")
	var auto *rig.AutoInstances
	cfg := rig.ServerConfig{Settings: map[string]interface{}{}, Tune: func(srv *statsd.Server) {
		srv.IgnoreHost, srv.DefaultTags, srv.MaxWorkers, srv.MaxParsers, srv.MaxQueueSize = s.ignoreHost, gostatsd.Tags(append([]string(nil), s.defaultTags...)), s.workers, s.parsers, s.queue
		srv.Namespace, srv.ReceiveBatchSize, srv.HeartbeatEnabled = s.namespace, s.batch, s.heartbeat
		srv.ExpiryIntervalTimer = time.Hour // a timer stays (idle: no values) in every flush after the one that carried its data
		srv.DisableInternalEvents = disableInternalEvents
		if internalStatser {
			srv.StatserType = gostatsd.StatserInternal
			srv.InternalNamespace = "statsd"
		}
	}}
	switch s.filter {
	case "drop-tags":
		cfg.Settings["filters"] = []string{"f"}
		cfg.Settings["filter"] = map[string]interface{}{"f": map[string]interface{}{"drop-tags": []string{"k:*"}}}
	case "drop-region-m0":
		cfg.Settings["filters"] = []string{"f"}
		cfg.Settings["filter"] = map[string]interface{}{"f": map[string]interface{}{"match-metrics": []string{s.prefix() + "m0"}, "drop-tags": []string{"region:*"}}}
	case "drop-host":
		cfg.Settings["filters"] = []string{"f"}
		cfg.Settings["filter"] = map[string]interface{}{"f": map[string]interface{}{"match-metrics": []string{s.prefix() + "m0"}, "drop-host": true}}
	case "drop-metric":
		cfg.Settings["filters"] = []string{"f"}
		cfg.Settings["filter"] = map[string]interface{}{"f": map[string]interface{}{"match-metrics": []string{s.prefix() + "m1"}, "drop-metric": true}}
	}
	ingestAddr := ""
	if rapid.Bool().Draw(t, "http-ingestion") {
		if l, err := net.Listen("tcp", "127.0.0.1:0"); err == nil {
			ingestAddr = l.Addr().String()
			l.Close()
			cfg.Settings["http-servers"] = []string{"ingest"}
			cfg.Settings["http"] = map[string]interface{}{"ingest": map[string]interface{}{"address": ingestAddr, "enable-ingestion": true, "enable-healthcheck": false}}
		}
	}
	if s.provider != "none" {
		delay := time.Duration(0)
		if s.provider == "slow" {
			delay = 60 * time.Millisecond
		}
		auto = rig.NewAutoInstances(instances, delay)
		defer auto.Close()
		cfg.Instances = auto
	}
	srv, err := rig.StartServer(cfg)
	if err != nil {
		t.Skip("no loopback socket: " + err.Error())
	}
	stopped := false
	defer func() {
		if !stopped {
			srv.Stop()
		}
	}()
	desc := s.String() + fmt.Sprintf(" internal-statser=%v disable-internal-events=%v", internalStatser, disableInternalEvents)
	fail := func(sig, f string, a ...interface{}) {
		vt.Fail(t, prop+":"+sig, "server with %s: %s", desc, fmt.Sprintf(f, a...))
	}

	// traffic: every series is sent in exactly one datagram, as several lines whose tag lists differ only in what the
	// stages remove or add anyway (a repeated tag, a tag the provider adds, a default tag)
	want := model.Agg{}
	var sent []string
	nseries := rapid.IntRange(1, 8).Draw(t, "series")
	variants := [][]string{nil, {"k:v"}, {"k:v", "k:v"}, {"region:us"}, {"env:x"}, {"host:10.1.2.3"}, {"host:10.1.2.3", "k:v"}, {"host:10.9.9.9"}, {"role:web", "region:us"}}
	for i := 0; i < nseries; i++ {
		typ := rapid.SampledFrom([]string{"c", "c", "ms", "s", "g"}).Draw(t, "type")
		name := fmt.Sprintf("m%d", i)
		var lines []string
		for j, k := 0, rapid.IntRange(1, 4).Draw(t, "lines"); j < k; j++ {
			tags := rapid.SampledFrom(variants).Draw(t, "tags")
			v := rapid.IntRange(1, 9).Draw(t, "v")
			val := fmt.Sprint(v)
			if typ == "s" {
				val = fmt.Sprintf("u%d", v)
			}
			line := fmt.Sprintf("%s:%s|%s", name, val, typ)
			if len(tags) > 0 {
				line += "|#" + strings.Join(tags, ",")
			}
			lines = append(lines, line)
			etags, esrc, dropped := s.identity(i, tags, false)
			if dropped {
				continue
			}
			full := s.prefix() + name
			switch typ {
			case "c":
				want.AddCounter(model.MakeKey(gostatsd.COUNTER, full, etags, esrc), int64(v), 1)
			case "ms":
				want.AddTimer(model.MakeKey(gostatsd.TIMER, full, etags, esrc), []float64{float64(v)}, 1, 1)
			case "s":
				want.AddSet(model.MakeKey(gostatsd.SET, full, etags, esrc), map[string]struct{}{val: {}}, 1)
			case "g":
				want.AddGauge(model.MakeKey(gostatsd.GAUGE, full, etags, esrc), float64(v), 1) // lines of one datagram carry one timestamp: any of them may be the one kept when tag lists differ
			}
		}
		d := strings.Join(lines, "\n")
		sent = append(sent, d)
		if err := srv.Send(d); err != nil {
			t.Skip("client socket: " + err.Error())
		}
		time.Sleep(time.Duration(rapid.IntRange(0, 30).Draw(t, "pause-ms")) * time.Millisecond)
	}
	// series handed over by a forwarder: POST /v2/raw. Names, tags and sources arrive as the forwarder's own stages left
	// them (no namespace is applied again); the cloud stage and the tag stage of this server still apply.
	if ingestAddr != "" {
		for i, n := 0, rapid.IntRange(1, 3).Draw(t, "http-series"); i < n; i++ {
			name := fmt.Sprintf("h%d", i)
			tags := rapid.SampledFrom([][]string{nil, {"k:v"}, {"a:b", "region:us"}}).Draw(t, "http-tags")
			host := rapid.SampledFrom([]string{"", "10.1.2.3", "10.9.9.9", "web7"}).Draw(t, "http-hostname")
			v := rapid.IntRange(1, 9).Draw(t, "v")
			msg := &pb.RawMessageV2{}
			// the stages after ingestion, with the posted source instead of the sender's address
			esrc := host
			tg := append([]string(nil), tags...)
			if s.provider != "none" && esrc != "" {
				if in := instances[gostatsd.Source(esrc)]; in != nil {
					tg = append(tg, in.Tags...)
					esrc = string(in.ID)
				}
			}
			all := append(tg, s.defaultTags...)
			if s.filter == "drop-tags" {
				var kept []string
				for _, x := range all {
					if !strings.HasPrefix(x, "k:") {
						kept = append(kept, x)
					}
				}
				all = kept
			}
			seen := map[string]bool{}
			var etags []string
			for _, x := range all {
				if !seen[x] {
					seen[x] = true
					etags = append(etags, x)
				}
			}
			switch rapid.SampledFrom([]string{"c", "ms", "g", "s"}).Draw(t, "http-type") {
			case "c":
				msg.Counters = map[string]*pb.CounterTagV2{name: {TagMap: map[string]*pb.RawCounterV2{"x": {Tags: tags, Hostname: host, Value: int64(v)}}}}
				want.AddCounter(model.MakeKey(gostatsd.COUNTER, name, etags, esrc), int64(v), 1)
			case "ms":
				msg.Timers = map[string]*pb.TimerTagV2{name: {TagMap: map[string]*pb.RawTimerV2{"x": {Tags: tags, Hostname: host, Values: []float64{float64(v)}, SampleCount: 1}}}}
				want.AddTimer(model.MakeKey(gostatsd.TIMER, name, etags, esrc), []float64{float64(v)}, 1, 1)
			case "g":
				msg.Gauges = map[string]*pb.GaugeTagV2{name: {TagMap: map[string]*pb.RawGaugeV2{"x": {Tags: tags, Hostname: host, Value: float64(v)}}}}
				want.AddGauge(model.MakeKey(gostatsd.GAUGE, name, etags, esrc), float64(v), 1)
			default:
				msg.Sets = map[string]*pb.SetTagV2{name: {TagMap: map[string]*pb.RawSetV2{"x": {Tags: tags, Hostname: host, Values: []string{fmt.Sprintf("u%d", v)}}}}}
				want.AddSet(model.MakeKey(gostatsd.SET, name, etags, esrc), map[string]struct{}{fmt.Sprintf("u%d", v): {}}, 1)
			}
			body, _ := proto.Marshal(msg)
			posted := false
			for d := time.Now().Add(20 * time.Second); time.Now().Before(d) && !posted; time.Sleep(5 * time.Millisecond) {
				resp, err := http.Post("http://"+ingestAddr+"/v2/raw", "application/x-protobuf", bytes.NewReader(body))
				if err == nil {
					io.Copy(io.Discard, resp.Body)
					resp.Body.Close()
					posted = resp.StatusCode == 202
				}
			}
			if !posted {
				ev.C().Excluded("http-ingestion-not-serving", 1)
				t.Skip("the ingestion endpoint did not accept the post")
			}
			sent = append(sent, fmt.Sprintf("POST /v2/raw %s tags=%q hostname=%q", name, tags, host))
		}
	}
	// events
	var wantEvents []string
	nev := rapid.IntRange(0, 3).Draw(t, "events")
	for i := 0; i < nev; i++ {
		tags := rapid.SampledFrom(variants).Draw(t, "event-tags")
		line := fmt.Sprintf("_e{2,%d}:ev|t%d", len(fmt.Sprint(i))+1, i)
		if len(tags) > 0 {
			line += "|#" + strings.Join(tags, ",")
		}
		sent = append(sent, line)
		srv.Send(line)
		etags, esrc, _ := s.identity(-1, tags, true)
		sort.Strings(etags)
		wantEvents = append(wantEvents, fmt.Sprintf("t%d src=%s tags=%q", i, esrc, etags))
	}
	if !srv.Barrier(30 * time.Second) {
		if err := srv.Stop(); err != nil && !strings.Contains(err.Error(), "context canceled") {
			stopped = true
			fail("server-stopped", "stopped or never flushed: %v; sent %q", err, sent)
		}
		stopped = true
		ev.C().Excluded("server-did-not-flush-within-30s", 1)
		t.Skip("no flush within 30s")
	}
	got := srv.Total()
	for k := range got {
		if !isOurs(k.Name, s.prefix()) && !strings.HasPrefix(k.Name, s.prefix()+"statsd.") && !strings.HasPrefix(k.Name, "statsd.") && !strings.Contains(k.Name, "heartbeat") {
			fail("server-aggregate", "the backend was flushed a series nobody sent: %v; sent %q", k, sent)
		}
		if !isOurs(k.Name, s.prefix()) {
			delete(got, k) // internal metrics, heartbeat
		}
	}
	// gauges: several lines of one datagram, the last one wins; the model's SetGaugeLast follows the same order
	if d := model.Diff(got, want, model.Opts{IgnoreTimestamps: true}); d != "" {
		httpMissing := false
		for k := range want {
			if _, ok := got[k]; !ok && len(k.Name) == 2 && k.Name[0] == 'h' {
				httpMissing = true // its POST was answered 202: it cannot have been lost on the way
			}
		}
		if !httpMissing && lostOnly(got, want) {
			ev.C().Excluded("datagram-lost-on-loopback", 1)
			t.Skip("a datagram did not arrive")
		}
		time.Sleep(1500 * time.Millisecond)
		late := srv.Total()
		lateDiff := model.Diff(late, want, model.Opts{IgnoreTimestamps: true})
		lk := 0
		if auto != nil {
			lk = auto.LookupCount()
		}
		fail("server-aggregate", "what the backend was flushed differs from what the stages should make of the traffic: %s; sent %q [debug: lookups=%d; 1.5s later the difference is %q]", d, sent, lk, lateDiff)
	}
	// every flush hands the backend one map per worker, in order: within one flush a series is reported by one worker only
	type at struct {
		flush int
		k     model.Key
	}
	where := map[at]int{}
	for i, mm := range srv.Flushes() {
		if dup := model.DupKeys(mm); len(dup) > 0 {
			fail("series-under-two-keys", "a flushed map holds a series under two keys: %v; sent %q", dup, sent)
		}
		for k := range model.FromMap(mm) {
			if !isOurs(k.Name, s.prefix()) {
				continue
			}
			where[at{i / s.workers, k}]++
		}
	}
	for a, n := range where {
		if n > 1 {
			fail("series-reported-by-two-workers", "series %v was reported by %d workers in one flush (flush %d); sent %q", a.k, n, a.flush, sent)
		}
	}
	// a timer's expiry is an hour here: once reported it is in every later flush, idle or not
	flushes := srv.Flushes()
	ticks := len(flushes) / s.workers
	firstSeen := map[model.Key]int{}
	present := map[at]bool{}
	for i, mm := range flushes[:ticks*s.workers] {
		mm.Timers.Each(func(n, _ string, tm gostatsd.Timer) {
			if !isOurs(n, s.prefix()) {
				return
			}
			k := model.MakeKey(gostatsd.TIMER, n, tm.Tags, string(tm.Source))
			if _, ok := firstSeen[k]; !ok {
				firstSeen[k] = i / s.workers
			}
			present[at{i / s.workers, k}] = true
		})
	}
	for k, f := range firstSeen {
		for tk := f + 1; tk < ticks; tk++ {
			if !present[at{tk, k}] {
				fail("timer-gone-before-expiry", "timer %v was reported in flush %d and is missing from flush %d of %d although expiry-interval-timer is 1h; sent %q", k, f, tk, ticks, sent)
			}
		}
	}
	// events reach the backend with their fields
	deadline := time.Now().Add(30 * time.Second)
	var gotEvents []string
	for {
		gotEvents = gotEvents[:0]
		for _, e := range srv.Events() {
			if e.Title != "ev" {
				continue
			}
			tg := append([]string(nil), e.Tags...)
			sort.Strings(tg)
			gotEvents = append(gotEvents, fmt.Sprintf("%s src=%s tags=%q", e.Text, e.Source, tg))
		}
		if len(gotEvents) >= len(wantEvents) || time.Now().After(deadline) {
			break
		}
		time.Sleep(2 * time.Millisecond)
	}
	sort.Strings(gotEvents)
	sort.Strings(wantEvents)
	if strings.Join(gotEvents, "\n") != strings.Join(wantEvents, "\n") {
		if len(gotEvents) < len(wantEvents) && subset(gotEvents, wantEvents) && !internalStatser {
			ev.C().Excluded("datagram-lost-on-loopback", 1)
			t.Skip("an event's datagram did not arrive")
		}
		fail("server-events", "events at the backend %q, expected %q; sent %q", gotEvents, wantEvents, sent)
	}
	// shutdown: an event accepted just before the stop - its sender's lookup still pending when the provider is slow - has
	// been handed to the backend when Run returns (with the internal statser, whose stop waits for events; the null
	// statser does not wait, by design of that type)
	lateHeld := false
	if internalStatser && rapid.Bool().Draw(t, "event-in-flight-at-stop") {
		gate := make(chan struct{})
		srv.Backend.SetEventGate(gate)
		srv.Send("_e{4,4}:late|late")
		for d := time.Now().Add(5 * time.Second); time.Now().Before(d) && srv.Backend.EventsInFlight() == 0; {
			time.Sleep(200 * time.Microsecond)
		}
		lateHeld = srv.Backend.EventsInFlight() > 0 // else its datagram was lost
		time.AfterFunc(80*time.Millisecond, func() { close(gate) })
	}
	stopped = true
	if err := srv.Stop(); err != nil && !strings.Contains(err.Error(), "context canceled") {
		fail("run-does-not-return", "%v", err)
	}
	if lateHeld {
		found := false
		for _, e := range srv.Events() {
			found = found || e.Title == "late"
		}
		if !found {
			fail("stopped-before-event-delivered", "an event had been accepted and was being handed to the backend when the server was told to stop; Run returned before the backend had it; sent %q", sent)
		}
	}
	labels := []string{"whole-server", "provider=" + s.provider, fmt.Sprintf("ignore-host=%v", s.ignoreHost)}
	ev.C().Case(fmt.Sprintf("W|%s|%q", desc, sent), s.provider != "none" && s.workers >= 2, labels...)
	if ev.C().WantSample() {
		ev.C().Sample(map[string]interface{}{"server": desc, "datagrams": sent})
	}
}

// isOurs: the name is one of the generated series m<digit> (under the namespace), not an internal metric or a sentinel.
func isOurs(name, prefix string) bool {
	if len(name) == 2 && name[0] == 'h' && name[1] >= '0' && name[1] <= '9' {
		return true // handed over through HTTP ingestion: no namespace
	}
	if !strings.HasPrefix(name, prefix+"m") {
		return false
	}
	rest := name[len(prefix)+1:]
	return len(rest) == 1 && rest[0] >= '0' && rest[0] <= '9'
}

func lostOnly(got, want model.Agg) bool {
	// whole datagrams missing: every series present is complete and as expected
	sub := model.Agg{}
	for k := range got {
		w, ok := want[k]
		if !ok {
			return false
		}
		sub[k] = w
	}
	return len(got) < len(want) && model.Diff(got, sub, model.Opts{IgnoreTimestamps: true}) == ""
}

func subset(a, b []string) bool {
	m := map[string]int{}
	for _, x := range b {
		m[x]++
	}
	for _, x := range a {
		if m[x] == 0 {
			return false
		}
		m[x]--
	}
	return true
}
