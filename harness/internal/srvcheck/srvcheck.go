// Package srvcheck drives a whole standalone statsd.Server - assembled from its settings the way the gostatsd command
// assembles it (receiver -> parser -> cloud stage -> tag stage -> sharded aggregators -> flusher -> backend) - with
// generated settings and traffic, and compares what the backend receives with a model of the stages. The property
// packages call it with their own signature prefix: the wiring between the stages is where settings such as
// ignore-host, default tags, a cloud provider, the number of workers or internal events reach the code the per-stage
// harnesses build by hand.
package srvcheck

import (
	"fmt"
	"sort"
	"strings"
	"time"

	"github.com/atlassian/gostatsd"
	"github.com/atlassian/gostatsd/pkg/statsd"
	"pgregory.net/rapid"

	"verifharness/internal/ev"
	"verifharness/internal/model"
	"verifharness/internal/rig"
	"verifharness/internal/vt"
)

var instances = map[gostatsd.Source]*gostatsd.Instance{
	"127.0.0.1": {ID: "i-local", Tags: gostatsd.Tags{"region:us", "role:web"}},
	"10.1.2.3":  {ID: "i-0123", Tags: gostatsd.Tags{"region:eu"}},
	"10.9.9.9":  nil, // known to be unknown
}

type settings struct {
	ignoreHost  bool
	provider    string // "none", "fast", "slow"
	defaultTags []string
	workers     int
	parsers     int
	queue       int
	namespace   string
	filter      string // "none", "drop-tags", "drop-host", "drop-metric"
	batch       int
	heartbeat   bool
}

func (s settings) String() string {
	return fmt.Sprintf("ignore-host=%v cloud-provider=%s default-tags=%q max-workers=%d max-parsers=%d max-queue-size=%d namespace=%q filter=%s receive-batch-size=%d heartbeat=%v", s.ignoreHost, s.provider, s.defaultTags, s.workers, s.parsers, s.queue, s.namespace, s.filter, s.batch, s.heartbeat)
}

// prefix is what the namespace puts in front of every metric name.
func (s settings) prefix() string {
	if s.namespace == "" {
		return ""
	}
	return s.namespace + "."
}

// identity computes what a datapoint (of series number i) or an event with these tags from the rig's sender becomes after
// parser, cloud stage and tag stage; dropped says the configured filter removes the metric.
func (s settings) identity(i int, tags []string, event bool) (out []string, src string, dropped bool) {
	src = "127.0.0.1"
	tg := append([]string(nil), tags...)
	if s.ignoreHost && !event {
		src = ""
		for j, x := range tg {
			if strings.HasPrefix(x, "host:") {
				src = x[5:]
				tg = append(tg[:j], tg[j+1:]...)
				break
			}
		}
	}
	if s.provider != "none" && src != "" {
		if in := instances[gostatsd.Source(src)]; in != nil {
			tg = append(tg, in.Tags...)
			src = string(in.ID)
		}
	}
	all := append(tg, s.defaultTags...)
	if !event { // filters are a clean-up of metrics (FILTERING.md); events pass
		switch s.filter {
		case "drop-tags": // every metric: tags k:* go
			var kept []string
			for _, x := range all {
				if !strings.HasPrefix(x, "k:") {
					kept = append(kept, x)
				}
			}
			all = kept
		case "drop-host": // metric m0 only
			if i == 0 {
				src = ""
			}
		case "drop-metric": // metric m1 only
			if i == 1 {
				return nil, "", true
			}
		}
	}
	seen := map[string]bool{}
	for _, x := range all {
		if !seen[x] {
			seen[x] = true
			out = append(out, x)
		}
	}
	return out, src, false
}

// Run is one generated case. prop is the property id used in failure signatures.
func Run(t *rapid.T, prop string) {
	s := settings{
		ignoreHost:  rapid.Bool().Draw(t, "ignore-host"),
		provider:    rapid.SampledFrom([]string{"none", "fast", "fast", "slow"}).Draw(t, "cloud-provider"),
		defaultTags: rapid.SampledFrom([][]string{nil, nil, {"env:x"}, {"region:us"}, {"region:us", "env:x"}}).Draw(t, "default-tags"),
		workers:     rapid.IntRange(1, 5).Draw(t, "max-workers"),
		parsers:     rapid.IntRange(1, 3).Draw(t, "max-parsers"),
		queue:       rapid.SampledFrom([]int{1, 10, 100}).Draw(t, "max-queue-size"),
		namespace:   rapid.SampledFrom([]string{"", "", "ns"}).Draw(t, "namespace"),
		filter:      rapid.SampledFrom([]string{"none", "none", "drop-tags", "drop-host", "drop-metric"}).Draw(t, "filter"),
		batch:       rapid.SampledFrom([]int{1, 8}).Draw(t, "receive-batch-size"),
		heartbeat:   rapid.Bool().Draw(t, "heartbeat"),
	}
	internalStatser := rapid.Bool().Draw(t, "internal-statser")
	disableInternalEvents := rapid.Bool().Draw(t, "disable-internal-events")
	var auto *rig.AutoInstances
	cfg := rig.ServerConfig{Settings: map[string]interface{}{}, Tune: func(srv *statsd.Server) {
		srv.IgnoreHost, srv.DefaultTags, srv.MaxWorkers, srv.MaxParsers, srv.MaxQueueSize = s.ignoreHost, gostatsd.Tags(append([]string(nil), s.defaultTags...)), s.workers, s.parsers, s.queue
		srv.Namespace, srv.ReceiveBatchSize, srv.HeartbeatEnabled = s.namespace, s.batch, s.heartbeat
		srv.DisableInternalEvents = disableInternalEvents
		if internalStatser {
			srv.StatserType = gostatsd.StatserInternal
			srv.InternalNamespace = "statsd"
		}
	}}
	switch s.filter {
	case "drop-tags":
		cfg.Settings["filters"] = []string{"f"}
		cfg.Settings["filter"] = map[string]interface{}{"f": map[string]interface{}{"drop-tags": []string{"k:*"}}}
	case "drop-host":
		cfg.Settings["filters"] = []string{"f"}
		cfg.Settings["filter"] = map[string]interface{}{"f": map[string]interface{}{"match-metrics": []string{s.prefix() + "m0"}, "drop-host": true}}
	case "drop-metric":
		cfg.Settings["filters"] = []string{"f"}
		cfg.Settings["filter"] = map[string]interface{}{"f": map[string]interface{}{"match-metrics": []string{s.prefix() + "m1"}, "drop-metric": true}}
	}
	if s.provider != "none" {
		delay := time.Duration(0)
		if s.provider == "slow" {
			delay = 60 * time.Millisecond
		}
		auto = rig.NewAutoInstances(instances, delay)
		defer auto.Close()
		cfg.Instances = auto
	}
	srv, err := rig.StartServer(cfg)
	if err != nil {
		t.Skip("no loopback socket: " + err.Error())
	}
	stopped := false
	defer func() {
		if !stopped {
			srv.Stop()
		}
	}()
	desc := s.String() + fmt.Sprintf(" internal-statser=%v disable-internal-events=%v", internalStatser, disableInternalEvents)
	fail := func(sig, f string, a ...interface{}) {
		vt.Fail(t, prop+":"+sig, "server with %s: %s", desc, fmt.Sprintf(f, a...))
	}

	// traffic: every series is sent in exactly one datagram, as several lines whose tag lists differ only in what the
	// stages remove or add anyway (a repeated tag, a tag the provider adds, a default tag)
	want := model.Agg{}
	var sent []string
	nseries := rapid.IntRange(1, 8).Draw(t, "series")
	variants := [][]string{nil, {"k:v"}, {"k:v", "k:v"}, {"region:us"}, {"env:x"}, {"host:10.1.2.3"}, {"host:10.1.2.3", "k:v"}, {"host:10.9.9.9"}, {"role:web", "region:us"}}
	for i := 0; i < nseries; i++ {
		typ := rapid.SampledFrom([]string{"c", "c", "ms", "s", "g"}).Draw(t, "type")
		name := fmt.Sprintf("m%d", i)
		var lines []string
		for j, k := 0, rapid.IntRange(1, 4).Draw(t, "lines"); j < k; j++ {
			tags := rapid.SampledFrom(variants).Draw(t, "tags")
			v := rapid.IntRange(1, 9).Draw(t, "v")
			val := fmt.Sprint(v)
			if typ == "s" {
				val = fmt.Sprintf("u%d", v)
			}
			line := fmt.Sprintf("%s:%s|%s", name, val, typ)
			if len(tags) > 0 {
				line += "|#" + strings.Join(tags, ",")
			}
			lines = append(lines, line)
			etags, esrc, dropped := s.identity(i, tags, false)
			if dropped {
				continue
			}
			full := s.prefix() + name
			switch typ {
			case "c":
				want.AddCounter(model.MakeKey(gostatsd.COUNTER, full, etags, esrc), int64(v), 1)
			case "ms":
				want.AddTimer(model.MakeKey(gostatsd.TIMER, full, etags, esrc), []float64{float64(v)}, 1, 1)
			case "s":
				want.AddSet(model.MakeKey(gostatsd.SET, full, etags, esrc), map[string]struct{}{val: {}}, 1)
			case "g":
				want.AddGauge(model.MakeKey(gostatsd.GAUGE, full, etags, esrc), float64(v), 1) // lines of one datagram carry one timestamp: any of them may be the one kept when tag lists differ
			}
		}
		d := strings.Join(lines, "\n")
		sent = append(sent, d)
		if err := srv.Send(d); err != nil {
			t.Skip("client socket: " + err.Error())
		}
		time.Sleep(time.Duration(rapid.IntRange(0, 30).Draw(t, "pause-ms")) * time.Millisecond)
	}
	// events
	var wantEvents []string
	nev := rapid.IntRange(0, 3).Draw(t, "events")
	for i := 0; i < nev; i++ {
		tags := rapid.SampledFrom(variants).Draw(t, "event-tags")
		line := fmt.Sprintf("_e{2,%d}:ev|t%d", len(fmt.Sprint(i))+1, i)
		if len(tags) > 0 {
			line += "|#" + strings.Join(tags, ",")
		}
		sent = append(sent, line)
		srv.Send(line)
		etags, esrc, _ := s.identity(-1, tags, true)
		sort.Strings(etags)
		wantEvents = append(wantEvents, fmt.Sprintf("t%d src=%s tags=%q", i, esrc, etags))
	}
	if !srv.Barrier(30 * time.Second) {
		if err := srv.Stop(); err != nil && !strings.Contains(err.Error(), "context canceled") {
			stopped = true
			fail("server-stopped", "stopped or never flushed: %v; sent %q", err, sent)
		}
		stopped = true
		ev.C().Excluded("server-did-not-flush-within-30s", 1)
		t.Skip("no flush within 30s")
	}
	got := srv.Total()
	for k := range got {
		if !isOurs(k.Name, s.prefix()) {
			delete(got, k) // internal metrics, heartbeat
		}
	}
	// gauges: several lines of one datagram, the last one wins; the model's SetGaugeLast follows the same order
	if d := model.Diff(got, want, model.Opts{IgnoreTimestamps: true}); d != "" {
		if lostOnly(got, want) {
			ev.C().Excluded("datagram-lost-on-loopback", 1)
			t.Skip("a datagram did not arrive")
		}
		fail("server-aggregate", "what the backend was flushed differs from what the stages should make of the traffic: %s; sent %q", d, sent)
	}
	// every flush hands the backend one map per worker, in order: within one flush a series is reported by one worker only
	type at struct {
		flush int
		k     model.Key
	}
	where := map[at]int{}
	for i, mm := range srv.Flushes() {
		if dup := model.DupKeys(mm); len(dup) > 0 {
			fail("series-under-two-keys", "a flushed map holds a series under two keys: %v; sent %q", dup, sent)
		}
		for k := range model.FromMap(mm) {
			if !isOurs(k.Name, s.prefix()) {
				continue
			}
			where[at{i / s.workers, k}]++
		}
	}
	for a, n := range where {
		if n > 1 {
			fail("series-reported-by-two-workers", "series %v was reported by %d workers in one flush (flush %d); sent %q", a.k, n, a.flush, sent)
		}
	}
	// events reach the backend with their fields
	deadline := time.Now().Add(30 * time.Second)
	var gotEvents []string
	for {
		gotEvents = gotEvents[:0]
		for _, e := range srv.Events() {
			if e.Title != "ev" {
				continue
			}
			tg := append([]string(nil), e.Tags...)
			sort.Strings(tg)
			gotEvents = append(gotEvents, fmt.Sprintf("%s src=%s tags=%q", e.Text, e.Source, tg))
		}
		if len(gotEvents) >= len(wantEvents) || time.Now().After(deadline) {
			break
		}
		time.Sleep(2 * time.Millisecond)
	}
	sort.Strings(gotEvents)
	sort.Strings(wantEvents)
	if strings.Join(gotEvents, "\n") != strings.Join(wantEvents, "\n") {
		if len(gotEvents) < len(wantEvents) && subset(gotEvents, wantEvents) && !internalStatser {
			ev.C().Excluded("datagram-lost-on-loopback", 1)
			t.Skip("an event's datagram did not arrive")
		}
		fail("server-events", "events at the backend %q, expected %q; sent %q", gotEvents, wantEvents, sent)
	}
	// shutdown: an event accepted just before the stop - its sender's lookup still pending when the provider is slow - has
	// been handed to the backend when Run returns (with the internal statser, whose stop waits for events; the null
	// statser does not wait, by design of that type)
	lateHeld := false
	if internalStatser && rapid.Bool().Draw(t, "event-in-flight-at-stop") {
		gate := make(chan struct{})
		srv.Backend.SetEventGate(gate)
		srv.Send("_e{4,4}:late|late")
		for d := time.Now().Add(5 * time.Second); time.Now().Before(d) && srv.Backend.EventsInFlight() == 0; {
			time.Sleep(200 * time.Microsecond)
		}
		lateHeld = srv.Backend.EventsInFlight() > 0 // else its datagram was lost
		time.AfterFunc(80*time.Millisecond, func() { close(gate) })
	}
	stopped = true
	if err := srv.Stop(); err != nil && !strings.Contains(err.Error(), "context canceled") {
		fail("run-does-not-return", "%v", err)
	}
	if lateHeld {
		found := false
		for _, e := range srv.Events() {
			found = found || e.Title == "late"
		}
		if !found {
			fail("stopped-before-event-delivered", "an event had been accepted and was being handed to the backend when the server was told to stop; Run returned before the backend had it; sent %q", sent)
		}
	}
	labels := []string{"whole-server", "provider=" + s.provider, fmt.Sprintf("ignore-host=%v", s.ignoreHost)}
	ev.C().Case(fmt.Sprintf("W|%s|%q", desc, sent), s.provider != "none" && s.workers >= 2, labels...)
	if ev.C().WantSample() {
		ev.C().Sample(map[string]interface{}{"server": desc, "datagrams": sent})
	}
}

// isOurs: the name is one of the generated series m<digit> (under the namespace), not an internal metric or a sentinel.
func isOurs(name, prefix string) bool {
	if !strings.HasPrefix(name, prefix+"m") {
		return false
	}
	rest := name[len(prefix)+1:]
	return len(rest) == 1 && rest[0] >= '0' && rest[0] <= '9'
}

func lostOnly(got, want model.Agg) bool {
	// whole datagrams missing: every series present is complete and as expected
	sub := model.Agg{}
	for k := range got {
		w, ok := want[k]
		if !ok {
			return false
		}
		sub[k] = w
	}
	return len(got) < len(want) && model.Diff(got, sub, model.Opts{IgnoreTimestamps: true}) == ""
}

func subset(a, b []string) bool {
	m := map[string]int{}
	for _, x := range b {
		m[x]++
	}
	for _, x := range a {
		if m[x] == 0 {
			return false
		}
		m[x]--
	}
	return true
}
