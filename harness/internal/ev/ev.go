// Package ev collects evidence about the cases a check explored and writes it as a partial
// evidence file ($VERIF_EV_OUT) that the driver merges over shards.
package ev

import (
	"encoding/json"
	"fmt"
	"hash/fnv"
	"os"
	"sort"
	"sync"
)

const maxHashes = 3_000_000
const maxSamples = 6

type Collector struct {
	mu          sync.Mutex
	ID          string
	evals       int64
	nontriv     map[uint64]struct{}
	nontrivEval int64
	labels      map[string]int64
	excluded    map[string]int64
	samples     []interface{}
	auto        []interface{} // first cases as canonical strings, used when the test wrote no sample itself
	sampleAt    int64
	extra       map[string]int64
	rule        string
	assumptions []string
}

var global = &Collector{nontriv: map[uint64]struct{}{}, labels: map[string]int64{}, excluded: map[string]int64{}, extra: map[string]int64{}, sampleAt: 1}

// C returns the process-wide collector.
func C() *Collector { return global }

func Hash(s string) uint64 {
	h := fnv.New64a()
	h.Write([]byte(s))
	return h.Sum64()
}

// Case records one explored case. canon is a canonical encoding of the case (used only for
// distinctness), nontrivial says whether it satisfies the property's stated non-triviality rule.
func (c *Collector) Case(canon string, nontrivial bool, labels ...string) {
	c.mu.Lock()
	defer c.mu.Unlock()
	c.evals++
	if nontrivial {
		c.nontrivEval++
		if len(c.nontriv) < maxHashes {
			c.nontriv[Hash(canon)] = struct{}{}
		}
	}
	for _, l := range labels {
		c.labels[l]++
	}
	// a job whose test writes no samples of its own still shows what it generated: its first cases, as canonical strings
	if len(c.samples) == 0 && c.evals <= 3 {
		s := canon
		if len(s) > 600 {
			s = s[:600] + "..."
		}
		c.auto = append(c.auto, map[string]interface{}{"case": s, "labels": labels, "nontrivial": nontrivial})
	}
}

// WantSample reports whether the caller should build and pass a sample for the current case
// (called before Case): the first case and then exponentially spaced ones.
func (c *Collector) WantSample() bool {
	c.mu.Lock()
	defer c.mu.Unlock()
	return c.evals+1 >= c.sampleAt && len(c.samples) < maxSamples
}

// Sample stores a written-out case.
func (c *Collector) Sample(v interface{}) {
	c.mu.Lock()
	defer c.mu.Unlock()
	if len(c.samples) >= maxSamples {
		return
	}
	c.samples = append(c.samples, v)
	c.sampleAt = c.sampleAt*7 + 3
}

func (c *Collector) Label(l string, n int64) {
	c.mu.Lock()
	c.labels[l] += n
	c.mu.Unlock()
}

// Excluded counts inputs left out by construction (documented exclusions).
func (c *Collector) Excluded(what string, n int64) {
	c.mu.Lock()
	c.excluded[what] += n
	c.mu.Unlock()
}

func (c *Collector) Extra(k string, n int64) {
	c.mu.Lock()
	c.extra[k] += n
	c.mu.Unlock()
}

func (c *Collector) Rule(r string) {
	c.mu.Lock()
	c.rule = r
	c.mu.Unlock()
}

func (c *Collector) Assume(a string) {
	c.mu.Lock()
	defer c.mu.Unlock()
	for _, x := range c.assumptions {
		if x == a {
			return
		}
	}
	c.assumptions = append(c.assumptions, a)
}

type partial struct {
	Evaluations  int64            `json:"evaluations"`
	NontrivEvals int64            `json:"nontrivial_evaluations"`
	Hashes       []uint64         `json:"hashes"`
	Labels       map[string]int64 `json:"labels"`
	Excluded     map[string]int64 `json:"excluded_by_construction"`
	Extra        map[string]int64 `json:"extra"`
	Samples      []interface{}    `json:"samples"`
	Rule         string           `json:"rule"`
	Assumptions  []string         `json:"assumptions"`
	HashesCapped bool             `json:"hashes_capped"`
}

// Flush writes the partial evidence to $VERIF_EV_OUT (no-op when unset).
func (c *Collector) Flush() {
	out := os.Getenv("VERIF_EV_OUT")
	if out == "" {
		return
	}
	c.mu.Lock()
	defer c.mu.Unlock()
	if len(c.samples) == 0 {
		c.samples = c.auto
	}
	p := partial{Evaluations: c.evals, NontrivEvals: c.nontrivEval, Labels: c.labels, Excluded: c.excluded, Extra: c.extra,
		Samples: c.samples, Rule: c.rule, Assumptions: c.assumptions, HashesCapped: len(c.nontriv) >= maxHashes}
	p.Hashes = make([]uint64, 0, len(c.nontriv))
	for h := range c.nontriv {
		p.Hashes = append(p.Hashes, h)
	}
	sort.Slice(p.Hashes, func(i, j int) bool { return p.Hashes[i] < p.Hashes[j] })
	b, err := json.Marshal(p)
	if err != nil {
		fmt.Fprintln(os.Stderr, "ev: marshal:", err)
		return
	}
	tmp := out + ".tmp"
	if err := os.WriteFile(tmp, b, 0o644); err != nil {
		fmt.Fprintln(os.Stderr, "ev: write:", err)
		return
	}
	os.Rename(tmp, out)
}
