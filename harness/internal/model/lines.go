package model

import (
	"math"
	"strconv"
	"strings"
)

// MustReject gives the reasons (possibly none) for which the property text says a line must be rejected:
// no name separator, no value separator after it, (metric lines) unknown type, unparsable/NaN value for a
// non-set type, an '@' field that does not parse. excluded names documented regions where the check is silent.
func MustReject(line string) (reasons []string, excluded []string) {
	colon := strings.IndexByte(line, ':')
	if colon < 0 {
		return []string{"no-name-separator"}, nil
	}
	rest := line[colon+1:]
	bar := strings.IndexByte(rest, '|')
	if bar < 0 {
		return []string{"no-value-separator"}, nil
	}
	if len(line) > 0 && line[0] == '_' {
		// events / datadog specials: only the two separator rules are stated for them
		return nil, nil
	}
	value := rest[:bar]
	fields := strings.Split(rest[bar+1:], "|")
	typ := fields[0]
	switch typ {
	case "c", "g", "ms", "h", "s":
	default:
		reasons = append(reasons, "unknown-type")
	}
	if typ != "s" {
		v, err := strconv.ParseFloat(value, 64)
		if err != nil {
			reasons = append(reasons, "unparsable-value")
		} else if math.IsNaN(v) {
			reasons = append(reasons, "nan-value")
		}
	}
	for i, f := range fields[1:] {
		if f == "" {
			if i != len(fields[1:])-1 {
				excluded = append(excluded, "empty-attribute-field")
			}
			break // an empty field makes the lexer treat the following field as unknown: documented exclusion
		}
		if f[0] == '@' {
			if _, err := strconv.ParseFloat(f[1:], 64); err != nil {
				reasons = append(reasons, "unparsable-rate")
			}
		}
	}
	return reasons, excluded
}
