// Package model holds the reference models the checks compare gostatsd against.
package model

import (
	"fmt"
	"math"
	"sort"
	"strings"

	"github.com/atlassian/gostatsd"
)

// Key identifies a series independently of how the implementation renders its map keys.
type Key struct {
	Type   gostatsd.MetricType
	Name   string
	Tags   string // sorted tags joined with \x1f
	Source string
}

func (k Key) String() string {
	return fmt.Sprintf("%s %q tags=%q src=%q", k.Type, k.Name, strings.Split(k.Tags, "\x1f"), k.Source)
}

func TagsID(tags []string) string {
	c := append([]string(nil), tags...)
	sort.Strings(c)
	return strings.Join(c, "\x1f")
}

func MakeKey(t gostatsd.MetricType, name string, tags []string, source string) Key {
	return Key{Type: t, Name: name, Tags: TagsID(tags), Source: source}
}

// Series is the reference aggregate of one series.
type Series struct {
	Counter      int64
	Values       []float64 // timer values (multiset)
	SampledCount float64
	Members      map[string]struct{}
	GaugeCands   map[uint64]struct{} // bit patterns of the values carrying the newest timestamp
	Timestamp    gostatsd.Nanotime
	N            int // datapoints / merges folded in
}

// Agg is the reference aggregate: counters add, timers are multisets with sampled counts added,
// sets unite, gauges keep the value(s) of the newest timestamp, every series keeps the newest timestamp.
type Agg map[Key]*Series

func (a Agg) get(k Key) (*Series, bool) {
	s, ok := a[k]
	if !ok {
		s = &Series{}
		a[k] = s
	}
	s.N++
	return s, ok
}

func (s *Series) ts(t gostatsd.Nanotime, existed bool) {
	if !existed || t > s.Timestamp {
		s.Timestamp = t
	}
}

// AddMetric folds one datapoint in, with the semantics the property texts give:
// counter += trunc(value/rate); timer value appended, sampled count += 1/rate; set member added.
func (a Agg) AddMetric(m *gostatsd.Metric) {
	k := MakeKey(m.Type, m.Name, m.Tags, string(m.Source))
	switch m.Type {
	case gostatsd.COUNTER:
		s, ex := a.get(k)
		s.Counter += int64(m.Value / m.Rate)
		s.ts(m.Timestamp, ex)
	case gostatsd.TIMER:
		s, ex := a.get(k)
		s.Values = append(s.Values, m.Value)
		s.SampledCount += 1.0 / m.Rate
		s.ts(m.Timestamp, ex)
	case gostatsd.SET:
		s, ex := a.get(k)
		if s.Members == nil {
			s.Members = map[string]struct{}{}
		}
		s.Members[m.StringValue] = struct{}{}
		s.ts(m.Timestamp, ex)
	case gostatsd.GAUGE:
		a.AddGauge(k, m.Value, m.Timestamp)
	}
}

// AddGauge folds a gauge observation in: a newer timestamp replaces, an equal one adds a candidate.
func (a Agg) AddGauge(k Key, v float64, t gostatsd.Nanotime) {
	s, ex := a.get(k)
	switch {
	case !ex || t > s.Timestamp:
		s.GaugeCands = map[uint64]struct{}{math.Float64bits(v): {}}
		s.Timestamp = t
	case t == s.Timestamp:
		s.GaugeCands[math.Float64bits(v)] = struct{}{}
	}
}

// SetGaugeLast forces "this value wins" (used for last-line-wins inside one datagram).
func (a Agg) SetGaugeLast(k Key, v float64, t gostatsd.Nanotime) {
	s, ex := a.get(k)
	s.GaugeCands = map[uint64]struct{}{math.Float64bits(v): {}}
	s.ts(t, ex)
}

func (a Agg) AddCounter(k Key, v int64, t gostatsd.Nanotime) {
	s, ex := a.get(k)
	s.Counter += v
	s.ts(t, ex)
}

func (a Agg) AddTimer(k Key, vals []float64, sampled float64, t gostatsd.Nanotime) {
	s, ex := a.get(k)
	s.Values = append(s.Values, vals...)
	s.SampledCount += sampled
	s.ts(t, ex)
}

func (a Agg) AddSet(k Key, members map[string]struct{}, t gostatsd.Nanotime) {
	s, ex := a.get(k)
	if s.Members == nil {
		s.Members = map[string]struct{}{}
	}
	for m := range members {
		s.Members[m] = struct{}{}
	}
	s.ts(t, ex)
}

// AddMap folds an (unflushed) metric map in.
func (a Agg) AddMap(mm *gostatsd.MetricMap) {
	mm.Counters.Each(func(n, _ string, c gostatsd.Counter) {
		a.AddCounter(MakeKey(gostatsd.COUNTER, n, c.Tags, string(c.Source)), c.Value, c.Timestamp)
	})
	mm.Timers.Each(func(n, _ string, t gostatsd.Timer) {
		a.AddTimer(MakeKey(gostatsd.TIMER, n, t.Tags, string(t.Source)), t.Values, t.SampledCount, t.Timestamp)
	})
	mm.Sets.Each(func(n, _ string, s gostatsd.Set) {
		a.AddSet(MakeKey(gostatsd.SET, n, s.Tags, string(s.Source)), s.Values, s.Timestamp)
	})
	mm.Gauges.Each(func(n, _ string, g gostatsd.Gauge) {
		a.AddGauge(MakeKey(gostatsd.GAUGE, n, g.Tags, string(g.Source)), g.Value, g.Timestamp)
	})
}

// Merge folds another aggregate in.
func (a Agg) Merge(b Agg) {
	for k, s := range b {
		switch k.Type {
		case gostatsd.COUNTER:
			a.AddCounter(k, s.Counter, s.Timestamp)
		case gostatsd.TIMER:
			a.AddTimer(k, s.Values, s.SampledCount, s.Timestamp)
		case gostatsd.SET:
			a.AddSet(k, s.Members, s.Timestamp)
		case gostatsd.GAUGE:
			for bits := range s.GaugeCands {
				a.AddGauge(k, math.Float64frombits(bits), s.Timestamp)
			}
		}
	}
}

func FromMap(mm *gostatsd.MetricMap) Agg {
	a := Agg{}
	a.AddMap(mm)
	return a
}

// DupKeys reports series that appear under more than one implementation key inside one map
// (same name/tags/source reachable twice), which AddMap would silently merge.
func DupKeys(mm *gostatsd.MetricMap) []string {
	seen := map[Key]int{}
	mm.Counters.Each(func(n, _ string, c gostatsd.Counter) { seen[MakeKey(gostatsd.COUNTER, n, c.Tags, string(c.Source))]++ })
	mm.Timers.Each(func(n, _ string, c gostatsd.Timer) { seen[MakeKey(gostatsd.TIMER, n, c.Tags, string(c.Source))]++ })
	mm.Sets.Each(func(n, _ string, c gostatsd.Set) { seen[MakeKey(gostatsd.SET, n, c.Tags, string(c.Source))]++ })
	mm.Gauges.Each(func(n, _ string, c gostatsd.Gauge) { seen[MakeKey(gostatsd.GAUGE, n, c.Tags, string(c.Source))]++ })
	var out []string
	for k, n := range seen {
		if n > 1 {
			out = append(out, k.String())
		}
	}
	sort.Strings(out)
	return out
}

// StaleKeys reports series that a stage stored under a key other than the one their own source and tags render to.
// Downstream stages merge by that key, so a series under a stale key is aggregated apart from its equals.
func StaleKeys(mm *gostatsd.MetricMap) []string {
	var out []string
	check := func(kind, n, k string, src gostatsd.Source, tags gostatsd.Tags) {
		if want := gostatsd.FormatTagsKey(src, tags); k != want {
			out = append(out, fmt.Sprintf("%s %q stored under key %q, its source %q and tags %q render to %q", kind, n, k, src, []string(tags), want))
		}
	}
	mm.Counters.Each(func(n, k string, c gostatsd.Counter) { check("counter", n, k, c.Source, c.Tags) })
	mm.Timers.Each(func(n, k string, c gostatsd.Timer) { check("timer", n, k, c.Source, c.Tags) })
	mm.Sets.Each(func(n, k string, c gostatsd.Set) { check("set", n, k, c.Source, c.Tags) })
	mm.Gauges.Each(func(n, k string, c gostatsd.Gauge) { check("gauge", n, k, c.Source, c.Tags) })
	sort.Strings(out)
	return out
}

// Opts control comparison.
type Opts struct {
	IgnoreTimestamps bool
	IgnoreGauges     bool
	SampledTol       float64 // relative tolerance on sampled counts (0 = exact)
	FloatBits        bool    // compare timer values by bit pattern (NaN == NaN, -0 != 0)
}

func sortedVals(v []float64, bits bool) []float64 {
	c := append([]float64(nil), v...)
	sort.Slice(c, func(i, j int) bool {
		if bits {
			return math.Float64bits(c[i]) < math.Float64bits(c[j])
		}
		return c[i] < c[j]
	})
	return c
}

// Diff compares an aggregate obtained from the implementation ("got") with the reference ("want").
// got's gauge must be one of want's candidates. Returns "" when they agree.
func Diff(got, want Agg, o Opts) string {
	var msgs []string
	for k, w := range want {
		if o.IgnoreGauges && k.Type == gostatsd.GAUGE {
			continue
		}
		g, ok := got[k]
		if !ok {
			msgs = append(msgs, "missing series "+k.String())
			continue
		}
		switch k.Type {
		case gostatsd.COUNTER:
			if g.Counter != w.Counter {
				msgs = append(msgs, fmt.Sprintf("%s counter got %d want %d", k, g.Counter, w.Counter))
			}
		case gostatsd.TIMER:
			gv, wv := sortedVals(g.Values, o.FloatBits), sortedVals(w.Values, o.FloatBits)
			same := len(gv) == len(wv)
			for i := 0; same && i < len(gv); i++ {
				if math.Float64bits(gv[i]) != math.Float64bits(wv[i]) && !(!o.FloatBits && gv[i] == wv[i]) {
					same = false
				}
			}
			if !same {
				msgs = append(msgs, fmt.Sprintf("%s timer values got %v want %v", k, gv, wv))
			}
			d := math.Abs(g.SampledCount - w.SampledCount)
			tol := o.SampledTol
			if tol == 0 && !o.FloatBits {
				// a sampled count is a sum of 1/rate terms: the order of the additions (which merge happened first) moves
				// the last bits (7.666666666666667 vs 7.666666666666668); a lost or doubled datapoint moves it by >= 1
				tol = 1e-12
			}
			if d > tol*math.Max(math.Abs(w.SampledCount), 1) && !(math.IsNaN(g.SampledCount) && math.IsNaN(w.SampledCount)) {
				msgs = append(msgs, fmt.Sprintf("%s sampled count got %v want %v", k, g.SampledCount, w.SampledCount))
			}
		case gostatsd.SET:
			if len(g.Members) != len(w.Members) {
				msgs = append(msgs, fmt.Sprintf("%s set members got %v want %v", k, keys(g.Members), keys(w.Members)))
			} else {
				for m := range w.Members {
					if _, ok := g.Members[m]; !ok {
						msgs = append(msgs, fmt.Sprintf("%s set members got %v want %v", k, keys(g.Members), keys(w.Members)))
						break
					}
				}
			}
		case gostatsd.GAUGE:
			okc := len(g.GaugeCands) > 0
			for bits := range g.GaugeCands {
				if _, ok := w.GaugeCands[bits]; !ok {
					okc = false
				}
			}
			if !okc {
				msgs = append(msgs, fmt.Sprintf("%s gauge got %v want one of %v", k, cands(g.GaugeCands), cands(w.GaugeCands)))
			}
		}
		if !o.IgnoreTimestamps && g.Timestamp != w.Timestamp {
			msgs = append(msgs, fmt.Sprintf("%s timestamp got %d want %d", k, g.Timestamp, w.Timestamp))
		}
	}
	for k := range got {
		if o.IgnoreGauges && k.Type == gostatsd.GAUGE {
			continue
		}
		if _, ok := want[k]; !ok {
			msgs = append(msgs, "unexpected series "+k.String())
		}
	}
	sort.Strings(msgs)
	if len(msgs) > 6 {
		msgs = append(msgs[:6], fmt.Sprintf("… %d more", len(msgs)-6))
	}
	return strings.Join(msgs, "; ")
}

func keys(m map[string]struct{}) []string {
	out := make([]string, 0, len(m))
	for k := range m {
		out = append(out, k)
	}
	sort.Strings(out)
	return out
}

func cands(m map[uint64]struct{}) []float64 {
	out := make([]float64, 0, len(m))
	for k := range m {
		out = append(out, math.Float64frombits(k))
	}
	sort.Float64s(out)
	return out
}

// Canon renders an aggregate canonically (for hashing / samples).
func (a Agg) Canon() string {
	var lines []string
	for k, s := range a {
		var b strings.Builder
		fmt.Fprintf(&b, "%s|", k)
		switch k.Type {
		case gostatsd.COUNTER:
			fmt.Fprintf(&b, "%d", s.Counter)
		case gostatsd.TIMER:
			fmt.Fprintf(&b, "%v/%v", sortedVals(s.Values, true), s.SampledCount)
		case gostatsd.SET:
			fmt.Fprintf(&b, "%v", keys(s.Members))
		case gostatsd.GAUGE:
			fmt.Fprintf(&b, "%v", cands(s.GaugeCands))
		}
		fmt.Fprintf(&b, "@%d", s.Timestamp)
		lines = append(lines, b.String())
	}
	sort.Strings(lines)
	return strings.Join(lines, "\n")
}
