package fakes

import (
	"bytes"
	"compress/zlib"
	"io"

	"github.com/pierrec/lz4/v4"
)

// Inflate decompresses a body with the harness' own use of the codec libraries (not gostatsd's helpers, which are
// code under test): encoding "deflate" is a zlib stream, "lz4" an lz4 frame. It reports whether the whole body is
// a well-formed stream.
func Inflate(encoding string, body []byte) ([]byte, error) {
	var r io.Reader
	switch encoding {
	case "deflate":
		zr, err := zlib.NewReader(bytes.NewReader(body))
		if err != nil {
			return nil, err
		}
		defer zr.Close()
		r = zr
	case "lz4":
		r = lz4.NewReader(bytes.NewReader(body))
	default:
		return body, nil
	}
	return io.ReadAll(r)
}
