package fakes

import (
	"bytes"
	"fmt"
	"io"
	"net"
	"net/http"
	"os"
	"strconv"
	"strings"
	"sync"
	"time"
)

// Attempt is one HTTP request seen by the scripted RoundTripper.
type Attempt struct {
	Seq     int
	Method  string
	URL     string
	Host    string
	Path    string
	Header  http.Header
	Body    []byte
	Req     *http.Request `json:"-"`
	CtxDone bool          // the request's context had already ended when the attempt was made: nothing would go on the wire
}

// Reply is what the script answers to an attempt.
type Reply struct {
	Status int    // 0 => 200
	Body   []byte // response body
	Header http.Header
	Err    error // transport error instead of a response
	// BodyErr: the response (status and headers) arrives, but reading its body fails after the given bytes,
	// as when the connection drops mid-body or the peer sent fewer bytes than it declared.
	BodyErr bool
}

type failingBody struct {
	r *bytes.Reader
}

func (f *failingBody) Read(p []byte) (int, error) {
	n, err := f.r.Read(p)
	if err == io.EOF {
		return n, io.ErrUnexpectedEOF
	}
	return n, err
}
func (f *failingBody) Close() error { return nil }

// RT is a scripted http.RoundTripper. Like the real transport it reads the whole request body and fails
// when the body is shorter than the declared Content-Length (a request whose body was already consumed).
type RT struct {
	mu       sync.Mutex
	attempts []*Attempt
	// Script decides the reply for an attempt; it may block (honouring a.Req.Context()). nil => 200.
	Script func(a *Attempt) Reply
	notify chan struct{}
}

func NewRT() *RT { return &RT{notify: make(chan struct{}, 1)} }

func (rt *RT) RoundTrip(req *http.Request) (*http.Response, error) {
	var body []byte
	if req.Body != nil {
		body, _ = io.ReadAll(req.Body)
		req.Body.Close()
	}
	a := &Attempt{Method: req.Method, URL: req.URL.String(), Host: req.URL.Host, Path: req.URL.Path, Header: req.Header.Clone(), Body: body, Req: req, CtxDone: req.Context().Err() != nil}
	rt.mu.Lock()
	a.Seq = len(rt.attempts)
	rt.attempts = append(rt.attempts, a)
	script := rt.Script
	rt.mu.Unlock()
	select {
	case rt.notify <- struct{}{}:
	default:
	}
	if err := req.Context().Err(); err != nil {
		return nil, err
	}
	if req.ContentLength > 0 && int64(len(body)) != req.ContentLength {
		return nil, fmt.Errorf("http: ContentLength=%d with Body length %d", req.ContentLength, len(body))
	}
	r := Reply{}
	if script != nil {
		r = script(a)
	}
	if r.Err != nil {
		return nil, r.Err
	}
	if r.Status == 0 {
		r.Status = 200
	}
	h := r.Header
	if h == nil {
		h = http.Header{}
	}
	if r.BodyErr {
		return &http.Response{StatusCode: r.Status, Status: fmt.Sprintf("%d", r.Status), Proto: "HTTP/1.1", ProtoMajor: 1, ProtoMinor: 1,
			Header: h, Body: &failingBody{bytes.NewReader(r.Body)}, ContentLength: int64(len(r.Body)) + 100, Request: req}, nil
	}
	return &http.Response{StatusCode: r.Status, Status: fmt.Sprintf("%d", r.Status), Proto: "HTTP/1.1", ProtoMajor: 1, ProtoMinor: 1,
		Header: h, Body: io.NopCloser(bytes.NewReader(r.Body)), ContentLength: int64(len(r.Body)), Request: req}, nil
}

// Attempts returns a snapshot of the attempts so far.
func (rt *RT) Attempts() []*Attempt {
	rt.mu.Lock()
	defer rt.mu.Unlock()
	return append([]*Attempt(nil), rt.attempts...)
}

func (rt *RT) Reset() {
	rt.mu.Lock()
	rt.attempts = nil
	rt.mu.Unlock()
}

// Notify is signalled (non-blocking) on every attempt.
func (rt *RT) Notify() <-chan struct{} { return rt.notify }

// ErrTransport is a generic transport failure.
var ErrTransport = &net.OpError{Op: "dial", Net: "tcp", Err: fmt.Errorf("connection refused (scripted)")}

// Loopback is a TCP or UDP listener on 127.0.0.1 that captures what it receives.
type Loopback struct {
	mu      sync.Mutex
	Network string
	Addr    string
	ln      net.Listener
	pc      net.PacketConn
	Chunks  [][]byte // one per UDP datagram, or one per TCP connection (whole stream)
	conns   int
	active  int // TCP connections whose reader has not seen EOF / an error yet
	open    []net.Conn
	closed  bool
	wg      sync.WaitGroup
	notify  chan struct{}
}

// KernelDrops returns the kernel's count of datagrams it discarded at this UDP listener because the socket buffer was
// full (the "drops" column of /proc/net/udp; -1 when it cannot be read or the listener is not UDP).
func (l *Loopback) KernelDrops() int {
	if l.pc == nil {
		return -1
	}
	ua, ok := l.pc.LocalAddr().(*net.UDPAddr)
	if !ok {
		return -1
	}
	b, err := os.ReadFile("/proc/net/udp")
	if err != nil {
		return -1
	}
	suffix := fmt.Sprintf(":%04X", ua.Port)
	total := 0
	for _, ln := range strings.Split(string(b), "\n")[1:] {
		f := strings.Fields(ln)
		if len(f) < 13 || !strings.HasSuffix(f[1], suffix) {
			continue
		}
		d, err := strconv.Atoi(f[len(f)-1])
		if err != nil {
			return -1
		}
		total += d
	}
	return total
}

// NewLoopback starts a capturing listener ("tcp" or "udp").
func NewLoopback(network string) (*Loopback, error) {
	l := &Loopback{Network: network, notify: make(chan struct{}, 1)}
	if network == "udp" {
		pc, err := net.ListenPacket("udp", "127.0.0.1:0")
		if err != nil {
			return nil, err
		}
		l.pc, l.Addr = pc, pc.LocalAddr().String()
		if uc, ok := pc.(*net.UDPConn); ok {
			_ = uc.SetReadBuffer(4 << 20) // room for a burst of a thousand datagrams while the reader is not scheduled
		}
		l.wg.Add(1)
		go func() {
			defer l.wg.Done()
			buf := make([]byte, 1<<16)
			for {
				n, _, err := pc.ReadFrom(buf)
				if err != nil {
					return
				}
				l.mu.Lock()
				l.Chunks = append(l.Chunks, append([]byte(nil), buf[:n]...))
				l.mu.Unlock()
				l.poke()
			}
		}()
		return l, nil
	}
	ln, err := net.Listen("tcp", "127.0.0.1:0")
	if err != nil {
		return nil, err
	}
	l.ln, l.Addr = ln, ln.Addr().String()
	l.wg.Add(1)
	go func() {
		defer l.wg.Done()
		for {
			c, err := ln.Accept()
			if err != nil {
				return
			}
			l.mu.Lock()
			idx := len(l.Chunks)
			l.Chunks = append(l.Chunks, nil)
			l.conns++
			l.active++
			l.open = append(l.open, c)
			l.mu.Unlock()
			l.wg.Add(1)
			go func() {
				defer l.wg.Done()
				defer c.Close()
				defer func() {
					l.mu.Lock()
					l.active--
					l.mu.Unlock()
				}()
				buf := make([]byte, 1<<16)
				for {
					n, err := c.Read(buf)
					if n > 0 {
						l.mu.Lock()
						l.Chunks[idx] = append(l.Chunks[idx], buf[:n]...)
						l.mu.Unlock()
						l.poke()
					}
					if err != nil {
						return
					}
				}
			}()
		}
	}()
	return l, nil
}

func (l *Loopback) poke() {
	select {
	case l.notify <- struct{}{}:
	default:
	}
}

func (l *Loopback) Notify() <-chan struct{} { return l.notify }

// Bytes returns everything received so far (chunks copied).
func (l *Loopback) Snapshot() [][]byte {
	l.mu.Lock()
	defer l.mu.Unlock()
	out := make([][]byte, len(l.Chunks))
	for i, c := range l.Chunks {
		out[i] = append([]byte(nil), c...)
	}
	return out
}

// WaitEOF waits until at least one TCP connection was accepted and every accepted connection has been read to its
// end (the peer closed it): after that the captured streams are complete. It is a progress wait, not a quiet period.
func (l *Loopback) WaitEOF(d time.Duration) bool {
	deadline := time.Now().Add(d)
	for {
		l.mu.Lock()
		done := l.conns > 0 && l.active == 0
		l.mu.Unlock()
		if done {
			return true
		}
		if time.Now().After(deadline) {
			return false
		}
		time.Sleep(100 * time.Microsecond)
	}
}

func (l *Loopback) Total() int {
	l.mu.Lock()
	defer l.mu.Unlock()
	n := 0
	for _, c := range l.Chunks {
		n += len(c)
	}
	return n
}

func (l *Loopback) Reset() {
	l.mu.Lock()
	for i := range l.Chunks {
		l.Chunks[i] = nil
	}
	if l.Network == "udp" {
		l.Chunks = nil
	}
	l.mu.Unlock()
}

func (l *Loopback) Close() {
	if l.ln != nil {
		l.ln.Close()
	}
	l.mu.Lock()
	for _, c := range l.open {
		// reset instead of an orderly close so that no TIME_WAIT entry is left behind
		if tc, ok := c.(*net.TCPConn); ok {
			tc.SetLinger(0)
		}
		c.Close()
	}
	l.open = nil
	l.mu.Unlock()
	if l.pc != nil {
		l.pc.Close()
	}
}
