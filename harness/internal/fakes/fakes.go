// Package fakes holds capturing / scripted stand-ins for the interfaces gostatsd's stages talk to.
package fakes

import (
	"context"
	"sort"
	"strings"
	"sync"
	"sync/atomic"
	"time"

	"github.com/atlassian/gostatsd"
	"github.com/atlassian/gostatsd/pkg/stats"

	"verifharness/internal/gen"
)

// CopyEvent deep-copies an event.
func CopyEvent(e *gostatsd.Event) *gostatsd.Event {
	c := *e
	c.Tags = e.Tags.Copy()
	return &c
}

// Sink is a capturing PipelineHandler. It deep-copies what it receives at the time of the call.
type Sink struct {
	mu          sync.Mutex
	Maps        []*gostatsd.MetricMap
	RawMaps     []*gostatsd.MetricMap
	Events      []*gostatsd.Event
	RawEvents   []*gostatsd.Event
	Tags        int
	notify      chan struct{}
	gate        chan struct{}
	mapGate     chan struct{}
	mapsWaiting int32
	WaitCalls   int32
}

func NewSink() *Sink { return &Sink{notify: make(chan struct{}, 1)} }

func (s *Sink) EstimatedTags() int { return s.Tags }

func (s *Sink) poke() {
	select {
	case s.notify <- struct{}{}:
	default:
	}
}

// SetMapGate makes DispatchMetricMap block until the gate is closed (nil removes it); MapsWaiting says how many
// dispatches are blocked at it.
func (s *Sink) SetMapGate(g chan struct{}) {
	s.mu.Lock()
	s.mapGate = g
	s.mu.Unlock()
}

func (s *Sink) MapsWaiting() int32 { return atomic.LoadInt32(&s.mapsWaiting) }

func (s *Sink) DispatchMetricMap(ctx context.Context, mm *gostatsd.MetricMap) {
	s.mu.Lock()
	g := s.mapGate
	s.mu.Unlock()
	if g != nil {
		atomic.AddInt32(&s.mapsWaiting, 1)
		<-g
		atomic.AddInt32(&s.mapsWaiting, -1)
	}
	c := gen.CopyMap(mm)
	s.mu.Lock()
	s.Maps = append(s.Maps, c)
	s.RawMaps = append(s.RawMaps, mm)
	s.mu.Unlock()
	s.poke()
}

// SetGate makes DispatchEvent block until the gate is closed (nil removes it): a downstream that is busy.
func (s *Sink) SetGate(g chan struct{}) {
	s.mu.Lock()
	s.gate = g
	s.mu.Unlock()
}

func (s *Sink) DispatchEvent(ctx context.Context, e *gostatsd.Event) {
	s.mu.Lock()
	g := s.gate
	s.mu.Unlock()
	if g != nil {
		<-g
	}
	c := CopyEvent(e)
	s.mu.Lock()
	s.Events = append(s.Events, c)
	s.RawEvents = append(s.RawEvents, e)
	s.mu.Unlock()
	s.poke()
}

func (s *Sink) WaitForEvents() { atomic.AddInt32(&s.WaitCalls, 1) }

// Snapshot returns the captured maps and events so far.
func (s *Sink) Snapshot() ([]*gostatsd.MetricMap, []*gostatsd.Event) {
	s.mu.Lock()
	defer s.mu.Unlock()
	return append([]*gostatsd.MetricMap(nil), s.Maps...), append([]*gostatsd.Event(nil), s.Events...)
}

func (s *Sink) Counts() (int, int) {
	s.mu.Lock()
	defer s.mu.Unlock()
	return len(s.Maps), len(s.Events)
}

// WaitUntil waits (progress wait, not a correctness signal) until cond holds over the sink's contents
// or the deadline passes; returns whether cond held.
func (s *Sink) WaitUntil(d time.Duration, cond func(maps []*gostatsd.MetricMap, events []*gostatsd.Event) bool) bool {
	deadline := time.Now().Add(d)
	for {
		m, e := s.Snapshot()
		if cond(m, e) {
			return true
		}
		left := time.Until(deadline)
		if left <= 0 {
			return false
		}
		if left > 20*time.Millisecond {
			left = 20 * time.Millisecond
		}
		select {
		case <-s.notify:
		case <-time.After(left):
		}
	}
}

func (s *Sink) Reset() {
	s.mu.Lock()
	s.Maps, s.RawMaps, s.Events, s.RawEvents = nil, nil, nil, nil
	s.mu.Unlock()
}

// GaugeKey renders a statser gauge identity.
func GaugeKey(name string, tags gostatsd.Tags) string {
	t := append([]string(nil), tags...)
	sort.Strings(t)
	if len(t) == 0 {
		return name
	}
	return name + "{" + strings.Join(t, ",") + "}"
}

// Statser captures gauges, counts and reports; the harness owns the RegisterFlush channels.
type Statser struct {
	mu       sync.Mutex
	base     gostatsd.Tags
	root     *Statser
	Gauges   map[string]float64
	GaugeN   map[string]int
	Counts   map[string]float64
	Flushes  []chan time.Duration
	Notified int64
}

func NewStatser() *Statser {
	s := &Statser{Gauges: map[string]float64{}, GaugeN: map[string]int{}, Counts: map[string]float64{}}
	s.root = s
	return s
}

// NotifyFlush counts flush notifications (the flusher calls it at the start of every flush).
func (s *Statser) NotifyFlush(ctx context.Context, d time.Duration) {
	atomic.AddInt64(&s.root.Notified, 1)
}

func (s *Statser) NotifiedCount() int64 { return atomic.LoadInt64(&s.root.Notified) }

// RegisterFlush hands out an unbuffered channel; TriggerFlush sends on all of them (blocking).
func (s *Statser) RegisterFlush() (<-chan time.Duration, func()) {
	ch := make(chan time.Duration)
	r := s.root
	r.mu.Lock()
	r.Flushes = append(r.Flushes, ch)
	r.mu.Unlock()
	return ch, func() {}
}

// FlushChans returns the registered flush channels.
func (s *Statser) FlushChans() []chan time.Duration {
	r := s.root
	r.mu.Lock()
	defer r.mu.Unlock()
	return append([]chan time.Duration(nil), r.Flushes...)
}

func (s *Statser) Gauge(name string, value float64, tags gostatsd.Tags) {
	k := GaugeKey(name, append(s.base.Copy(), tags...))
	r := s.root
	r.mu.Lock()
	r.Gauges[k] = value
	r.GaugeN[k]++
	r.mu.Unlock()
}

func (s *Statser) Count(name string, amount float64, tags gostatsd.Tags) {
	k := GaugeKey(name, append(s.base.Copy(), tags...))
	r := s.root
	r.mu.Lock()
	r.Counts[k] += amount
	r.mu.Unlock()
}

func (s *Statser) Increment(name string, tags gostatsd.Tags) { s.Count(name, 1, tags) }

// Report mirrors the internal statser in forwarder mode: swap to zero and count.
func (s *Statser) Report(name string, value *uint64, tags gostatsd.Tags) {
	s.Count(name, float64(atomic.SwapUint64(value, 0)), tags)
}

func (s *Statser) TimingMS(name string, ms float64, tags gostatsd.Tags)            {}
func (s *Statser) TimingDuration(name string, d time.Duration, tags gostatsd.Tags) {}

// NewTimer returns a timer bound to a null statser (stats.Timer cannot be constructed outside its package and
// TaggedStatser.NewTimer delegates back to the wrapped statser), so timer gauges are not captured.
func (s *Statser) NewTimer(name string, tags gostatsd.Tags) *stats.Timer {
	return stats.NewNullStatser().NewTimer(name, tags)
}
func (s *Statser) WithTags(tags gostatsd.Tags) stats.Statser {
	return &Statser{base: append(s.base.Copy(), tags...), root: s.root}
}
func (s *Statser) Event(ctx context.Context, e *gostatsd.Event) {}
func (s *Statser) WaitForEvents()                               {}

func (s *Statser) GaugeValue(key string) (float64, int) {
	r := s.root
	r.mu.Lock()
	defer r.mu.Unlock()
	return r.Gauges[key], r.GaugeN[key]
}

func (s *Statser) CountValue(key string) float64 {
	r := s.root
	r.mu.Lock()
	defer r.mu.Unlock()
	return r.Counts[key]
}

// CachedInstances is a harness-owned instance cache: Peek reads a map the harness controls, the
// IpSink / InfoSource channels are unbuffered and owned by the harness.
type CachedInstances struct {
	mu    sync.Mutex
	Cache map[gostatsd.Source]*gostatsd.Instance // present key with nil value = negative cache hit
	Sink  chan gostatsd.Source
	Info  chan gostatsd.InstanceInfo
	Tags  int
	Peeks int64
	// AfterPeek, see SetAfterPeek
	AfterPeek func(s gostatsd.Source, hit bool)
}

func NewCachedInstances() *CachedInstances {
	return &CachedInstances{Cache: map[gostatsd.Source]*gostatsd.Instance{}, Sink: make(chan gostatsd.Source), Info: make(chan gostatsd.InstanceInfo)}
}

func (c *CachedInstances) Peek(s gostatsd.Source) (*gostatsd.Instance, bool) {
	atomic.AddInt64(&c.Peeks, 1)
	c.mu.Lock()
	i, ok := c.Cache[s]
	hook := c.AfterPeek
	c.mu.Unlock()
	if hook != nil {
		hook(s, ok) // the answer is decided; whatever the hook does happens before the caller acts on it
	}
	return i, ok
}

// SetAfterPeek installs a function that runs inside Peek after the answer was read from the cache and before it is
// returned: the harness can let something happen between a caller's cache read and its next step.
func (c *CachedInstances) SetAfterPeek(f func(s gostatsd.Source, hit bool)) {
	c.mu.Lock()
	c.AfterPeek = f
	c.mu.Unlock()
}
func (c *CachedInstances) Set(s gostatsd.Source, i *gostatsd.Instance) {
	c.mu.Lock()
	c.Cache[s] = i
	c.mu.Unlock()
}
func (c *CachedInstances) Evict(s gostatsd.Source) {
	c.mu.Lock()
	delete(c.Cache, s)
	c.mu.Unlock()
}
func (c *CachedInstances) IpSink() chan<- gostatsd.Source           { return c.Sink }
func (c *CachedInstances) InfoSource() <-chan gostatsd.InstanceInfo { return c.Info }
func (c *CachedInstances) EstimatedTags() int                       { return c.Tags }

// Backend is a capturing gostatsd.Backend.
type Backend struct {
	mu        sync.Mutex
	BName     string
	Flushes   []*gostatsd.MetricMap // deep copies, one per SendMetricsAsync
	Events    []*gostatsd.Event
	EventGate chan struct{} // when non-nil SendEvent blocks until it can receive from the gate (or it is closed)
	SendErr   error
	InEvent   int32
	// EventDelay > 0: SendEvent takes that long and returns the context's error (without recording) when the context ends first
	EventDelay time.Duration
}

func NewBackend(name string) *Backend { return &Backend{BName: name} }

func (b *Backend) Name() string { return b.BName }

func (b *Backend) SendMetricsAsync(ctx context.Context, mm *gostatsd.MetricMap, cb gostatsd.SendCallback) {
	c := gen.CopyMap(mm)
	b.mu.Lock()
	b.Flushes = append(b.Flushes, c)
	b.mu.Unlock()
	cb(nil)
}

func (b *Backend) SendEvent(ctx context.Context, e *gostatsd.Event) error {
	atomic.AddInt32(&b.InEvent, 1)
	if b.EventDelay > 0 {
		// like a backend that talks to a network: the send takes a moment and gives up when its context ends
		select {
		case <-time.After(b.EventDelay):
		case <-ctx.Done():
			atomic.AddInt32(&b.InEvent, -1)
			return ctx.Err()
		}
	}
	b.mu.Lock()
	gate := b.EventGate
	b.mu.Unlock()
	if gate != nil {
		<-gate
	}
	c := CopyEvent(e)
	b.mu.Lock()
	b.Events = append(b.Events, c)
	b.mu.Unlock()
	atomic.AddInt32(&b.InEvent, -1)
	return b.SendErr
}

// SetEventGate installs (or removes) the gate SendEvent waits at, also while the backend is in use.
func (b *Backend) SetEventGate(g chan struct{}) {
	b.mu.Lock()
	b.EventGate = g
	b.mu.Unlock()
}

// EventsInFlight is the number of SendEvent calls that have started and not finished.
func (b *Backend) EventsInFlight() int32 { return atomic.LoadInt32(&b.InEvent) }

func (b *Backend) Snapshot() ([]*gostatsd.MetricMap, []*gostatsd.Event) {
	b.mu.Lock()
	defer b.mu.Unlock()
	return append([]*gostatsd.MetricMap(nil), b.Flushes...), append([]*gostatsd.Event(nil), b.Events...)
}
