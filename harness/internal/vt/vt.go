// Package vt holds small helpers shared by all check packages.
package vt

import (
	"encoding/json"
	"fmt"
	"os"
	"strings"
	"testing"

	"verifharness/internal/ev"
)

// TB is the subset of testing.TB / rapid.T used for failing.
type TB interface {
	Fatalf(format string, args ...interface{})
	Helper()
}

// Fail reports a violation with a stable signature the driver can match against known findings.
func Fail(t TB, sig string, format string, args ...interface{}) {
	t.Helper()
	t.Fatalf("VSIG[%s] %s", sig, fmt.Sprintf(format, args...))
}

// Main runs the tests of a package and flushes the evidence collector.
func Main(m *testing.M, cleanup ...func()) {
	code := m.Run()
	for _, f := range cleanup {
		f()
	}
	ev.C().Flush()
	os.Exit(code)
}

// Excluded reports whether the known-finding signature sig is excluded from generators
// (the driver passes the signatures that known_findings.json lists as status "known").
func Excluded(sig string) bool {
	for _, s := range strings.Split(os.Getenv("VERIF_EXCLUDE"), ",") {
		if s == sig {
			return true
		}
	}
	return false
}

// Probe prints the result line of a known-finding / regression probe.
func Probe(t *testing.T, sig string, violated bool, detail string) {
	res := "holds"
	if violated {
		res = "violated"
	}
	fmt.Printf("PROBE sig=%s result=%s %s\n", sig, res, detail)
}

// WriteCase stores a human-readable description of a failing case next to the rapid fail file.
func WriteCase(v interface{}) {
	d := os.Getenv("VERIF_SCRATCH")
	if d == "" {
		return
	}
	b, err := json.MarshalIndent(v, "", " ")
	if err != nil {
		b = []byte(fmt.Sprintf("%+v", v))
	}
	os.WriteFile(d+"/case.json", b, 0o644)
}

// Tier returns "quick" or "thorough".
func Tier() string {
	if os.Getenv("VERIF_TIER") == "thorough" {
		return "thorough"
	}
	return "quick"
}
