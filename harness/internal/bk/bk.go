// Package bk builds every bundled backend against a scripted transport (HTTP backends) or a capturing
// loopback listener (socket backends), through the same constructors the server uses (backends.InitBackend).
package bk

import (
	"context"
	"fmt"
	"io"
	"os"
	"time"

	"github.com/atlassian/gostatsd"
	"github.com/atlassian/gostatsd/pkg/backends"
	"github.com/atlassian/gostatsd/pkg/transport"
	"github.com/sirupsen/logrus"
	"github.com/spf13/viper"

	"verifharness/internal/fakes"
)

// Variant names a backend configuration.
type Variant struct {
	Name     string // e.g. "graphite/tags"
	Backend  string
	Settings map[string]interface{} // keys inside the backend's stanza
	Socket   string                 // "", "tcp", "udp"
}

// Options common to all variants.
type Options struct {
	Batch          int // metrics per batch (where the backend has one)
	Compress       bool
	Disabled       gostatsd.TimerSubtypes
	MaxElapsed     string // e.g. "15s" or "-1ns"
	MaxRequests    int
	ResourceKeys   []string
	FlushInterval  string
	OtlpMaxRetries int
	Transport      map[string]interface{} // settings of the "transport.default" block (TRANSPORT.md), e.g. max-idle-connections
}

// Variants lists every bundled backend in every mode the properties name.
func Variants() []Variant {
	return []Variant{
		{Name: "graphite/legacy", Backend: "graphite", Settings: map[string]interface{}{"mode": "legacy"}, Socket: "tcp"},
		{Name: "graphite/basic", Backend: "graphite", Settings: map[string]interface{}{"mode": "basic", "global_suffix": "sfx"}, Socket: "tcp"},
		{Name: "graphite/tags", Backend: "graphite", Settings: map[string]interface{}{"mode": "tags"}, Socket: "tcp"},
		{Name: "statsdaemon/udp", Backend: "statsdaemon", Settings: map[string]interface{}{"tcp_transport": false}, Socket: "udp"},
		{Name: "statsdaemon/tcp", Backend: "statsdaemon", Settings: map[string]interface{}{"tcp_transport": true}, Socket: "tcp"},
		{Name: "statsdaemon/udp-notags", Backend: "statsdaemon", Settings: map[string]interface{}{"tcp_transport": false, "disable_tags": true}, Socket: "udp"},
		{Name: "datadog", Backend: "datadog", Settings: map[string]interface{}{"api_endpoint": "http://datadog.invalid", "api_key": "key"}},
		{Name: "influxdb/v1", Backend: "influxdb", Settings: map[string]interface{}{"api-endpoint": "http://influx.invalid", "api-version": 1, "database": "db"}},
		{Name: "influxdb/v2", Backend: "influxdb", Settings: map[string]interface{}{"api-endpoint": "http://influx.invalid", "api-version": 2, "bucket": "b", "org": "o"}},
		{Name: "newrelic/infra", Backend: "newrelic", Settings: map[string]interface{}{"flush-type": "infra", "address": "http://newrelic.invalid/v1/data"}},
		{Name: "newrelic/insights", Backend: "newrelic", Settings: map[string]interface{}{"flush-type": "insights", "api-key": "k", "address": "http://newrelic.invalid/v1/events"}},
		{Name: "newrelic/metrics", Backend: "newrelic", Settings: map[string]interface{}{"flush-type": "metrics", "api-key": "k", "address": "http://newrelic.invalid/v1/events", "address-metrics": "http://newrelic.invalid/metric/v1"}},
		{Name: "otlp/AsGauge", Backend: "otlp", Settings: map[string]interface{}{"metrics_endpoint": "http://otlp.invalid/v1/metrics", "logs_endpoint": "http://otlp.invalid/v1/logs", "conversion": "AsGauge"}},
		{Name: "otlp/AsHistogram", Backend: "otlp", Settings: map[string]interface{}{"metrics_endpoint": "http://otlp.invalid/v1/metrics", "logs_endpoint": "http://otlp.invalid/v1/logs", "conversion": "AsHistogram"}},
		{Name: "cloudwatch", Backend: "cloudwatch", Settings: map[string]interface{}{"namespace": "NS"}},
		{Name: "stdout", Backend: "stdout", Settings: map[string]interface{}{}},
		{Name: "null", Backend: "null", Settings: map[string]interface{}{}},
	}
}

// Kit is one constructed backend with its fake network.
type Kit struct {
	Variant Variant
	Backend gostatsd.Backend
	RT      *fakes.RT
	Loop    *fakes.Loopback
	cancel  context.CancelFunc
	done    chan struct{}
}

// SetupEnv makes the AWS SDK deterministic and offline (no retries in real time, no IMDS, static credentials)
// and silences logrus.
func SetupEnv() {
	os.Setenv("AWS_REGION", "us-east-1")
	os.Setenv("AWS_ACCESS_KEY_ID", "AKIDVERIF")
	os.Setenv("AWS_SECRET_ACCESS_KEY", "secret")
	os.Setenv("AWS_EC2_METADATA_DISABLED", "true")
	os.Setenv("AWS_MAX_ATTEMPTS", "1")
	os.Setenv("AWS_SHARED_CREDENTIALS_FILE", "/nonexistent")
	os.Setenv("AWS_CONFIG_FILE", "/nonexistent")
	os.Unsetenv("AWS_CA_BUNDLE") // a custom CA bundle cannot be combined with the injected *http.Client
	logrus.SetOutput(io.Discard)
	logrus.SetLevel(logrus.PanicLevel)
}

func disabledMap(d gostatsd.TimerSubtypes) map[string]interface{} {
	return map[string]interface{}{
		"lower": d.Lower, "lower-pct": d.LowerPct, "upper": d.Upper, "upper-pct": d.UpperPct, "count": d.Count, "count-pct": d.CountPct,
		"count-per-second": d.CountPerSecond, "mean": d.Mean, "mean-pct": d.MeanPct, "median": d.Median, "stddev": d.StdDev,
		"sum": d.Sum, "sum-pct": d.SumPct, "sum-squares": d.SumSquares, "sum-squares-pct": d.SumSquaresPct,
	}
}

// New constructs the backend of a variant and starts its Run loop when it has one.
func New(v Variant, o Options) (*Kit, error) {
	k := &Kit{Variant: v}
	cfg := viper.New()
	if o.FlushInterval == "" {
		o.FlushInterval = "1s"
	}
	cfg.Set("flush-interval", o.FlushInterval)
	cfg.Set("disabled-sub-metrics", disabledMap(o.Disabled))
	st := map[string]interface{}{}
	for key, val := range v.Settings {
		st[key] = val
	}
	if o.MaxElapsed == "" {
		o.MaxElapsed = "15s"
	}
	if o.MaxRequests == 0 {
		o.MaxRequests = 4
	}
	if o.Batch == 0 {
		o.Batch = 1000
	}
	switch v.Backend {
	case "datadog":
		st["metrics_per_batch"], st["compress_payload"], st["max_request_elapsed_time"], st["max_requests"] = o.Batch, o.Compress, o.MaxElapsed, o.MaxRequests
	case "influxdb":
		st["metrics-per-batch"], st["compress-payload"], st["max-request-elapsed-time"], st["max-requests"] = o.Batch, o.Compress, o.MaxElapsed, o.MaxRequests
	case "newrelic":
		st["metrics-per-batch"], st["max-request-elapsed-time"], st["max-requests"] = o.Batch, o.MaxElapsed, o.MaxRequests
	case "otlp":
		st["metrics_per_batch"], st["compress_payload"], st["max_requests"], st["resource_keys"] = o.Batch, o.Compress, o.MaxRequests, o.ResourceKeys
		st["max_retries"] = o.OtlpMaxRetries
		st["max_request_elapsed_time"] = o.MaxElapsed
		st["disabled_timer_aggregations"] = disabledOtlp(o.Disabled)
	}
	if v.Socket != "" {
		lp, err := fakes.NewLoopback(v.Socket)
		if err != nil {
			return nil, err
		}
		k.Loop = lp
		st["address"] = lp.Addr
		st["dial_timeout"] = "2s"
		st["write_timeout"] = "5s"
	}
	cfg.Set(v.Backend, st)
	if o.Transport != nil {
		cfg.Set("transport", map[string]interface{}{"default": o.Transport})
	}
	logger := logrus.StandardLogger()
	pool := transport.NewTransportPool(logger, cfg)
	k.RT = fakes.NewRT()
	c, err := pool.Get("default")
	if err != nil {
		return nil, err
	}
	c.Client.Transport = k.RT
	c.Client.Timeout = 0
	b, err := backends.InitBackend(v.Backend, cfg, logger, pool)
	if err != nil {
		k.Close()
		return nil, fmt.Errorf("%s: %w", v.Name, err)
	}
	k.Backend = b
	if r, ok := b.(gostatsd.Runner); ok {
		ctx, cancel := context.WithCancel(context.Background())
		k.cancel = cancel
		k.done = make(chan struct{})
		go func() { defer close(k.done); r.Run(ctx) }()
	}
	return k, nil
}

func disabledOtlp(d gostatsd.TimerSubtypes) map[string]interface{} {
	return map[string]interface{}{
		"Lower": d.Lower, "LowerPct": d.LowerPct, "Upper": d.Upper, "UpperPct": d.UpperPct, "Count": d.Count, "CountPct": d.CountPct,
		"CountPerSecond": d.CountPerSecond, "Mean": d.Mean, "MeanPct": d.MeanPct, "Median": d.Median, "StdDev": d.StdDev,
		"Sum": d.Sum, "SumPct": d.SumPct, "SumSquares": d.SumSquares, "SumSquaresPct": d.SumSquaresPct,
	}
}

// Stop stops the backend's Run loop (a socket backend then closes its connection) and leaves the listener open.
func (k *Kit) Stop() {
	if k.cancel != nil {
		k.cancel()
		select {
		case <-k.done:
		case <-time.After(5 * time.Second):
		}
	}
}

// Close stops the backend's Run loop and the listener.
func (k *Kit) Close() {
	k.Stop()
	if k.Loop != nil {
		k.Loop.Close()
	}
}
