package rig

import (
	"sync"
	"time"

	"github.com/tilinna/clock"
)

// OwnedClock is a mock clock whose tickers are driven by the harness: NewTicker returns the mock's ticker
// with its C replaced by an unbuffered harness-owned channel, so that sending a tick blocks until the
// stage's goroutine has taken it (an exact hand-off instead of "advance the clock and hope").
type OwnedClock struct {
	*clock.Mock
	mu      sync.Mutex
	Tickers []chan time.Time
	created chan struct{}
}

func NewOwnedClock(now time.Time) *OwnedClock {
	return &OwnedClock{Mock: clock.NewMock(now), created: make(chan struct{}, 16)}
}

func (c *OwnedClock) NewTicker(d time.Duration) *clock.Ticker {
	tk := c.Mock.NewTicker(d)
	ch := make(chan time.Time)
	tk.C = ch
	c.mu.Lock()
	c.Tickers = append(c.Tickers, ch)
	c.mu.Unlock()
	select {
	case c.created <- struct{}{}:
	default:
	}
	return tk
}

// Ticker waits (progress wait) until the i-th ticker has been created and returns its channel.
func (c *OwnedClock) Ticker(i int, wait time.Duration) chan time.Time {
	deadline := time.Now().Add(wait)
	for {
		c.mu.Lock()
		if len(c.Tickers) > i {
			ch := c.Tickers[i]
			c.mu.Unlock()
			return ch
		}
		c.mu.Unlock()
		if time.Now().After(deadline) {
			return nil
		}
		select {
		case <-c.created:
		case <-time.After(time.Millisecond):
		}
	}
}
