package rig

import (
	"time"

	"github.com/atlassian/gostatsd/pkg/statsd"
	"github.com/atlassian/gostatsd/pkg/transport"
	"github.com/atlassian/gostatsd/verifhooks"
	"github.com/sirupsen/logrus"
	"github.com/spf13/viper"
)

// ForwarderParams are the settings of an HTTP forwarder, in the constructor's terms.
type ForwarderParams struct {
	Endpoint      string
	Slots         int
	MaxRequests   int
	Merge         int
	Compress      bool
	CompType      string
	Level         int
	Elapsed       time.Duration // -1 = no retries
	FlushInterval time.Duration
	Custom        map[string]string
	Dynamic       []string
}

// NewForwarder builds the forwarder either with its constructor or - fromConfig - the way the server does: from an
// "http-transport" configuration block holding the same settings under their documented keys.
func NewForwarder(fromConfig bool, p ForwarderParams, pool *transport.TransportPool, fc verifhooks.Coordinator) (*statsd.HttpForwarderHandlerV2, error) {
	if !fromConfig {
		return statsd.NewHttpForwarderHandlerV2(logrus.StandardLogger(), "default", p.Endpoint, p.Slots, p.MaxRequests, p.Merge, p.Compress, p.CompType, p.Level, p.Elapsed, p.FlushInterval, p.Custom, p.Dynamic, pool, fc)
	}
	block := map[string]interface{}{
		"transport":          "default",
		"api-endpoint":       p.Endpoint,
		"consolidator-slots": p.Slots,
		"max-requests":       p.MaxRequests,
		"concurrent-merge":   p.Merge,
		"compress":           p.Compress,
		"compression-type":   p.CompType,
		"compression-level":  p.Level,
		"flush-interval":     p.FlushInterval.String(),
	}
	if p.Elapsed == -1 {
		block["max-request-elapsed-time"] = -1 // the documented "no retries"
	} else {
		block["max-request-elapsed-time"] = p.Elapsed.String()
	}
	if len(p.Custom) > 0 {
		block["custom-headers"] = p.Custom
	}
	if len(p.Dynamic) > 0 {
		block["dynamic-headers"] = append([]string(nil), p.Dynamic...)
	}
	v := viper.New()
	v.Set("http-transport", block)
	return statsd.NewHttpForwarderHandlerV2FromViper(logrus.StandardLogger(), v, pool, fc)
}
