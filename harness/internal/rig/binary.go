package rig

import (
	"bufio"
	"fmt"
	"net"
	"os"
	"os/exec"
	"strings"
	"sync"
	"time"
)

// Binary is a running gostatsd command ($GOSTATSD_BIN, built by the driver from the working tree) with the stdout
// backend: the harness sends statsd lines over UDP and reads what the backend prints. Every line is stamped with the
// time it was read.
type Binary struct {
	Addr  string
	Args  []string
	cmd   *exec.Cmd
	conn  net.Conn
	mu    sync.Mutex
	lines []string
	times []time.Time
	done  chan struct{}
	stop  chan struct{}
}

// BinaryPath returns $GOSTATSD_BIN ("" when the driver did not build it).
func BinaryPath() string { return os.Getenv("GOSTATSD_BIN") }

// StartBinary starts gostatsd with --backends stdout --metrics-addr <free loopback port> --statser-type null plus args.
// heartbeat > 0 sends "verif.hb:1|c" at that period so that every flush prints at least the heartbeat's lines.
func StartBinary(args []string, heartbeat time.Duration) (*Binary, error) {
	return StartBinaryEnv(args, nil, heartbeat)
}

// StartBinaryEnv is StartBinary with extra environment variables (GSD_<OPTION> is how options are set there).
func StartBinaryEnv(args, env []string, heartbeat time.Duration) (*Binary, error) {
	pc, err := net.ListenPacket("udp", "127.0.0.1:0")
	if err != nil {
		return nil, err
	}
	addr := pc.LocalAddr().String()
	pc.Close()
	full := append([]string{"--backends", "stdout", "--metrics-addr", addr, "--statser-type", "null"}, args...)
	b := &Binary{Addr: addr, Args: full, done: make(chan struct{}), stop: make(chan struct{})}
	b.cmd = exec.Command(BinaryPath(), full...)
	b.cmd.Env = append(append(os.Environ(), "AWS_CA_BUNDLE="), env...)
	out, err := b.cmd.StderrPipe()
	if err != nil {
		return nil, err
	}
	b.cmd.Stdout = b.cmd.Stderr
	if err := b.cmd.Start(); err != nil {
		return nil, err
	}
	go func() {
		defer close(b.done)
		sc := bufio.NewScanner(out)
		sc.Buffer(make([]byte, 1<<20), 1<<20)
		for sc.Scan() {
			now := time.Now()
			b.mu.Lock()
			b.lines = append(b.lines, sc.Text())
			b.times = append(b.times, now)
			b.mu.Unlock()
		}
	}()
	b.conn, err = net.Dial("udp", addr)
	if err != nil {
		b.Stop()
		return nil, err
	}
	if heartbeat > 0 {
		go func() {
			for {
				select {
				case <-b.stop:
					return
				case <-time.After(heartbeat):
					b.conn.Write([]byte("verif.hb:1|c"))
				}
			}
		}()
	}
	return b, nil
}

// Send writes one datagram.
func (b *Binary) Send(datagram string) { b.conn.Write([]byte(datagram)) }

// Lines returns what has been printed so far.
func (b *Binary) Lines() []string {
	b.mu.Lock()
	defer b.mu.Unlock()
	return append([]string(nil), b.lines...)
}

// Find returns the printed lines that contain sub, with the times they were read.
func (b *Binary) Find(sub string) ([]string, []time.Time) {
	b.mu.Lock()
	defer b.mu.Unlock()
	var ls []string
	var ts []time.Time
	for i, l := range b.lines {
		if strings.Contains(l, sub) {
			ls = append(ls, l)
			ts = append(ts, b.times[i])
		}
	}
	return ls, ts
}

// WaitFor polls until cond holds for the printed lines or the timeout passes.
func (b *Binary) WaitFor(timeout time.Duration, cond func(lines []string) bool) bool {
	deadline := time.Now().Add(timeout)
	for {
		if cond(b.Lines()) {
			return true
		}
		if time.Now().After(deadline) {
			return false
		}
		select {
		case <-b.done:
			return cond(b.Lines())
		case <-time.After(10 * time.Millisecond):
		}
	}
}

// Exited says whether the command's output has ended (the process is gone).
func (b *Binary) Exited() bool {
	select {
	case <-b.done:
		return true
	default:
		return false
	}
}

// AwaitLine (re)sends datagram every 300 ms until a printed line contains sub, the process exits, or the timeout passes.
func (b *Binary) AwaitLine(datagram, sub string, timeout time.Duration) bool {
	deadline := time.Now().Add(timeout)
	last := time.Time{}
	for time.Now().Before(deadline) && !b.Exited() {
		if time.Since(last) > 300*time.Millisecond {
			b.Send(datagram)
			last = time.Now()
		}
		if ls, _ := b.Find(sub); len(ls) > 0 {
			return true
		}
		time.Sleep(10 * time.Millisecond)
	}
	ls, _ := b.Find(sub)
	return len(ls) > 0
}

// Stat is one line of the stdout backend: "<name> <value> <timestamp>".
type Stat struct {
	Name  string
	Value string
	At    time.Time // when the harness read the line
}

// Stats parses the backend's lines out of the command's (logrus-formatted) output.
func (b *Binary) Stats() []Stat {
	b.mu.Lock()
	defer b.mu.Unlock()
	var out []Stat
	for i, l := range b.lines {
		payload := l
		if j := strings.Index(l, `msg="`); j >= 0 {
			payload = l[j+5:]
			if k := strings.IndexByte(payload, '"'); k >= 0 {
				payload = payload[:k]
			}
		}
		if !strings.HasPrefix(payload, "stats.") {
			continue
		}
		f := strings.Fields(payload)
		if len(f) >= 2 {
			out = append(out, Stat{Name: f[0], Value: f[1], At: b.times[i]})
		}
	}
	return out
}

// Serving says whether the command has printed any backend output (a command that never served - port taken between
// probe and start - says nothing about the property).
func (b *Binary) Serving() bool {
	return len(b.Stats()) > 0
}

// Tail renders the first n printed lines for a failure message.
func (b *Binary) Tail(n int) string {
	ls := b.Lines()
	if len(ls) > n {
		ls = ls[:n]
	}
	return strings.Join(ls, " / ")
}

// BindFailed reports that the command gave up because its metrics or web address was taken: the port is probed and released
// before the command binds it, and another process can take it in between. Says nothing about gostatsd.
func (b *Binary) BindFailed() bool {
	for _, l := range b.Lines() {
		if strings.Contains(l, "address already in use") {
			return true
		}
	}
	return false
}

// Stop kills the command and waits for its output to end.
func (b *Binary) Stop() {
	select {
	case <-b.stop:
	default:
		close(b.stop)
	}
	if b.cmd.Process != nil {
		b.cmd.Process.Kill()
	}
	b.cmd.Wait()
	<-b.done
	if b.conn != nil {
		b.conn.Close()
	}
}

// Describe renders the command line.
func (b *Binary) Describe() string { return fmt.Sprintf("gostatsd %s", strings.Join(b.Args, " ")) }
