package rig

import (
	"context"
	"fmt"
	"net"
	"os"
	"strings"
	"sync"
	"time"

	"github.com/atlassian/gostatsd"
	"github.com/atlassian/gostatsd/pkg/statsd"
	"github.com/atlassian/gostatsd/pkg/transport"
	"github.com/sirupsen/logrus"
	"github.com/spf13/viper"

	"verifharness/internal/fakes"
	"verifharness/internal/model"
)

// ServerConfig describes a whole standalone statsd.Server as the gostatsd command assembles it (parser -> cloud stage ->
// tag stage -> aggregators -> flusher -> backends), here with a capturing backend, a loopback UDP socket and a short
// real-time flush interval.
type ServerConfig struct {
	Tune      func(*statsd.Server)     // adjusts the server's settings (what the command line / configuration file would set)
	Settings  map[string]interface{}   // configuration keys read through Viper (filters, http servers, ...)
	Instances gostatsd.CachedInstances // a cloud provider's instance cache, or nil
	OwnSocket bool                     // the server binds MetricsAddr itself (Server.Run) instead of being handed a socket
}

// Server is a running statsd.Server.
type Server struct {
	Addr    string
	Backend *fakes.Backend
	Srv     *statsd.Server
	cancel  context.CancelFunc
	done    chan error
	conn    net.Conn
	seq     int
}

// StartServer runs the server until Stop.
func StartServer(c ServerConfig) (*Server, error) {
	v := viper.New()
	for k, val := range c.Settings {
		v.Set(k, val)
	}
	logger := logrus.StandardLogger()
	b := fakes.NewBackend("capture")
	srv := &statsd.Server{
		Backends:      []gostatsd.Backend{b},
		FlushInterval: 100 * time.Millisecond, MaxReaders: 1, MaxParsers: 1, MaxWorkers: 1, MaxQueueSize: 100, MaxConcurrentEvents: 4, ReceiveBatchSize: 1,
		EstimatedTags: 4, ExpiryIntervalCounter: -1, ExpiryIntervalGauge: -1, ExpiryIntervalSet: -1, ExpiryIntervalTimer: -1,
		StatserType: gostatsd.StatserNull, ServerMode: "standalone", Viper: v, TransportPool: transport.NewTransportPool(logger, v),
		DisableInternalEvents: true, PercentThreshold: []float64{90}, HistogramLimit: 1 << 30,
		CachedInstances: c.Instances,
	}
	if c.Tune != nil {
		c.Tune(srv)
	}
	r := &Server{Backend: b, Srv: srv, done: make(chan error, 1)}
	ctx, cancel := context.WithCancel(context.Background())
	r.cancel = cancel
	if c.OwnSocket {
		port, err := freeUDPPort()
		if err != nil {
			cancel()
			return nil, err
		}
		srv.MetricsAddr = fmt.Sprintf("127.0.0.1:%d", port)
		r.Addr = srv.MetricsAddr
		go func() { r.done <- srv.Run(ctx) }()
	} else {
		pc, err := net.ListenPacket("udp", "127.0.0.1:0")
		if err != nil {
			cancel()
			return nil, err
		}
		if uc, ok := pc.(*net.UDPConn); ok {
			_ = uc.SetReadBuffer(4 << 20)
		}
		r.Addr = pc.LocalAddr().String()
		go func() { r.done <- srv.RunWithCustomSocket(ctx, func() (net.PacketConn, error) { return pc, nil }) }()
	}
	conn, err := net.Dial("udp", r.Addr)
	if err != nil {
		r.Stop()
		return nil, err
	}
	r.conn = conn
	return r, nil
}

var udpPortSeq int

func freeUDPPort() (int, error) {
	base := 20000 + (os.Getpid()*53%200)*100
	for i := 0; i < 100; i++ {
		udpPortSeq++
		p := base + udpPortSeq%100
		pc, err := net.ListenPacket("udp", fmt.Sprintf("127.0.0.1:%d", p))
		if err == nil {
			pc.Close()
			return p, nil
		}
	}
	return 0, fmt.Errorf("no free UDP port")
}

// Send writes one datagram from the rig's own client socket (sender address 127.0.0.1).
func (r *Server) Send(datagram string) error {
	_, err := r.conn.Write([]byte(datagram))
	return err
}

// Barrier sends a sentinel counter and waits until it has been flushed and two more whole flushes have happened: everything
// sent before on the same socket has then been flushed as well (a datapoint can sit in a worker's queue across one flush).
func (r *Server) Barrier(timeout time.Duration) bool {
	r.seq++
	name := fmt.Sprintf("verif.sentinel%d", r.seq)
	deadline := time.Now().Add(timeout)
	seenAt := -1
	lastSend := time.Time{}
	for time.Now().Before(deadline) {
		if seenAt < 0 && time.Since(lastSend) > 500*time.Millisecond {
			// (re)send: a start-up race or a full socket buffer may have eaten the first one
			r.Send(name + ":1|c")
			lastSend = time.Now()
		}
		maps, _ := r.Backend.Snapshot()
		if seenAt < 0 {
			for i, mm := range maps {
				for n := range mm.Counters {
					if strings.HasSuffix(n, name) {
						seenAt = i
					}
				}
			}
		}
		// a flush hands the backend one map per worker: wait for two whole flushes after the one with the sentinel
		if w := r.Srv.MaxWorkers; seenAt >= 0 && w > 0 && len(maps) >= (seenAt/w+3)*w {
			return true
		}
		select {
		case err := <-r.done:
			r.done <- err
			return false
		case <-time.After(5 * time.Millisecond):
		}
	}
	return false
}

// Total folds every flush so far into one aggregate (counters add, timer values concatenate, sets unite, gauges keep
// the newest), leaving out the rig's sentinels and anything whose name starts with one of the skipped prefixes.
func (r *Server) Total(skipPrefixes ...string) model.Agg {
	maps, _ := r.Backend.Snapshot()
	total := model.Agg{}
	for _, mm := range maps {
		total.AddMap(mm)
	}
	for k := range total {
		if strings.Contains(k.Name, "verif.sentinel") {
			delete(total, k)
			continue
		}
		for _, p := range skipPrefixes {
			if strings.HasPrefix(k.Name, p) {
				delete(total, k)
			}
		}
	}
	return total
}

// Flushes returns the flushed maps so far.
func (r *Server) Flushes() []*gostatsd.MetricMap {
	maps, _ := r.Backend.Snapshot()
	return maps
}

// Events returns the events the backend received so far.
func (r *Server) Events() []*gostatsd.Event {
	_, evs := r.Backend.Snapshot()
	return evs
}

// Stop cancels the server and waits for Run to return (30 s); it returns Run's error or a timeout description.
func (r *Server) Stop() error {
	r.cancel()
	if r.conn != nil {
		r.conn.Close()
	}
	select {
	case err := <-r.done:
		r.done <- err
		return err
	case <-time.After(30 * time.Second):
		return fmt.Errorf("Server.Run did not return within 30s of cancellation")
	}
}

// AutoInstances is an instance cache that answers every lookup from a fixed table (nil = unknown source) after an
// optional delay, and serves answered sources from its cache afterwards.
type AutoInstances struct {
	mu      sync.Mutex
	table   map[gostatsd.Source]*gostatsd.Instance
	cache   map[gostatsd.Source]*gostatsd.Instance
	sink    chan gostatsd.Source
	info    chan gostatsd.InstanceInfo
	Delay   time.Duration
	Lookups []gostatsd.Source
	stop    chan struct{}
}

// NewAutoInstances starts the answering goroutine; Close ends it.
func NewAutoInstances(table map[gostatsd.Source]*gostatsd.Instance, delay time.Duration) *AutoInstances {
	a := &AutoInstances{table: table, cache: map[gostatsd.Source]*gostatsd.Instance{}, sink: make(chan gostatsd.Source), info: make(chan gostatsd.InstanceInfo), Delay: delay, stop: make(chan struct{})}
	go func() {
		for {
			select {
			case <-a.stop:
				return
			case s := <-a.sink:
				a.mu.Lock()
				a.Lookups = append(a.Lookups, s)
				inst := a.table[s]
				a.mu.Unlock()
				go func() {
					if a.Delay > 0 {
						select {
						case <-time.After(a.Delay):
						case <-a.stop:
							return
						}
					}
					a.mu.Lock()
					a.cache[s] = inst
					a.mu.Unlock()
					select {
					case a.info <- gostatsd.InstanceInfo{IP: s, Instance: inst}:
					case <-a.stop:
					}
				}()
			}
		}
	}()
	return a
}

func (a *AutoInstances) Peek(s gostatsd.Source) (*gostatsd.Instance, bool) {
	a.mu.Lock()
	defer a.mu.Unlock()
	i, ok := a.cache[s]
	return i, ok
}
func (a *AutoInstances) IpSink() chan<- gostatsd.Source           { return a.sink }
func (a *AutoInstances) InfoSource() <-chan gostatsd.InstanceInfo { return a.info }
func (a *AutoInstances) EstimatedTags() int                       { return 2 }

// LookupCount returns how many lookups were requested.
func (a *AutoInstances) LookupCount() int {
	a.mu.Lock()
	defer a.mu.Unlock()
	return len(a.Lookups)
}

// Close stops answering.
func (a *AutoInstances) Close() { close(a.stop) }
