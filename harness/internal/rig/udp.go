package rig

import (
	"context"
	"fmt"
	"net"
	"os"
	"path/filepath"
	"runtime/debug"
	"strings"
	"time"

	"github.com/atlassian/gostatsd"
	"github.com/atlassian/gostatsd/pkg/stats"
	"github.com/atlassian/gostatsd/pkg/statsd"
	"github.com/sirupsen/logrus"

	"verifharness/internal/fakes"
)

// UDP is the real ingestion front: a DatagramReceiver reading batches from a loopback UDP socket into pooled
// buffers, feeding a real DatagramParser that dispatches into a capturing sink. The harness owns the client socket.
type UDP struct {
	Addr    string
	Sink    *fakes.Sink
	St      *fakes.Statser
	cancel  context.CancelFunc
	client  net.Conn
	panicCh chan string
	seq     int
	done    chan struct{}
	tmpDir  string
}

// NewUDP starts receiver (one reader, the given receive batch size) and parser.
func NewUDP(ns string, ignoreHost bool, estimatedTags, batch int) (*UDP, error) {
	return newDatagramFront("udp", "127.0.0.1:0", ns, ignoreHost, estimatedTags, batch)
}

// NewUnixgram is NewUDP over a unix datagram socket (what a metrics-addr beginning with "/" makes the server listen
// on): it carries datagrams up to the full size of a receive buffer, 65535 bytes. The sender has no address, every
// datapoint's source is gostatsd.UnknownSource.
func NewUnixgram(ns string, ignoreHost bool, estimatedTags, batch int) (*UDP, error) {
	dir, err := os.MkdirTemp("", "vgram")
	if err != nil {
		return nil, err
	}
	u, err := newDatagramFront("unixgram", filepath.Join(dir, "s.sock"), ns, ignoreHost, estimatedTags, batch)
	if err != nil {
		os.RemoveAll(dir)
		return nil, err
	}
	u.tmpDir = dir
	return u, nil
}

func newDatagramFront(network, addr, ns string, ignoreHost bool, estimatedTags, batch int) (*UDP, error) {
	pc, err := net.ListenPacket(network, addr)
	if err != nil {
		return nil, err
	}
	if uc, ok := pc.(*net.UnixConn); ok {
		_ = uc.SetReadBuffer(4 << 20)
	}
	if uc, ok := pc.(*net.UDPConn); ok {
		_ = uc.SetReadBuffer(4 << 20) // room for a queue of largest-size datagrams while the parser is held
	}
	u := &UDP{Addr: pc.LocalAddr().String(), Sink: fakes.NewSink(), St: fakes.NewStatser(), panicCh: make(chan string, 4), done: make(chan struct{})}
	ch := make(chan []*statsd.Datagram, 4)
	recv := statsd.NewDatagramReceiver(ch, func() (net.PacketConn, error) { return pc, nil }, 1, batch)
	dp := statsd.NewDatagramParser(ch, ns, ignoreHost, estimatedTags, u.Sink, 0, false, logrus.StandardLogger())
	ctx, cancel := context.WithCancel(stats.NewContext(context.Background(), u.St))
	u.cancel = cancel
	guard := func(name string, f func()) {
		defer func() {
			if p := recover(); p != nil {
				u.panicCh <- fmt.Sprintf("%s: %v\n%s", name, p, debug.Stack())
			}
		}()
		f()
	}
	go func() {
		guard("receiver", func() { recv.Run(ctx) })
		close(u.done)
	}()
	go guard("parser", func() { dp.Run(ctx) })
	go dp.RunMetricsContext(ctx)
	go recv.RunMetricsContext(ctx)
	u.client, err = net.Dial(network, u.Addr)
	if uc, ok := u.client.(*net.UnixConn); ok {
		_ = uc.SetWriteBuffer(1 << 20)
	}
	if err != nil {
		cancel()
		return nil, err
	}
	return u, nil
}

// Send writes one datagram followed by a sentinel datagram and waits (progress wait) until the sentinel's counter
// has been dispatched: datagrams of one socket are read and parsed in order, so the datagram has then been fully
// handled. Returns "" or a description of a panic / hang.
func (u *UDP) Send(d []byte) string {
	if _, err := u.client.Write(d); err != nil {
		return "WRITE " + err.Error()
	}
	u.seq++
	name := fmt.Sprintf("sentinel%d", u.seq)
	if _, err := u.client.Write([]byte(name + ":1|c")); err != nil {
		return "WRITE " + err.Error()
	}
	deadline := time.Now().Add(60 * time.Second)
	for {
		found := u.Sink.WaitUntil(50*time.Millisecond, func(maps []*gostatsd.MetricMap, _ []*gostatsd.Event) bool {
			for i := len(maps) - 1; i >= 0; i-- {
				for n := range maps[i].Counters {
					if strings.HasSuffix(n, name) {
						return true
					}
				}
			}
			return false
		})
		if found {
			return ""
		}
		select {
		case p := <-u.panicCh:
			return p
		default:
		}
		if time.Now().After(deadline) {
			return "HANG"
		}
	}
}

// Write sends one datagram without waiting for anything. Returns "" or a description of the socket error.
func (u *UDP) Write(d []byte) string {
	if _, err := u.client.Write(d); err != nil {
		return "WRITE " + err.Error()
	}
	return ""
}

// Counters returns the cumulative parser.metrics_received, parser.events_received and parser.bad_lines_seen.
func (u *UDP) Counters() (metrics, events, bad float64) {
	var chans []chan time.Duration
	for i := 0; i < 5000 && len(chans) == 0; i++ {
		chans = u.St.FlushChans()
		if len(chans) == 0 {
			time.Sleep(time.Millisecond)
		}
	}
	for i := 0; i < 2; i++ {
		for _, c := range chans {
			c <- 0
		}
	}
	b, _ := u.St.GaugeValue("parser.bad_lines_seen")
	return u.St.CountValue("parser.metrics_received"), u.St.CountValue("parser.events_received"), b
}

// Received returns the cumulative receiver.datagrams_received: what the kernel handed to the receiver (a datagram
// the kernel dropped because the socket buffer was full is not in it).
func (u *UDP) Received() float64 {
	u.Counters()
	return u.St.CountValue("receiver.datagrams_received")
}

// Close stops receiver and parser and waits for the receiver to release its socket.
func (u *UDP) Close() {
	u.cancel()
	u.client.Close()
	select {
	case <-u.done:
	case <-time.After(10 * time.Second):
	}
	if u.tmpDir != "" {
		os.RemoveAll(u.tmpDir)
	}
}
