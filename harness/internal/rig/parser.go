// Package rig assembles real gostatsd stages with harness-owned inputs and quiescence barriers.
package rig

import (
	"context"
	"fmt"
	"golang.org/x/time/rate"
	"runtime/debug"
	"time"

	"github.com/atlassian/gostatsd"
	"github.com/atlassian/gostatsd/pkg/stats"
	"github.com/atlassian/gostatsd/pkg/statsd"
	"github.com/sirupsen/logrus"

	"verifharness/internal/fakes"
)

// Parser is a real DatagramParser on one goroutine the harness owns, with a capturing sink and statser.
type Parser struct {
	In      chan []*statsd.Datagram
	Sink    *fakes.Sink
	St      *fakes.Statser
	Cancel  context.CancelFunc
	panicCh chan interface{}
}

// ParserBadLineRate and ParserLogRawMetric are the parser's two logging options (bad-line rate limit, 0 = off; raw-metric
// logging) for the parsers NewParser builds; tests draw them. Neither may change what is parsed.
var (
	ParserBadLineRate  rate.Limit
	ParserLogRawMetric bool
)

func NewParser(ns string, ignoreHost bool, estimatedTags int, handler gostatsd.PipelineHandler) *Parser {
	r := &Parser{In: make(chan []*statsd.Datagram), St: fakes.NewStatser(), panicCh: make(chan interface{}, 2)}
	if handler == nil {
		r.Sink = fakes.NewSink()
		handler = r.Sink
	}
	dp := statsd.NewDatagramParser(r.In, ns, ignoreHost, estimatedTags, handler, ParserBadLineRate, ParserLogRawMetric, logrus.StandardLogger())
	ctx, cancel := context.WithCancel(stats.NewContext(context.Background(), r.St))
	r.Cancel = cancel
	go func() {
		defer func() {
			if p := recover(); p != nil {
				r.panicCh <- fmt.Sprintf("%v\n%s", p, debug.Stack())
			}
		}()
		dp.Run(ctx)
	}()
	go dp.RunMetricsContext(ctx)
	return r
}

// Feed sends one batch and waits until the parser has finished it: a sentinel batch's DoneFunc runs only
// after the previous batch was parsed, dispatched and accounted. Returns "" or a panic / "HANG" description.
func (r *Parser) Feed(dgs []*statsd.Datagram) string {
	send := func(b []*statsd.Datagram) string {
		select {
		case r.In <- b:
			return ""
		case p := <-r.panicCh:
			return fmt.Sprint(p)
		case <-time.After(60 * time.Second):
			return "HANG"
		}
	}
	if p := send(dgs); p != "" {
		return p
	}
	done := make(chan struct{})
	if p := send([]*statsd.Datagram{{Msg: nil, DoneFunc: func() { close(done) }}}); p != "" {
		return p
	}
	select {
	case <-done:
	case p := <-r.panicCh:
		return fmt.Sprint(p)
	case <-time.After(60 * time.Second):
		return "HANG"
	}
	return ""
}

// Counters triggers two stats emissions (the second send returning means the first emission completed) and
// returns the cumulative parser.metrics_received, parser.events_received and parser.bad_lines_seen.
func (r *Parser) Counters() (metrics, events, bad float64) {
	var chans []chan time.Duration
	for i := 0; i < 5000 && len(chans) == 0; i++ {
		chans = r.St.FlushChans()
		if len(chans) == 0 {
			time.Sleep(time.Millisecond)
		}
	}
	for i := 0; i < 2; i++ {
		for _, c := range chans {
			c <- 0
		}
	}
	b, _ := r.St.GaugeValue("parser.bad_lines_seen")
	return r.St.CountValue("parser.metrics_received"), r.St.CountValue("parser.events_received"), b
}
