package c14

import (
	"bytes"
	"compress/zlib"
	"context"
	"fmt"
	"io"
	"math"
	"net/http"
	"net/http/httptest"
	"strings"
	"sync/atomic"
	"testing"
	"time"
	"unicode/utf8"

	"github.com/atlassian/gostatsd"
	"github.com/atlassian/gostatsd/pb"
	"github.com/atlassian/gostatsd/pkg/statsd"
	"github.com/atlassian/gostatsd/pkg/transport"
	"github.com/atlassian/gostatsd/pkg/web"
	"github.com/atlassian/gostatsd/verifhooks"
	"github.com/pierrec/lz4/v4"
	"github.com/sirupsen/logrus"
	"github.com/spf13/viper"
	"google.golang.org/protobuf/proto"
	"pgregory.net/rapid"

	"verifharness/internal/ev"
	"verifharness/internal/fakes"
	"verifharness/internal/gen"
	"verifharness/internal/model"
	"verifharness/internal/rig"
	"verifharness/internal/vt"
)

func TestMain(m *testing.M) {
	logrus.SetOutput(io.Discard)
	logrus.SetLevel(logrus.PanicLevel)
	ev.C().Rule("rapid: metric maps with valid-UTF-8 names/tags/sources/members (empty tag lists, empty sources, ',' and ':' inside tags), counters over the int64 range, gauge/timer values incl. 0, -0, +-Inf, NaN, denormals, arbitrary sampled counts, empty timers and sets, plus events with every field, through a real HttpForwarderHandlerV2 (compression off/zlib/lz4 x level 0..9, 1..3 consolidator slots) into the real ingestion router in-process; and arbitrary/corrupt bodies x encodings compared with a reference decode. Non-trivial = map with >= 3 types and a non-finite or sampled value under compression, or a corrupt body that passes decompression")
	vt.Main(m)
}

var strPool = []string{"a", "b", "req.time", "é", "日本", "a,b", "k:v", "k:v:w", "", " ", "x y", "s:1", "host:h", "emoji😀", "tab\t", "new\nline", "nul\x00in"}

func utf8String(label string, allowEmpty bool) *rapid.Generator[string] {
	return rapid.Custom(func(t *rapid.T) string {
		s := rapid.OneOf(rapid.SampledFrom(strPool), rapid.StringN(0, 8, 16)).Draw(t, label)
		if !utf8.ValidString(s) {
			s = strings.ToValidUTF8(s, "?")
		}
		if s == "" && !allowEmpty {
			s = "x"
		}
		return s
	})
}

var floatPool = []float64{0, math.Copysign(0, -1), 1, -1, 2.5, math.Inf(1), math.Inf(-1), math.NaN(), 5e-324, math.MaxFloat64, -math.MaxFloat64, 1e-300, 123456.789}

func floatGen() *rapid.Generator[float64] {
	return rapid.OneOf(rapid.SampledFrom(floatPool), rapid.Float64())
}

// mapGen builds a MetricMap directly (not through Receive) so that every representable aggregate is reachable.
func mapGen() *rapid.Generator[*gostatsd.MetricMap] {
	return rapid.Custom(func(t *rapid.T) *gostatsd.MetricMap {
		mm := gostatsd.NewMetricMap(false)
		n := rapid.IntRange(0, 8).Draw(t, "series")
		for i := 0; i < n; i++ {
			name := utf8String("name", true).Draw(t, "namev")
			var tags gostatsd.Tags
			switch rapid.IntRange(0, 3).Draw(t, "tagkind") {
			case 0:
				tags = nil
			case 1:
				tags = gostatsd.Tags{}
			default:
				tags = gostatsd.Tags(rapid.SliceOfN(utf8String("tag", false), 1, 3).Draw(t, "tags"))
			}
			src := gostatsd.Source(rapid.OneOf(rapid.SampledFrom([]string{"", "1.2.3.4", "i-abc"}), utf8String("src", true)).Draw(t, "source"))
			ts := gostatsd.Nanotime(rapid.Int64Range(1, 5).Draw(t, "ts"))
			key := gostatsd.FormatTagsKey(src, tags.Copy())
			switch rapid.IntRange(0, 3).Draw(t, "type") {
			case 0:
				v := rapid.OneOf(rapid.SampledFrom([]int64{0, 1, -1, math.MaxInt64, math.MinInt64}), rapid.Int64()).Draw(t, "counter")
				if mm.Counters[name] == nil {
					mm.Counters[name] = map[string]gostatsd.Counter{}
				}
				mm.Counters[name][key] = gostatsd.Counter{Value: v, Timestamp: ts, Source: src, Tags: tags}
			case 1:
				if mm.Gauges[name] == nil {
					mm.Gauges[name] = map[string]gostatsd.Gauge{}
				}
				mm.Gauges[name][key] = gostatsd.Gauge{Value: floatGen().Draw(t, "gauge"), Timestamp: ts, Source: src, Tags: tags}
			case 2:
				vals := rapid.SliceOfN(floatGen(), 0, 5).Draw(t, "values")
				sc := rapid.OneOf(rapid.SampledFrom([]float64{0, 1, 10, 0.5, 1e9}), rapid.Float64Range(0, 1e6)).Draw(t, "sampled")
				if mm.Timers[name] == nil {
					mm.Timers[name] = map[string]gostatsd.Timer{}
				}
				if len(vals) == 0 && rapid.Bool().Draw(t, "nilvalues") {
					vals = nil
				}
				mm.Timers[name][key] = gostatsd.Timer{Values: vals, SampledCount: sc, Timestamp: ts, Source: src, Tags: tags}
			default:
				members := map[string]struct{}{}
				for _, m := range rapid.SliceOfN(utf8String("member", true), 0, 4).Draw(t, "members") {
					members[m] = struct{}{}
				}
				if mm.Sets[name] == nil {
					mm.Sets[name] = map[string]gostatsd.Set{}
				}
				mm.Sets[name][key] = gostatsd.Set{Values: members, Timestamp: ts, Source: src, Tags: tags}
			}
		}
		if rapid.IntRange(0, 3).Draw(t, "equal-keys") == 0 {
			// series of different names whose keys are the same string although their tags and sources differ: a key renders
			// the source as ",s:<source>", which a tag "s:<source>" spells as well (what the statsd relay emits). Names
			// differ, so the two never meet in one map slot (that case is the known finding C07:source-tag-key-collision).
			k1 := gostatsd.FormatTagsKey("web1", gostatsd.Tags{"env:prod"})
			k2 := gostatsd.FormatTagsKey("", gostatsd.Tags{"env:prod", "s:web1"})
			mm.Gauges["keytwin.g"] = map[string]gostatsd.Gauge{k1: {Value: 1.5, Timestamp: 2, Source: "web1", Tags: gostatsd.Tags{"env:prod"}}}
			mm.Counters["keytwin.c"] = map[string]gostatsd.Counter{k2: {Value: 7, Timestamp: 2, Tags: gostatsd.Tags{"env:prod", "s:web1"}}}
			mm.Timers["keytwin.t"] = map[string]gostatsd.Timer{k2: {Values: []float64{3}, SampledCount: 1, Timestamp: 2, Tags: gostatsd.Tags{"env:prod", "s:web1"}}}
			mm.Sets["keytwin.s"] = map[string]gostatsd.Set{k1: {Values: map[string]struct{}{"m": {}}, Timestamp: 2, Source: "web1", Tags: gostatsd.Tags{"env:prod"}}}
		}
		return mm
	})
}

type rigT struct {
	fwd    *statsd.HttpForwarderHandlerV2
	fc     verifhooks.Coordinator
	sink   *fakes.Sink
	rt     *fakes.RT
	cancel context.CancelFunc
	done   chan struct{}
	status []int
}

var compNames = []string{"none", "zlib", "lz4"}

// refuseFirst: that many data requests are answered 503 before the ingesting server sees anything (an overloaded
// upstream); retries are enabled then, and what finally arrives must still be what the forwarder was given.
var refuseFirst int32

// forwarderFromConfig (drawn per case): the forwarder is built from an "http-transport" configuration block, as the server
// builds it, instead of with its constructor.
var forwarderFromConfig bool

// compressOff (drawn per case): the forwarder's compress switch is off whatever compression type is configured next to
// it - the body then travels uncompressed and says so.
var compressOff bool

func newRig(t vt.TB, comp string, level, slots int) *rigT {
	r := &rigT{sink: fakes.NewSink(), rt: fakes.NewRT(), fc: verifhooks.NewFlushCoordinator()}
	srv, err := web.NewHttpServer(logrus.StandardLogger(), r.sink, "verif", "127.0.0.1:0", false, false, true, false, nil, nil)
	if err != nil {
		t.Fatalf("%v", err)
	}
	refused := atomic.LoadInt32(&refuseFirst)
	r.rt.Script = func(a *fakes.Attempt) fakes.Reply {
		if len(a.Body) > 0 && atomic.AddInt32(&refused, -1) >= 0 {
			return fakes.Reply{Status: 503, Body: []byte("busy")}
		}
		req := httptest.NewRequest(a.Method, a.URL, bytes.NewReader(a.Body))
		req.Header = a.Header.Clone()
		rec := httptest.NewRecorder()
		srv.Router.ServeHTTP(rec, req)
		return fakes.Reply{Status: rec.Code}
	}
	pool := transport.NewTransportPool(logrus.StandardLogger(), viper.New())
	c, _ := pool.Get("default")
	c.Client.Transport = r.rt
	ctype := comp
	if comp == "none" {
		ctype = "none"
	}
	r.fwd, err = rig.NewForwarder(forwarderFromConfig, rig.ForwarderParams{Endpoint: "http://upstream.invalid", Slots: slots, MaxRequests: 4, Merge: 1, Compress: comp != "none" && !compressOff, CompType: ctype, Level: level, Elapsed: retryWindow(), FlushInterval: time.Hour}, pool, r.fc)
	if err != nil {
		t.Fatalf("forwarder: %v", err)
	}
	ctx, cancel := context.WithCancel(context.Background())
	r.cancel, r.done = cancel, make(chan struct{})
	go func() { r.fwd.Run(ctx); close(r.done) }()
	return r
}

func retryWindow() time.Duration {
	if atomic.LoadInt32(&refuseFirst) > 0 {
		return 3 * time.Second
	}
	return -1
}

func (r *rigT) close() {
	r.cancel()
	select {
	case <-r.done:
	case <-time.After(30 * time.Second):
	}
}

func TestRoundTrip(t *testing.T) {
	rapid.Check(t, func(t *rapid.T) {
		comp := rapid.SampledFrom(compNames).Draw(t, "compression")
		level := rapid.IntRange(0, 9).Draw(t, "level")
		slots := rapid.IntRange(1, 3).Draw(t, "slots")
		atomic.StoreInt32(&refuseFirst, 0)
		if rapid.IntRange(0, 63).Draw(t, "refused-first") == 61 { // rarely: every refusal costs real back-off time
			atomic.StoreInt32(&refuseFirst, int32(rapid.IntRange(1, 2).Draw(t, "refusals")))
		}
		forwarderFromConfig = rapid.Bool().Draw(t, "built-from-configuration")
		compressOff = rapid.IntRange(0, 3).Draw(t, "compress-switch-off") == 0
		r := newRig(t, comp, level, slots)
		defer r.close()
		maps := rapid.SliceOfN(mapGen(), 1, 3).Draw(t, "maps")
		large := 0
		if rapid.IntRange(0, 15).Draw(t, "large-batch") == 11 {
			// a flush far larger than usual: one timer series with so many values that the request body passes 1 MiB on
			// the wire without compression (8 bytes a value), and - the values being hash-like - with lz4 too
			large = rapid.SampledFrom([]int{132000, 140000, 300000}).Draw(t, "large-values")
			mix := uint64(rapid.IntRange(1, 1<<30).Draw(t, "large-mix"))
			vals := make([]float64, large)
			for i := range vals {
				vals[i] = float64(((uint64(i)+mix)*0x9E3779B97F4A7C15)>>11) / 1024
			}
			big := gostatsd.NewMetricMap(false)
			big.Timers["large.timer"] = map[string]gostatsd.Timer{gostatsd.FormatTagsKey("h9", gostatsd.Tags{"k:v"}): {Values: vals, SampledCount: float64(large), Timestamp: 3, Source: "h9", Tags: gostatsd.Tags{"k:v"}}}
			maps = append(maps, big)
		}
		want := model.Agg{}
		types, special := map[gostatsd.MetricType]bool{}, false
		for _, mm := range maps {
			c := gen.CopyMap(mm)
			want.AddMap(c)
			for k, s := range model.FromMap(c) {
				types[k.Type] = true
				for _, v := range s.Values {
					if math.IsNaN(v) || math.IsInf(v, 0) {
						special = true
					}
				}
				for b := range s.GaugeCands {
					v := math.Float64frombits(b)
					if math.IsNaN(v) || math.IsInf(v, 0) {
						special = true
					}
				}
				if k.Type == gostatsd.TIMER && s.SampledCount != float64(len(s.Values)) {
					special = true
				}
			}
			r.fwd.DispatchMetricMap(context.Background(), gen.CopyMap(mm))
		}
		r.fc.Flush()
		waitFlush(t, r.fc)
		got := model.Agg{}
		sm, _ := r.sink.Snapshot()
		for _, mm := range sm {
			if d := model.DupKeys(mm); len(d) > 0 {
				vt.Fail(t, "C14:duplicate-series", "ingestion dispatched a series under two keys: %v", d)
			}
			got.AddMap(mm)
		}
		for _, a := range r.rt.Attempts() {
			if a.Path == "/v2/raw" {
				wantEnc := map[string]string{"none": "identity", "zlib": "deflate", "lz4": "lz4"}[comp]
				if compressOff {
					wantEnc = "identity"
				}
				if a.Header.Get("Content-Encoding") != wantEnc {
					vt.Fail(t, "C14:content-encoding", "compression %s sent Content-Encoding %q", comp, a.Header.Get("Content-Encoding"))
				}
			}
		}
		if d := model.Diff(got, want, model.Opts{IgnoreTimestamps: true, FloatBits: true, SampledTol: 1e-12}); d != "" {
			vt.WriteCase(map[string]interface{}{"compression": comp, "level": level, "slots": slots, "maps": describe(maps)})
			vt.Fail(t, "C14:roundtrip-metrics", "compression=%s level=%d slots=%d: what the ingesting server dispatched differs from what the forwarder was given: %s", comp, level, slots, d)
		}

		// events
		nev := rapid.IntRange(0, 3).Draw(t, "events")
		var sent []*gostatsd.Event
		for i := 0; i < nev; i++ {
			e := &gostatsd.Event{
				Title: utf8String("title", true).Draw(t, "titlev"), Text: utf8String("text", true).Draw(t, "textv"),
				DateHappened:   rapid.OneOf(rapid.SampledFrom([]int64{0, 1, math.MaxInt64, -1}), rapid.Int64()).Draw(t, "date"),
				AggregationKey: utf8String("agg", true).Draw(t, "aggv"), SourceTypeName: utf8String("stn", true).Draw(t, "stnv"),
				Source:    gostatsd.Source(utf8String("esrc", true).Draw(t, "esrcv")),
				Priority:  rapid.SampledFrom([]gostatsd.Priority{gostatsd.PriNormal, gostatsd.PriLow}).Draw(t, "prio"),
				AlertType: rapid.SampledFrom([]gostatsd.AlertType{gostatsd.AlertInfo, gostatsd.AlertWarning, gostatsd.AlertError, gostatsd.AlertSuccess}).Draw(t, "alert"),
			}
			if rapid.Bool().Draw(t, "hastags") {
				e.Tags = gostatsd.Tags(rapid.SliceOfN(utf8String("etag", false), 1, 3).Draw(t, "etags"))
			}
			sent = append(sent, e)
			r.fwd.DispatchEvent(context.Background(), fakes.CopyEvent(e))
		}
		r.fwd.WaitForEvents()
		_, gotEv := r.sink.Snapshot()
		if len(gotEv) != len(sent) {
			vt.Fail(t, "C14:roundtrip-events", "%d events sent, %d dispatched by the ingesting server", len(sent), len(gotEv))
		}
		used := make([]bool, len(gotEv))
		for _, e := range sent {
			found := false
			for i, g := range gotEv {
				if !used[i] && fmt.Sprintf("%+v", *g) == fmt.Sprintf("%+v", normEvent(e)) {
					used[i], found = true, true
					break
				}
			}
			if !found {
				vt.Fail(t, "C14:roundtrip-events", "event %+v was not dispatched unchanged; got %s", *e, describeEvents(gotEv))
			}
		}
		for _, a := range r.rt.Attempts() {
			_ = a
		}
		nt := len(types) >= 3 && special && comp != "none"
		labels := []string{"roundtrip", "compression=" + comp, fmt.Sprintf("slots=%d", slots)}
		if special {
			labels = append(labels, "non-finite-or-sampled")
		}
		if large > 0 {
			labels = append(labels, "body-over-1MiB")
		}
		if ev.C().WantSample() {
			ev.C().Sample(map[string]interface{}{"compression": comp, "level": level, "slots": slots, "maps": describe(maps), "events": len(sent)})
		}
		ev.C().Case(fmt.Sprintf("R|%s|%d|%d|%v|%d", comp, level, slots, describe(maps), nev), nt, labels...)
	})
}

// normEvent: an empty tag list decodes as nil.
func normEvent(e *gostatsd.Event) gostatsd.Event {
	c := *e
	if len(c.Tags) == 0 {
		c.Tags = nil
	}
	return c
}

func describeEvents(es []*gostatsd.Event) string {
	var sb strings.Builder
	for _, e := range es {
		fmt.Fprintf(&sb, "%+v; ", *e)
	}
	return sb.String()
}

func describe(maps []*gostatsd.MetricMap) [][]string {
	var out [][]string
	for _, m := range maps {
		out = append(out, gen.DescribeMap(m))
	}
	return out
}

func waitFlush(t vt.TB, fc verifhooks.Coordinator) {
	done := make(chan struct{})
	go func() { fc.WaitForFlush(); close(done) }()
	select {
	case <-done:
	case <-time.After(30 * time.Second):
		vt.Fail(t, "C14:flush-never-notified", "forwarder did not finish the flush within 30s")
	}
}

// ---------- differential decode of arbitrary bodies ----------

func refDecode(body []byte, enc string) ([]byte, bool) {
	switch enc {
	case "", "identity":
		return body, true
	case "deflate":
		zr, err := zlib.NewReader(bytes.NewReader(body))
		if err != nil {
			return nil, false
		}
		out, err := io.ReadAll(zr)
		if err != nil {
			return nil, false
		}
		return out, true
	case "lz4":
		out, err := io.ReadAll(lz4.NewReader(bytes.NewReader(body)))
		if err != nil {
			return nil, false
		}
		return out, true
	}
	return nil, false
}

func aggFromProto(msg *pb.RawMessageV2) model.Agg {
	a := model.Agg{}
	for n, tm := range msg.Counters {
		for _, c := range tm.TagMap {
			a.AddCounter(model.MakeKey(gostatsd.COUNTER, n, c.Tags, c.Hostname), c.Value, 0)
		}
	}
	for n, tm := range msg.Gauges {
		for _, c := range tm.TagMap {
			a.AddGauge(model.MakeKey(gostatsd.GAUGE, n, c.Tags, c.Hostname), c.Value, 0)
		}
	}
	for n, tm := range msg.Timers {
		for _, c := range tm.TagMap {
			a.AddTimer(model.MakeKey(gostatsd.TIMER, n, c.Tags, c.Hostname), c.Values, c.SampleCount, 0)
		}
	}
	for n, tm := range msg.Sets {
		for _, c := range tm.TagMap {
			m := map[string]struct{}{}
			for _, v := range c.Values {
				m[v] = struct{}{}
			}
			a.AddSet(model.MakeKey(gostatsd.SET, n, c.Tags, c.Hostname), m, 0)
		}
	}
	return a
}

func encode(mm *gostatsd.MetricMap) []byte {
	msg := &pb.RawMessageV2{Gauges: map[string]*pb.GaugeTagV2{}, Counters: map[string]*pb.CounterTagV2{}, Sets: map[string]*pb.SetTagV2{}, Timers: map[string]*pb.TimerTagV2{}}
	mm.Counters.Each(func(n, k string, c gostatsd.Counter) {
		if msg.Counters[n] == nil {
			msg.Counters[n] = &pb.CounterTagV2{TagMap: map[string]*pb.RawCounterV2{}}
		}
		msg.Counters[n].TagMap[k] = &pb.RawCounterV2{Tags: c.Tags, Hostname: string(c.Source), Value: c.Value}
	})
	mm.Gauges.Each(func(n, k string, c gostatsd.Gauge) {
		if msg.Gauges[n] == nil {
			msg.Gauges[n] = &pb.GaugeTagV2{TagMap: map[string]*pb.RawGaugeV2{}}
		}
		msg.Gauges[n].TagMap[k] = &pb.RawGaugeV2{Tags: c.Tags, Hostname: string(c.Source), Value: c.Value}
	})
	mm.Timers.Each(func(n, k string, c gostatsd.Timer) {
		if msg.Timers[n] == nil {
			msg.Timers[n] = &pb.TimerTagV2{TagMap: map[string]*pb.RawTimerV2{}}
		}
		msg.Timers[n].TagMap[k] = &pb.RawTimerV2{Tags: c.Tags, Hostname: string(c.Source), Values: c.Values, SampleCount: c.SampledCount}
	})
	mm.Sets.Each(func(n, k string, c gostatsd.Set) {
		if msg.Sets[n] == nil {
			msg.Sets[n] = &pb.SetTagV2{TagMap: map[string]*pb.RawSetV2{}}
		}
		var vs []string
		for v := range c.Values {
			vs = append(vs, v)
		}
		msg.Sets[n].TagMap[k] = &pb.RawSetV2{Tags: c.Tags, Hostname: string(c.Source), Values: vs}
	})
	b, _ := proto.Marshal(msg)
	return b
}

func compress(kind string, in []byte, level int) []byte {
	var out bytes.Buffer
	switch kind {
	case "deflate":
		web.CompressWithZlib(in, &out, level)
	case "lz4":
		web.CompressWithLz4(in, &out, level)
	default:
		return in
	}
	return out.Bytes()
}

var (
	difSink = fakes.NewSink()
	difSrv  http.Handler
)

func difRouter(t vt.TB) http.Handler {
	if difSrv == nil {
		srv, err := web.NewHttpServer(logrus.StandardLogger(), difSink, "verif", "127.0.0.1:0", false, false, true, false, nil, nil)
		if err != nil {
			t.Fatalf("%v", err)
		}
		difSrv = srv.Router
	}
	return difSrv
}

func differential(t vt.TB, body []byte, enc string) (passes bool, status int) {
	router := difRouter(t)
	difSink.Reset()
	req := httptest.NewRequest("POST", "/v2/raw", bytes.NewReader(body))
	if enc != "" {
		req.Header.Set("Content-Encoding", enc)
	}
	rec := httptest.NewRecorder()
	router.ServeHTTP(rec, req)
	maps, _ := difSink.Snapshot()
	plain, ok := refDecode(body, enc)
	var msg pb.RawMessageV2
	if ok {
		ok = proto.Unmarshal(plain, &msg) == nil
	}
	if !ok {
		if rec.Code < 400 || rec.Code > 599 {
			vt.Fail(t, "C14:undecodable-accepted", "body (%d bytes, encoding %q) cannot be read/decompressed/decoded but was answered %d", len(body), enc, rec.Code)
		}
		if len(maps) != 0 {
			vt.Fail(t, "C14:undecodable-dispatched", "undecodable body dispatched %d maps", len(maps))
		}
		return false, rec.Code
	}
	if rec.Code != 202 {
		vt.Fail(t, "C14:decodable-refused", "body decodes under encoding %q but was answered %d", enc, rec.Code)
	}
	got := model.Agg{}
	for _, m := range maps {
		got.AddMap(m)
	}
	if d := model.Diff(got, aggFromProto(&msg), model.Opts{IgnoreTimestamps: true, FloatBits: true}); d != "" {
		vt.Fail(t, "C14:decode-differs", "dispatched data differs from the reference decode: %s", d)
	}
	return true, rec.Code
}

func TestIngestDifferential(t *testing.T) {
	rapid.Check(t, func(t *rapid.T) {
		plain := encode(mapGen().Draw(t, "map"))
		kind := "valid"
		switch rapid.IntRange(0, 5).Draw(t, "damage") {
		case 1:
			if len(plain) > 0 {
				plain = plain[:rapid.IntRange(0, len(plain)-1).Draw(t, "cut")]
				kind = "truncated"
			}
		case 2:
			if len(plain) > 0 {
				plain = append([]byte(nil), plain...)
				plain[rapid.IntRange(0, len(plain)-1).Draw(t, "flip")] ^= 1 << uint(rapid.IntRange(0, 7).Draw(t, "bit"))
				kind = "bit-flipped"
			}
		case 3:
			plain = rapid.SliceOfN(rapid.Byte(), 0, 100).Draw(t, "random")
			kind = "random"
		}
		wire := rapid.SampledFrom([]string{"", "deflate", "lz4"}).Draw(t, "wire")
		body := compress(wire, plain, rapid.IntRange(0, 9).Draw(t, "level"))
		if rapid.IntRange(0, 4).Draw(t, "damage-compressed") == 0 && len(body) > 0 {
			body = append([]byte(nil), body...)
			body[rapid.IntRange(0, len(body)-1).Draw(t, "cflip")] ^= 1 << uint(rapid.IntRange(0, 7).Draw(t, "cbit"))
			kind += "+compressed-damaged"
		}
		enc := wire
		if rapid.IntRange(0, 3).Draw(t, "mismatch") == 0 {
			enc = rapid.SampledFrom([]string{"", "identity", "deflate", "lz4", "gzip"}).Draw(t, "enc")
		}
		passes, status := differential(t, body, enc)
		_, dec := refDecode(body, enc)
		labels := []string{"differential", "body=" + kind, fmt.Sprintf("status=%d", status)}
		if passes {
			labels = append(labels, "decodes")
		}
		ev.C().Case(fmt.Sprintf("D|%s|%x", enc, body), kind != "valid" && dec && enc != "" && enc != "identity", labels...)
	})
}

func FuzzIngestBody(f *testing.F) {
	good := encode(gen.MapFromMetrics([]*gostatsd.Metric{{Name: "n", Type: gostatsd.TIMER, Value: 3, Rate: 0.5, Tags: gostatsd.Tags{"a:b"}}, {Name: "s", Type: gostatsd.SET, StringValue: "x", Rate: 1}, {Name: "c", Type: gostatsd.COUNTER, Value: 5, Rate: 1, Source: "h"}}))
	for e := 0; e < 3; e++ {
		f.Add(good, byte(e))
		f.Add(compress("deflate", good, 6), byte(e))
		f.Add(compress("lz4", good, 3), byte(e))
		f.Add([]byte{}, byte(e))
	}
	f.Fuzz(func(t *testing.T, body []byte, e byte) {
		if len(body) > 1<<16 {
			return
		}
		differential(t, body, []string{"", "deflate", "lz4"}[int(e)%3])
	})
}
