package c14

import (
	"bytes"
	"context"
	"fmt"
	"net/http/httptest"
	"sync/atomic"
	"testing"
	"time"

	"github.com/atlassian/gostatsd"
	"github.com/atlassian/gostatsd/pkg/transport"
	"github.com/atlassian/gostatsd/pkg/web"
	"github.com/sirupsen/logrus"
	"github.com/spf13/viper"
	"pgregory.net/rapid"

	"verifharness/internal/ev"
	"verifharness/internal/fakes"
	"verifharness/internal/model"
	"verifharness/internal/rig"
	"verifharness/internal/vt"
)

var overloadPatienceMs int64 = 20000

// TestBatchesWaitForARequestSlot: a forwarder with one or two request slots (max-requests) flushing every 10 ms into an
// ingesting server that takes 60..150 ms per request - longer than the forwarder's retry budget (20..40 ms), and
// slower than batches are produced. No request fails; batches queue for a slot. Every batch the forwarder was given
// comes out of the ingesting server's pipeline, however long it had to wait for its slot.
func TestBatchesWaitForARequestSlot(t *testing.T) {
	rapid.Check(t, func(t *rapid.T) {
		delay := time.Duration(rapid.SampledFrom([]int{60, 100, 150}).Draw(t, "ingest-ms-per-request")) * time.Millisecond
		budget := time.Duration(rapid.SampledFrom([]int{20, 40}).Draw(t, "max-request-elapsed-ms")) * time.Millisecond
		slots := rapid.SampledFrom([]int{1, 1, 2}).Draw(t, "max-requests")
		n := rapid.IntRange(3, 7).Draw(t, "batches")
		gap := time.Duration(rapid.SampledFrom([]int{5, 25, 40}).Draw(t, "ms-between-batches")) * time.Millisecond
		sink := fakes.NewSink()
		srv, err := web.NewHttpServer(logrus.StandardLogger(), sink, "verif", "127.0.0.1:0", false, false, true, false, nil, nil)
		if err != nil {
			t.Fatalf("%v", err)
		}
		rt := fakes.NewRT()
		var busy, maxBusy int32
		rt.Script = func(a *fakes.Attempt) fakes.Reply {
			if len(a.Body) > 0 {
				b := atomic.AddInt32(&busy, 1)
				for {
					m := atomic.LoadInt32(&maxBusy)
					if b <= m || atomic.CompareAndSwapInt32(&maxBusy, m, b) {
						break
					}
				}
				time.Sleep(delay)
				defer atomic.AddInt32(&busy, -1)
			}
			req := httptest.NewRequest(a.Method, a.URL, bytes.NewReader(a.Body))
			req.Header = a.Header.Clone()
			rec := httptest.NewRecorder()
			srv.Router.ServeHTTP(rec, req)
			return fakes.Reply{Status: rec.Code}
		}
		pool := transport.NewTransportPool(logrus.StandardLogger(), viper.New())
		c, _ := pool.Get("default")
		c.Client.Transport = rt
		fwd, err := rig.NewForwarder(rapid.Bool().Draw(t, "built-from-configuration"), rig.ForwarderParams{Endpoint: "http://upstream.invalid", Slots: 2, MaxRequests: slots, Merge: 1,
			Compress: false, CompType: "none", Level: 0, Elapsed: budget, FlushInterval: 10 * time.Millisecond}, pool, nil)
		if err != nil {
			t.Fatalf("forwarder: %v", err)
		}
		ctx, cancel := context.WithCancel(context.Background())
		done := make(chan struct{})
		go func() { fwd.Run(ctx); close(done) }()
		defer func() {
			cancel()
			select {
			case <-done:
			case <-time.After(30 * time.Second):
			}
		}()
		want := model.Agg{}
		for i := 0; i < n; i++ {
			m := &gostatsd.Metric{Name: fmt.Sprintf("batch%02d", i), Type: gostatsd.COUNTER, Value: float64(i + 1), Rate: 1, Tags: gostatsd.Tags{"k:v"}, Source: "h1", Timestamp: 1}
			mm := gostatsd.NewMetricMap(false)
			mm.Receive(m)
			want.AddMap(mm)
			c := gostatsd.NewMetricMap(false)
			c.Receive(&gostatsd.Metric{Name: m.Name, Type: m.Type, Value: m.Value, Rate: 1, Tags: gostatsd.Tags{"k:v"}, Source: "h1", Timestamp: 1})
			fwd.DispatchMetricMap(ctx, c)
			time.Sleep(gap)
		}
		desc := fmt.Sprintf("max-requests=%d max-request-elapsed-time=%v, the ingesting server takes %v per request, %d batches %v apart", slots, budget, delay, n, gap)
		deadline := time.Now().Add(time.Duration(atomic.LoadInt64(&overloadPatienceMs)) * time.Millisecond)
		var d string
		for {
			maps, _ := sink.Snapshot()
			got := model.Agg{}
			for _, mm := range maps {
				got.AddMap(mm)
			}
			if d = model.Diff(got, want, model.Opts{IgnoreTimestamps: true}); d == "" {
				break
			}
			if time.Now().After(deadline) {
				atomic.StoreInt64(&overloadPatienceMs, 3000) // rapid shrinking the case: 3 s instead of 20
				vt.Fail(t, "C14:batch-never-arrived", "batches the forwarder was given did not come out of the ingesting server although no request failed: %s (%s)", d, desc)
			}
			time.Sleep(2 * time.Millisecond)
		}
		queued := time.Duration(n)*delay/time.Duration(slots) > time.Duration(n)*gap+budget
		ev.C().Case("O|"+desc, queued, "overload", fmt.Sprintf("slots-all-busy=%v", atomic.LoadInt32(&maxBusy) >= int32(slots)))
		if ev.C().WantSample() {
			ev.C().Sample(map[string]interface{}{"overload": desc, "requests_in_flight_at_most": atomic.LoadInt32(&maxBusy)})
		}
	})
}
