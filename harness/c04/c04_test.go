package c04

import (
	"context"
	"encoding/json"
	"fmt"
	"math"
	"os"
	"runtime/debug"
	"strings"
	"sync"
	"sync/atomic"
	"testing"
	"time"

	"github.com/atlassian/gostatsd"
	"github.com/atlassian/gostatsd/pkg/statsd"
	"pgregory.net/rapid"

	"verifharness/internal/bk"
	"verifharness/internal/ev"
	"verifharness/internal/vt"
)

func TestMain(m *testing.M) {
	bk.SetupEnv()
	ev.C().Rule("rapid state machine: aggregator configuration (0..4 integer percentiles in [-100,100] incl. 0 and +-100, histogram limit in {0,1,2,5,max}, sub-metric masks) x history of merge(batch)/flush over counters, gauges, sets and timers (0..12 values incl. +-Inf, huge, equal; with and without gsd_histogram tags incl. empty, malformed, duplicate, inf and nan bucket lists), idle flushes forced; after each Flush the same map goes to every bundled backend variant (17) under a drawn batch size / compression. Non-trivial = history with an idle flush of a timer, or a negative percentile with n<=5, or a histogram tag under limit 0/1, reaching >= 3 backends")
	vt.Main(m, func() {
		kitMu.Lock()
		defer kitMu.Unlock()
		for _, ks := range kits {
			for _, k := range ks {
				if k.Loop != nil {
					k.Loop.Close() // resets the loopback connections: no TIME_WAIT entries left behind
				}
			}
		}
	})
}

type optKey struct {
	batch    int
	compress bool
	mask     int
}

var masks = []gostatsd.TimerSubtypes{
	{},
	{Lower: true, LowerPct: true, Upper: true, UpperPct: true, Count: true, CountPct: true, CountPerSecond: true, Mean: true, MeanPct: true, Median: true, StdDev: true, Sum: true, SumPct: true, SumSquares: true, SumSquaresPct: true},
	{Lower: true, UpperPct: true, CountPct: true, Mean: true, Median: true, SumPct: true, SumSquares: true},
	// every base aggregation off, the percentile ones on: a timer without percentiles then has nothing to report
	{Lower: true, Upper: true, Count: true, CountPerSecond: true, Mean: true, Median: true, StdDev: true, Sum: true, SumSquares: true},
	// the reverse
	{LowerPct: true, UpperPct: true, CountPct: true, MeanPct: true, SumPct: true, SumSquaresPct: true},
	// one survivor
	{Lower: true, LowerPct: true, Upper: true, UpperPct: true, Count: true, CountPct: true, CountPerSecond: true, Mean: true, MeanPct: true, StdDev: true, Sum: true, SumPct: true, SumSquares: true, SumSquaresPct: true},
}

var (
	kitMu sync.Mutex
	kits  = map[optKey][]*bk.Kit{}
)

func kitsFor(t vt.TB, k optKey) []*bk.Kit {
	kitMu.Lock()
	defer kitMu.Unlock()
	if ks, ok := kits[k]; ok {
		return ks
	}
	var ks []*bk.Kit
	for _, v := range bk.Variants() {
		kit, err := bk.New(v, bk.Options{Batch: k.batch, Compress: k.compress, Disabled: masks[k.mask], ResourceKeys: []string{"env", "service"}})
		if err != nil {
			t.Fatalf("constructing backend %s: %v", v.Name, err)
		}
		ks = append(ks, kit)
	}
	kits[k] = ks
	return ks
}

var histTags = []string{"gsd_histogram:1_5_10", "gsd_histogram:", "gsd_histogram:incorrect", "gsd_histogram:10__20_50", "gsd_histogram:5_5_1", "gsd_histogram:inf_-inf_1",
	"gsd_histogram:nan_1", "gsd_histogram:-10_0_2.5", "gsd_histogram:1e400_2", "gsd_histogram:_", "gsd_histogram:+Inf",
	// wide histograms: more buckets than a plain timer has sub-metrics
	"gsd_histogram:1_2_3_4_5_6_7_8_9_10_11_12_13_14", "gsd_histogram:-5_-4_-3_-2_-1_0_1_2_3_4_5_6_7_8_9_10_20_30_40_50_60_70_80_90_100_200_300_400_500_1000"}

var specialValues = []float64{0, 1, -1, 2.5, 1e300, -1e300, math.Inf(1), math.Inf(-1), math.MaxFloat64, 5e-324, 1e-9, 42, 42, 42}

type series struct {
	typ  gostatsd.MetricType
	name string
	tags gostatsd.Tags
	src  gostatsd.Source
}

func seriesGen() *rapid.Generator[series] {
	return rapid.Custom(func(t *rapid.T) series {
		s := series{
			typ:  rapid.SampledFrom([]gostatsd.MetricType{gostatsd.TIMER, gostatsd.TIMER, gostatsd.TIMER, gostatsd.COUNTER, gostatsd.GAUGE, gostatsd.SET}).Draw(t, "type"),
			name: rapid.SampledFrom([]string{"a", "req.time", "statsd.x", "b"}).Draw(t, "name"),
			src:  gostatsd.Source(rapid.SampledFrom([]string{"", "1.2.3.4"}).Draw(t, "source")),
		}
		s.tags = gostatsd.Tags(rapid.SliceOfNDistinct(rapid.SampledFrom([]string{"env:prod", "service:web", "x", "k:v", "host:h1", "statsdSource:z", "le:1", "a:b:c", "n:42"}), 0, 3, rapid.ID[string]).Draw(t, "tags"))
		// many tags: backends with a limit on tags / dimensions / attributes per datum (9, 10, 11, 12, 30 extra ones)
		if extra := rapid.SampledFrom([]int{0, 0, 0, 0, 6, 7, 8, 9, 30}).Draw(t, "many-tags"); extra > 0 {
			for i := 0; i < extra; i++ {
				s.tags = append(s.tags, fmt.Sprintf("t%d:%d", i, i))
			}
		}
		if s.typ == gostatsd.TIMER && rapid.IntRange(0, 1).Draw(t, "hist") == 0 {
			s.tags = append(s.tags, rapid.SampledFrom(histTags).Draw(t, "histtag"))
		}
		return s
	})
}

type journal struct {
	Test    string   `json:"test"`
	Seed    string   `json:"seed"`
	Case    int64    `json:"case"`
	Config  string   `json:"config"`
	History []string `json:"history"`
}

var caseNo int64

func writeJournal(j *journal) {
	if p := os.Getenv("VERIF_JOURNAL"); p != "" {
		b, _ := json.MarshalIndent(j, "", " ")
		os.WriteFile(p, b, 0o644)
	}
}

func clearJournal() {
	if p := os.Getenv("VERIF_JOURNAL"); p != "" {
		os.Remove(p)
	}
}

func TestFlushNeverCrashes(t *testing.T) {
	rapid.Check(t, func(t *rapid.T) {
		np := rapid.IntRange(0, 4).Draw(t, "npct")
		var pcts []float64
		neg := false
		for i := 0; i < np; i++ {
			p := rapid.OneOf(rapid.SampledFrom([]int{-100, 100, 0, -90, 90, -1, 1, -50, 99, -99}), rapid.IntRange(-100, 100)).Draw(t, "pct")
			pcts = append(pcts, float64(p))
			neg = neg || p < 0
		}
		limit := rapid.SampledFrom([]uint32{0, 1, 2, 5, math.MaxUint32}).Draw(t, "histogram-limit")
		ok := optKey{batch: rapid.SampledFrom([]int{1, 7, 21, 40, 1000}).Draw(t, "batch"), compress: rapid.Bool().Draw(t, "compress"), mask: rapid.IntRange(0, len(masks)-1).Draw(t, "mask")}
		ks := kitsFor(t, ok)
		agg := statsd.NewMetricAggregator(pcts, 0, 0, 0, 0, masks[ok.mask], limit)
		pool := rapid.SliceOfN(seriesGen(), 1, 5).Draw(t, "series")
		j := &journal{Test: "TestFlushNeverCrashes", Seed: os.Getenv("VERIF_SEED"), Case: atomic.AddInt64(&caseNo, 1),
			Config: fmt.Sprintf("percentiles=%v limit=%d batch=%d compress=%v mask=%d", pcts, limit, ok.batch, ok.compress, ok.mask)}
		pending := map[int]int{} // timer series index -> values since last flush
		seen := map[int]bool{}
		idleTimerFlush, smallNeg, histLow := false, false, false
		backendsReached := 0

		t.Repeat(map[string]func(*rapid.T){
			"merge": func(t *rapid.T) {
				mm := gostatsd.NewMetricMap(false)
				n := rapid.IntRange(1, 4).Draw(t, "points-series")
				for i := 0; i < n; i++ {
					si := rapid.IntRange(0, len(pool)-1).Draw(t, "si")
					s := pool[si]
					k := 1
					if s.typ == gostatsd.TIMER {
						k = rapid.IntRange(1, 12).Draw(t, "nvalues")
					}
					for x := 0; x < k; x++ {
						m := &gostatsd.Metric{Name: s.name, Type: s.typ, Tags: s.tags.Copy(), Source: s.src, Rate: rapid.SampledFrom([]float64{1, 1, 0.1}).Draw(t, "rate"), Timestamp: 1}
						if s.typ == gostatsd.SET {
							m.StringValue = rapid.SampledFrom([]string{"a", "b", ""}).Draw(t, "member")
						} else {
							m.Value = rapid.SampledFrom(specialValues).Draw(t, "value")
						}
						mm.Receive(m)
					}
					if s.typ == gostatsd.TIMER {
						pending[si] += k
					}
					seen[si] = true
					j.History = append(j.History, fmt.Sprintf("merge %v %s tags=%v x%d", s.typ, s.name, s.tags, k))
				}
				agg.ReceiveMap(mm)
			},
			"flush": func(t *rapid.T) {
				j.History = append(j.History, "flush")
				writeJournal(j)
				for si, s := range pool {
					if s.typ != gostatsd.TIMER || !seen[si] {
						continue
					}
					isHist := strings.Contains(strings.Join(s.tags, ","), "gsd_histogram:")
					if pending[si] == 0 {
						idleTimerFlush = true
					}
					if neg && !isHist && pending[si] >= 1 && pending[si] <= 5 {
						smallNeg = true
					}
					if isHist && limit <= 1 {
						histLow = true
					}
				}
				func() {
					defer func() {
						if p := recover(); p != nil {
							vt.WriteCase(map[string]interface{}{"config": j.Config, "history": j.History, "panic": fmt.Sprint(p), "stack": string(debug.Stack())})
							vt.Fail(t, "C04:aggregator-flush-panic", "Aggregator.Flush panicked (%s): %v; history %v", j.Config, p, j.History)
						}
					}()
					agg.Flush(10 * time.Second)
				}()
				agg.Process(func(mm *gostatsd.MetricMap) {
					for _, kit := range ks {
						sendOne(t, kit, mm, j)
					}
					backendsReached = len(ks)
				})
				agg.Reset()
				pending = map[int]int{}
			},
		})
		clearJournal()
		nt := (idleTimerFlush || smallNeg || histLow) && backendsReached >= 3
		labels := []string{fmt.Sprintf("batch=%d", ok.batch), fmt.Sprintf("hist-limit=%d", limit)}
		if idleTimerFlush {
			labels = append(labels, "idle-timer-flush")
		}
		if smallNeg {
			labels = append(labels, "negative-percentile-small-n")
		}
		if histLow {
			labels = append(labels, "histogram-under-limit-0-or-1")
		}
		if ev.C().WantSample() {
			ev.C().Sample(map[string]interface{}{"config": j.Config, "history": j.History, "backends": len(ks)})
		}
		ev.C().Case(j.Config+strings.Join(j.History, "|"), nt, labels...)
	})
}

func invalidate(kit *bk.Kit) {
	// a recovered panic may have left a buffer semaphore or lock held inside the backend: never reuse it.
	// Only this one backend is rebuilt (rebuilding all would churn through loopback TCP ports while shrinking).
	kitMu.Lock()
	defer kitMu.Unlock()
	for k, ks := range kits {
		for i, x := range ks {
			if x == kit {
				go kit.Close()
				nk, err := bk.New(kit.Variant, bk.Options{Batch: k.batch, Compress: k.compress, Disabled: masks[k.mask], ResourceKeys: []string{"env", "service"}})
				if err != nil {
					delete(kits, k)
					return
				}
				ks[i] = nk
				return
			}
		}
	}
}

var sendSeq int

func sendOne(t vt.TB, kit *bk.Kit, mm *gostatsd.MetricMap, j *journal) {
	done := make(chan []error, 4)
	type outcome struct {
		p     interface{}
		stack string
	}
	ret := make(chan outcome, 1)
	go func() {
		defer func() {
			if p := recover(); p != nil {
				ret <- outcome{p: p, stack: string(debug.Stack())}
				return
			}
			ret <- outcome{}
		}()
		// one flush in eight is given a context that is already done (a flush overtaken by shutdown or its deadline): the
		// payload is still built, every hand-off inside the backend sees the finished context
		ctx := context.Background()
		if sendSeq++; sendSeq%8 == 0 {
			c, cancel := context.WithCancel(ctx)
			cancel()
			ctx = c
		}
		kit.Backend.SendMetricsAsync(ctx, mm, func(errs []error) {
			done <- errs
		})
	}()
	select {
	case o := <-ret:
		if o.p != nil {
			invalidate(kit)
			vt.WriteCase(map[string]interface{}{"backend": kit.Variant.Name, "config": j.Config, "history": j.History, "panic": fmt.Sprint(o.p), "stack": o.stack})
			vt.Fail(t, "C04:payload-panic:"+kit.Variant.Name, "%s SendMetricsAsync panicked while building its payload (%s): %v; history %v", kit.Variant.Name, j.Config, o.p, j.History)
		}
	case <-time.After(30 * time.Second):
		invalidate(kit)
		vt.Fail(t, "C04:payload-builder-wedged:"+kit.Variant.Name, "%s SendMetricsAsync did not return within 30s (%s); history %v", kit.Variant.Name, j.Config, j.History)
	}
	select {
	case <-done:
	case <-time.After(30 * time.Second):
		invalidate(kit)
		vt.Fail(t, "C04:no-callback:"+kit.Variant.Name, "%s did not complete the flush within 30s although its transport accepts everything (%s); history %v", kit.Variant.Name, j.Config, j.History)
	}
	kit.RT.Reset()
	if kit.Loop != nil {
		kit.Loop.Reset()
	}
}
