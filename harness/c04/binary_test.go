package c04

import (
	"fmt"
	"strconv"
	"strings"
	"testing"
	"time"

	"pgregory.net/rapid"

	"verifharness/internal/ev"
	"verifharness/internal/rig"
	"verifharness/internal/vt"
)

// TestBinaryFlushSurvivesConfiguration runs the gostatsd command itself with a generated start-up configuration
// (percentile thresholds incl. negative ones, histogram limit, disabled sub-metrics) given as flags, environment or
// configuration file, sends timers - plain and gsd_histogram, with one or many values - and other types, and checks that
// the process gets through its flushes: a later line is still flushed. The command line is how the configuration
// reaches the aggregators and the stdout backend.
func TestBinaryFlushSurvivesConfiguration(t *testing.T) {
	if rig.BinaryPath() == "" {
		t.Skip("GOSTATSD_BIN not set (the driver builds it)")
	}
	rapid.Check(t, func(t *rapid.T) {
		pcts := rapid.SliceOfNDistinct(rapid.SampledFrom([]int{0, 1, -1, 50, -50, 90, -90, 99, 100, -100}), 0, 4, rapid.ID[int]).Draw(t, "percent-threshold")
		var ps []string
		for _, p := range pcts {
			ps = append(ps, strconv.Itoa(p))
		}
		args := []string{"--flush-interval", "100ms", "--max-readers", "1", "--max-parsers", "1", "--max-workers", strconv.Itoa(rapid.SampledFrom([]int{1, 3}).Draw(t, "max-workers"))}
		var env []string
		if len(ps) > 0 {
			if rapid.Bool().Draw(t, "thresholds-in-environment") {
				env = append(env, "GSD_PERCENT_THRESHOLD="+strings.Join(ps, " "))
			} else {
				args = append(args, "--percent-threshold", strings.Join(ps, " "))
			}
		}
		if lim := rapid.SampledFrom([]string{"", "0", "1", "5"}).Draw(t, "timer-histogram-limit"); lim != "" {
			args = append(args, "--timer-histogram-limit", lim)
		}
		b, err := rig.StartBinaryEnv(args, env, 0)
		if err != nil {
			t.Skip("cannot start: " + err.Error())
		}
		defer b.Stop()
		if !b.AwaitLine("warmup:1|c", "warmup", 30*time.Second) {
			if b.Exited() && !b.BindFailed() {
				vt.Fail(t, "C04:process-died", "%s exited on its first flush; output: %s", b.Describe(), b.Tail(30))
			}
			ev.C().Excluded("binary-not-serving", 1)
			t.Skip("gostatsd did not serve")
		}
		var sent []string
		for i, n := 0, rapid.IntRange(1, 5).Draw(t, "series"); i < n; i++ {
			k := rapid.SampledFrom([]int{1, 2, 5, 30}).Draw(t, "values")
			tag := rapid.SampledFrom([]string{"", "", "|#gsd_histogram:1_5_10", "|#gsd_histogram:", "|#gsd_histogram:-5_-4_-3_-2_-1_0_1_2_3_4_5_6_7_8_9_10"}).Draw(t, "tags")
			var ls []string
			for j := 0; j < k; j++ {
				ls = append(ls, fmt.Sprintf("t%d:%d|ms%s", i, rapid.IntRange(-5, 500).Draw(t, "v"), tag))
			}
			ls = append(ls, fmt.Sprintf("c%d:1|c", i), fmt.Sprintf("g%d:2|g", i), fmt.Sprintf("s%d:x|s", i))
			d := strings.Join(ls, "\n")
			sent = append(sent, d)
			b.Send(d)
			time.Sleep(time.Duration(rapid.IntRange(0, 150).Draw(t, "pause-ms")) * time.Millisecond)
		}
		if !b.AwaitLine("after.all:1|c", "after.all", 30*time.Second) {
			if b.Exited() {
				vt.Fail(t, "C04:process-died", "%s exited while flushing; it had been sent %q; output: %s", b.Describe(), sent, b.Tail(40))
			}
			vt.Fail(t, "C04:later-flush-missing", "%s is running but did not flush a line sent (repeatedly, for 30 s) after %q", b.Describe(), sent)
		}
		neg := false
		for _, p := range pcts {
			neg = neg || p < 0
		}
		ev.C().Case(fmt.Sprintf("B|%s|%q", strings.Join(args, " "), sent), neg, "binary-flush")
		if ev.C().WantSample() {
			ev.C().Sample(map[string]interface{}{"command": b.Describe(), "datagrams": sent})
		}
	})
}
