package c19

import (
	"bytes"
	"context"
	"fmt"
	"io"
	"net/http/httptest"
	"sort"
	"strings"
	"sync"
	"sync/atomic"
	"testing"
	"time"
	"unicode/utf8"

	"github.com/atlassian/gostatsd"
	"github.com/atlassian/gostatsd/pb"
	"github.com/atlassian/gostatsd/pkg/statsd"
	"github.com/atlassian/gostatsd/pkg/transport"
	"github.com/atlassian/gostatsd/pkg/web"
	"github.com/sirupsen/logrus"
	"github.com/spf13/viper"
	"google.golang.org/protobuf/proto"
	"pgregory.net/rapid"

	"verifharness/internal/ev"
	"verifharness/internal/fakes"
	"verifharness/internal/gen"
	"verifharness/internal/vt"
)

func TestMain(m *testing.M) {
	logrus.SetOutput(io.Discard)
	logrus.SetLevel(logrus.PanicLevel)
	ev.C().Rule("rapid: event lines of the full documented grammar (and protobuf events on /v2/event) x 0..3 capturing backends x max-concurrent-events 1..4 x 1..4 concurrent senders x cache hit / miss-then-success / miss-then-failure per sender x static tags overlapping event tags, through DatagramParser -> CloudHandler -> TagHandler -> BackendHandler composed from public constructors, and a forwarder-mode variant; a gated variant for WaitForEvents. Oracle: exactly one SendEvent per accepted event and backend with the expected fields; WaitForEvents returns only after every SendEvent completed. Non-trivial = >= 2 backends with an event parked on a pending lookup while another is in flight")
	vt.Main(m)
}

type sender struct {
	ip     string
	mode   string // hit-positive, hit-negative, miss-success, miss-failure
	inst   *gostatsd.Instance
	events []gen.EventSpec
	http   bool
	extra  string // a metric line mixed into the datagram
}

func instFor(ip string) *gostatsd.Instance {
	return &gostatsd.Instance{ID: gostatsd.Source("i-" + ip), Tags: gostatsd.Tags{"az:" + ip, "shared:tag",
		// keys that event lines of the generator also use (as "a", "k:v", "env:..." ...): a cloud tag is added whatever the event
		// already says under that key
		"a:cloud", "k:cloud", "env:cloud"}}
}

func key(e *gostatsd.Event) string {
	t := append([]string(nil), e.Tags...)
	sort.Strings(t)
	return fmt.Sprintf("title=%q text=%q agg=%q stn=%q src=%q prio=%v alert=%v tags=%q", e.Title, e.Text, e.AggregationKey, e.SourceTypeName, e.Source, e.Priority, e.AlertType, t)
}

func expectedEvent(s gen.EventSpec, snd *sender, static []string) *gostatsd.Event {
	e := s.Event
	e.Source = gostatsd.Source(snd.ip)
	set := map[string]bool{}
	var tags []string
	add := func(l []string) {
		for _, t := range l {
			if !set[t] {
				set[t] = true
				tags = append(tags, t)
			}
		}
	}
	add(e.Tags)
	if snd.inst != nil && (snd.mode == "hit-positive" || snd.mode == "miss-success") {
		// cloud tags are appended by the cloud stage before the tag stage de-duplicates
		add(snd.inst.Tags)
		e.Source = snd.inst.ID
	}
	add(static)
	e.Tags = tags
	return &e
}

type pipeline struct {
	in           chan []*statsd.Datagram
	backends     []*fakes.Backend
	ci           *fakes.CachedInstances
	top          gostatsd.PipelineHandler
	bh           *statsd.BackendHandler
	cancel       context.CancelFunc
	wg           sync.WaitGroup
	router       *httptestRouter
	lookups      int32
	mapsReceived int32
}

// countingAgg counts the metric maps that reached the aggregator (the harness waits for parked metric batches to be
// released before it shuts the pipeline down; dispatching into a stopped BackendHandler is outside every property).
type countingAgg struct {
	inner statsd.Aggregator
	n     *int32
}

func (a *countingAgg) ReceiveMap(mm *gostatsd.MetricMap) {
	a.inner.ReceiveMap(mm)
	atomic.AddInt32(a.n, 1)
}
func (a *countingAgg) Flush(d time.Duration)        { a.inner.Flush(d) }
func (a *countingAgg) Process(f statsd.ProcessFunc) { a.inner.Process(f) }
func (a *countingAgg) Reset()                       { a.inner.Reset() }

type httptestRouter struct {
	h interface {
		ServeHTTP(*httptest.ResponseRecorder, interface{})
	}
}

// parserIgnoreHost is the ignore-host setting of the parsers build() creates (drawn per case): it changes how metric
// lines get their source, an event always has the sender's address as source.
var parserIgnoreHost bool

// stageFilters are the metric filters of the tag stage (drawn per case). FILTERING.md describes them as a clean-up of
// metrics; every one here spares the only metric the cases send ("some.metric"), and an event - whose title would match
// all of them - must come out with its tags and source, and must come out at all.
var stageFilters []statsd.Filter

func filtersGen() *rapid.Generator[[]statsd.Filter] {
	sm := func(ps ...string) gostatsd.StringMatchList {
		var l gostatsd.StringMatchList
		for _, p := range ps {
			l = append(l, gostatsd.NewStringMatch(p))
		}
		return l
	}
	all := []statsd.Filter{
		{ExcludeMetrics: sm("some.metric"), DropMetric: true},
		{ExcludeMetrics: sm("some.*"), DropHost: true},
		{ExcludeMetrics: sm("some.metric"), DropTags: sm("regex:.*")},
		{MatchMetrics: sm("!some.metric"), DropTags: sm("a*", "k*", "env*", "shared:tag", "static:*")},
		{MatchMetrics: sm("a*", "b*", "hello*", "regex:^[^s]"), DropMetric: true},
	}
	return rapid.Custom(func(t *rapid.T) []statsd.Filter {
		if rapid.Bool().Draw(t, "no-filters") {
			return nil
		}
		return rapid.SliceOfNDistinct(rapid.SampledFrom(all), 1, 3, func(f statsd.Filter) string { return fmt.Sprintf("%v", f) }).Draw(t, "filters")
	})
}

func build(t vt.TB, nBackends int, maxConc uint, parsers int, static []string, answers map[string]*sender, holdLookups chan struct{}) *pipeline {
	p := &pipeline{in: make(chan []*statsd.Datagram), ci: fakes.NewCachedInstances()}
	var bks []gostatsd.Backend
	for i := 0; i < nBackends; i++ {
		b := fakes.NewBackend(fmt.Sprintf("b%d", i))
		p.backends = append(p.backends, b)
		bks = append(bks, b)
	}
	p.bh = statsd.NewBackendHandler(bks, maxConc, 1, 1, statsd.AggregatorFactoryFunc(func() statsd.Aggregator {
		return &countingAgg{inner: statsd.NewMetricAggregator(nil, 0, 0, 0, 0, gostatsd.TimerSubtypes{}, 0), n: &p.mapsReceived}
	}))
	th := statsd.NewTagHandler(p.bh, gostatsd.Tags(append([]string(nil), static...)), stageFilters)
	ch := statsd.NewCloudHandler(p.ci, th)
	p.top = ch
	ctx, cancel := context.WithCancel(context.Background())
	p.cancel = cancel
	p.wg.Add(2)
	go func() { defer p.wg.Done(); p.bh.Run(ctx) }()
	go func() { defer p.wg.Done(); ch.Run(ctx) }()
	for i := 0; i < parsers; i++ {
		dp := statsd.NewDatagramParser(p.in, "", parserIgnoreHost, 0, ch, 0, false, logrus.StandardLogger())
		p.wg.Add(1)
		go func() { defer p.wg.Done(); dp.Run(ctx) }()
	}
	// the instance cache: answers lookups per sender mode (optionally only after holdLookups is closed)
	p.wg.Add(1)
	go func() {
		defer p.wg.Done()
		for {
			select {
			case <-ctx.Done():
				return
			case ip := <-p.ci.Sink:
				atomic.AddInt32(&p.lookups, 1)
				go func(ip gostatsd.Source) {
					if holdLookups != nil {
						select {
						case <-holdLookups:
						case <-ctx.Done():
							return
						}
					}
					var in *gostatsd.Instance
					if s := answers[string(ip)]; s != nil && s.mode == "miss-success" {
						in = s.inst
					}
					select {
					case p.ci.Info <- gostatsd.InstanceInfo{IP: ip, Instance: in}:
					case <-ctx.Done():
					}
				}(ip)
			}
		}
	}()
	return p
}

func (p *pipeline) close() {
	p.cancel()
	done := make(chan struct{})
	go func() { p.wg.Wait(); close(done) }()
	select {
	case <-done:
	case <-time.After(30 * time.Second):
	}
}

func senderGen(i int) *rapid.Generator[*sender] {
	return rapid.Custom(func(t *rapid.T) *sender {
		s := &sender{ip: fmt.Sprintf("10.9.0.%d", i+1), mode: rapid.SampledFrom([]string{"hit-positive", "hit-negative", "miss-success", "miss-failure"}).Draw(t, "cache")}
		s.inst = instFor(s.ip)
		s.events = rapid.SliceOfN(gen.Event(), 1, 4).Draw(t, "events")
		s.http = rapid.IntRange(0, 3).Draw(t, "via-http") == 0
		for _, es := range s.events {
			if !validUTF8Event(es) {
				s.http = false // protobuf strings must be valid UTF-8: such an event cannot arrive over /v2/event
			}
		}
		s.extra = rapid.SampledFrom([]string{"", "some.metric:1|c", "bad line"}).Draw(t, "extra")
		return s
	})
}

func postEvent(t vt.TB, router interface {
	ServeHTTP(w *httptest.ResponseRecorder, r interface{})
}, e *gostatsd.Event) {
}

func TestEventsThroughPipeline(t *testing.T) {
	rapid.Check(t, func(t *rapid.T) {
		nb := rapid.IntRange(0, 3).Draw(t, "backends")
		maxConc := uint(rapid.IntRange(1, 4).Draw(t, "max-concurrent-events"))
		parsers := rapid.IntRange(1, 3).Draw(t, "parsers")
		static := rapid.SliceOfN(rapid.SampledFrom([]string{"static:1", "shared:tag", "env:prod", "a"}), 0, 3).Draw(t, "static-tags")
		ns := rapid.IntRange(1, 4).Draw(t, "senders")
		senders := make([]*sender, ns)
		answers := map[string]*sender{}
		for i := range senders {
			senders[i] = senderGen(i).Draw(t, fmt.Sprintf("sender%d", i))
			answers[senders[i].ip] = senders[i]
		}
		parserIgnoreHost = rapid.Bool().Draw(t, "ignore-host")
		stageFilters = filtersGen().Draw(t, "stage-filters")
		p := build(t, nb, maxConc, parsers, static, answers, nil)
		defer p.close()
		// some backends answer every event with an error (they did receive it): the others - and later events - are served all the same
		for _, b := range p.backends {
			if rapid.IntRange(0, 3).Draw(t, "backend-send-errors") == 0 {
				b.SendErr = fmt.Errorf("backend refuses the event")
			} else if rapid.Bool().Draw(t, "backend-takes-a-moment") {
				b.EventDelay = time.Duration(rapid.IntRange(1, 3).Draw(t, "send-ms")) * time.Millisecond // and honours its context meanwhile
			}
		}
		srv, err := web.NewHttpServer(logrus.StandardLogger(), p.top, "verif", "127.0.0.1:0", false, false, true, false, nil, nil)
		if err != nil {
			t.Fatalf("%v", err)
		}
		for _, s := range senders {
			switch s.mode {
			case "hit-positive":
				p.ci.Set(gostatsd.Source(s.ip), s.inst)
			case "hit-negative":
				p.ci.Set(gostatsd.Source(s.ip), nil)
			}
		}
		before := time.Now().Unix()
		var want []string
		wantDates := map[string][]int64{}
		total := 0
		var swg sync.WaitGroup
		for _, s := range senders {
			for _, es := range s.events {
				e := expectedEvent(es, s, static)
				if s.http && e.DateHappened == 0 {
					e.DateHappened = 1_600_000_000 // the HTTP path carries the time it was given; 0 is outside the documented use
				}
				want = append(want, key(e))
				wantDates[key(e)] = append(wantDates[key(e)], e.DateHappened)
				total++
			}
			swg.Add(1)
			go func(s *sender) {
				defer swg.Done()
				if s.http {
					for _, es := range s.events {
						e := es.Event
						msg := &pb.EventV2{Title: e.Title, Text: e.Text, DateHappened: e.DateHappened, Hostname: s.ip, AggregationKey: e.AggregationKey, SourceTypeName: e.SourceTypeName, Tags: e.Tags}
						if msg.DateHappened == 0 {
							msg.DateHappened = 1_600_000_000
						}
						if e.Priority == gostatsd.PriLow {
							msg.Priority = pb.EventV2_Low
						}
						switch e.AlertType {
						case gostatsd.AlertWarning:
							msg.Type = pb.EventV2_Warning
						case gostatsd.AlertError:
							msg.Type = pb.EventV2_Error
						case gostatsd.AlertSuccess:
							msg.Type = pb.EventV2_Success
						}
						b, _ := proto.Marshal(msg)
						// as under net/http: the request's context ends when the handler has answered
						rctx, rcancel := context.WithCancel(context.Background())
						req := httptest.NewRequest("POST", "/v2/event", bytes.NewReader(b)).WithContext(rctx)
						rec := httptest.NewRecorder()
						srv.Router.ServeHTTP(rec, req)
						rcancel()
						if rec.Code != 202 {
							t.Errorf("VSIG[C19:http-event-refused] /v2/event answered %d", rec.Code)
						}
					}
					return
				}
				var lines []string
				for _, es := range s.events {
					lines = append(lines, es.Line)
				}
				if s.extra != "" {
					lines = append(lines, s.extra)
				}
				p.in <- []*statsd.Datagram{{IP: gostatsd.Source(s.ip), Msg: []byte(strings.Join(lines, "\n")), Timestamp: 1, DoneFunc: func() {}}}
			}(s)
		}
		// every sender's datagram is taken by a parser; a barrier makes sure it was parsed and dispatched. An event's dispatch
		// may wait for a free slot (max-concurrent-events) but every slot comes back: 30 s without progress is a stage that
		// does not take events any more.
		handedOver := make(chan struct{})
		go func() {
			swg.Wait()
			var bar sync.WaitGroup
			bar.Add(parsers)
			for i := 0; i < parsers; i++ {
				p.in <- []*statsd.Datagram{{Msg: nil, DoneFunc: func() { bar.Done(); bar.Wait() }}}
			}
			bar.Wait()
			close(handedOver)
		}()
		select {
		case <-handedOver:
		case <-time.After(30 * time.Second):
			vt.Fail(t, "C19:dispatch-blocked", "the events sent were not all taken by the pipeline within 30s (max-concurrent-events %d, %d backends)", maxConc, nb)
		}
		waited := make(chan struct{})
		go func() { p.top.WaitForEvents(); close(waited) }()
		select {
		case <-waited:
		case <-time.After(30 * time.Second):
			vt.Fail(t, "C19:wait-never-returns", "WaitForEvents did not return within 30s although every backend accepts events and every lookup was answered")
		}
		after := time.Now().Unix()
		expectMaps := int32(0)
		for _, s := range senders {
			if !s.http && s.extra == "some.metric:1|c" {
				expectMaps++
			}
		}
		for deadline := time.Now().Add(30 * time.Second); atomic.LoadInt32(&p.mapsReceived) < expectMaps && time.Now().Before(deadline); {
			time.Sleep(100 * time.Microsecond)
		}
		sort.Strings(want)
		for bi, b := range p.backends {
			_, evs := b.Snapshot()
			var got []string
			for _, e := range evs {
				got = append(got, key(e))
				k := key(e)
				okDate := false
				for _, d := range wantDates[k] {
					if d == e.DateHappened || (d == 0 && e.DateHappened >= before-1 && e.DateHappened <= after+1) {
						okDate = true
					}
				}
				if len(wantDates[k]) > 0 && !okDate {
					vt.Fail(t, "C19:event-time", "backend %d received event %s with time %d; expected %v (0 = receipt time in [%d,%d])", bi, k, e.DateHappened, wantDates[k], before, after)
				}
			}
			sort.Strings(got)
			if strings.Join(got, "\n") != strings.Join(want, "\n") {
				vt.WriteCase(map[string]interface{}{"backend": bi, "got": got, "want": want})
				vt.Fail(t, "C19:events-at-backend", "backend %d of %d received %d events, %d were accepted; first difference: %s", bi, nb, len(got), len(want), firstDiff(got, want))
			}
		}
		parkedWhileInFlight := false
		for _, s := range senders {
			if strings.HasPrefix(s.mode, "miss") && !s.http && ns >= 2 {
				parkedWhileInFlight = true
			}
		}
		labels := []string{fmt.Sprintf("backends=%d", nb), fmt.Sprintf("senders=%d", ns), fmt.Sprintf("max-concurrent=%d", maxConc)}
		for _, s := range senders {
			labels = append(labels, "cache="+s.mode)
			if s.http {
				labels = append(labels, "http-ingestion")
			}
		}
		if ev.C().WantSample() {
			var desc []string
			for _, s := range senders {
				for _, es := range s.events {
					desc = append(desc, s.ip+"("+s.mode+"): "+es.Line)
				}
			}
			ev.C().Sample(map[string]interface{}{"backends": nb, "static": static, "events": desc})
		}
		ev.C().Case(fmt.Sprintf("%d|%d|%v|%s", nb, maxConc, static, strings.Join(want, ";")), nb >= 2 && parkedWhileInFlight, dedup(labels)...)
	})
}

func validUTF8Event(es gen.EventSpec) bool {
	e := es.Event
	ok := utf8.ValidString(e.Title) && utf8.ValidString(e.Text) && utf8.ValidString(e.AggregationKey) && utf8.ValidString(e.SourceTypeName) && utf8.ValidString(string(e.Source))
	for _, t := range e.Tags {
		ok = ok && utf8.ValidString(t)
	}
	return ok
}

// sigUTF8Event: recorded finding (same root cause as C15's): in forwarder mode an event with a string that is not
// valid UTF-8 cannot be encoded and is discarded.
const sigUTF8Event = "C19:forwarder-drops-non-utf8-event"

func TestProbeForwarderNonUTF8Event(t *testing.T) {
	rt := fakes.NewRT()
	pool := transport.NewTransportPool(logrus.StandardLogger(), viper.New())
	c, _ := pool.Get("default")
	c.Client.Transport = rt
	rt.Script = func(a *fakes.Attempt) fakes.Reply { return fakes.Reply{Status: 202} }
	fwd, err := statsd.NewHttpForwarderHandlerV2(logrus.StandardLogger(), "default", "http://up.invalid", 1, 4, 1, false, "none", 0, -1, time.Hour, nil, nil, pool, nil)
	if err != nil {
		t.Fatal(err)
	}
	ctx, cancel := context.WithCancel(context.Background())
	fdone := make(chan struct{})
	go func() { fwd.Run(ctx); close(fdone) }()
	defer func() { cancel(); <-fdone }()
	fwd.DispatchEvent(ctx, &gostatsd.Event{Title: "a", Text: "b", Source: "1.1.1.1", Tags: gostatsd.Tags{"k:\xff"}})
	fwd.WaitForEvents()
	n := 0
	for _, a := range rt.Attempts() {
		if a.Path == "/v2/event" {
			n++
		}
	}
	vt.Probe(t, sigUTF8Event, n != 1, fmt.Sprintf("event with tag k:\\xff produced %d upstream requests", n))
	ev.C().Case("probe-forwarder-non-utf8-event", true, "probe")
}

func firstDiff(got, want []string) string {
	for i := 0; i < len(got) || i < len(want); i++ {
		g, w := "<none>", "<none>"
		if i < len(got) {
			g = got[i]
		}
		if i < len(want) {
			w = want[i]
		}
		if g != w {
			return fmt.Sprintf("got %s want %s", g, w)
		}
	}
	return "none"
}

func dedup(l []string) []string {
	seen := map[string]bool{}
	var out []string
	for _, x := range l {
		if !seen[x] {
			seen[x] = true
			out = append(out, x)
		}
	}
	return out
}

// TestWaitForEventsGated: backends block in SendEvent until the harness opens a gate after WaitForEvents was called;
// a premature return is observed deterministically (a correct WaitForEvents blocks, a broken one returns at once).
func TestWaitForEventsGated(t *testing.T) {
	rapid.Check(t, func(t *rapid.T) {
		nb := rapid.IntRange(1, 3).Draw(t, "backends")
		nev := rapid.IntRange(1, 2).Draw(t, "events")
		maxConc := uint(nb*nev + rapid.IntRange(0, 2).Draw(t, "spare"))
		pendingLookup := rapid.Bool().Draw(t, "lookup-pending")
		snd := &sender{ip: "10.9.1.1", mode: "hit-negative", inst: instFor("10.9.1.1")}
		if pendingLookup {
			snd.mode = rapid.SampledFrom([]string{"miss-success", "miss-failure"}).Draw(t, "lookup")
		}
		hold := make(chan struct{})
		parserIgnoreHost = rapid.Bool().Draw(t, "ignore-host")
		stageFilters = filtersGen().Draw(t, "stage-filters")
		p := build(t, nb, maxConc, 1, nil, map[string]*sender{snd.ip: snd}, hold)
		defer p.close()
		if !pendingLookup {
			p.ci.Set(gostatsd.Source(snd.ip), nil)
		}
		gate := make(chan struct{})
		for _, b := range p.backends {
			b.EventGate = gate
		}
		var lines []string
		for i := 0; i < nev; i++ {
			lines = append(lines, gen.Event().Draw(t, "event").Line)
		}
		p.in <- []*statsd.Datagram{{IP: gostatsd.Source(snd.ip), Msg: []byte(strings.Join(lines, "\n")), Timestamp: 1, DoneFunc: func() {}}}
		done := make(chan struct{})
		p.in <- []*statsd.Datagram{{Msg: nil, DoneFunc: func() { close(done) }}}
		<-done
		completed := func() int {
			n := 0
			for _, b := range p.backends {
				_, evs := b.Snapshot()
				n += len(evs)
			}
			return n
		}
		waited := make(chan struct{})
		go func() { p.top.WaitForEvents(); close(waited) }()
		select {
		case <-waited:
			vt.Fail(t, "C19:wait-returns-early", "WaitForEvents returned while %d of %d SendEvent calls had completed (lookup pending: %v)", completed(), nev*nb, pendingLookup)
		case <-time.After(15 * time.Millisecond):
		}
		close(hold) // lookups may be answered now
		if pendingLookup {
			select {
			case <-waited:
				vt.Fail(t, "C19:wait-returns-early", "WaitForEvents returned after the lookup was answered but before any backend finished (%d of %d)", completed(), nev*nb)
			case <-time.After(15 * time.Millisecond):
			}
		}
		close(gate)
		select {
		case <-waited:
		case <-time.After(30 * time.Second):
			vt.Fail(t, "C19:wait-never-returns", "WaitForEvents did not return within 30s after the backends were released")
		}
		if n := completed(); n != nev*nb {
			vt.Fail(t, "C19:wait-returns-early", "WaitForEvents returned with %d of %d SendEvent calls completed", n, nev*nb)
		}
		ev.C().Case(fmt.Sprintf("G|%d|%d|%v|%s", nb, nev, pendingLookup, strings.Join(lines, ";")), nb >= 2 && pendingLookup, "gated-wait", fmt.Sprintf("gated-backends=%d", nb))
	})
}

// TestEventsForwarderMode: in forwarder mode every accepted event goes upstream exactly once with its fields.
func TestEventsForwarderMode(t *testing.T) {
	rapid.Check(t, func(t *rapid.T) {
		static := rapid.SliceOfN(rapid.SampledFrom([]string{"static:1", "env:prod"}), 0, 2).Draw(t, "static-tags")
		rt := fakes.NewRT()
		pool := transport.NewTransportPool(logrus.StandardLogger(), viper.New())
		c, _ := pool.Get("default")
		c.Client.Transport = rt
		// forwarder settings that must not matter for what arrives: compression, and - with retries enabled - the first
		// attempts being refused so that several events are pending at once
		comp := rapid.SampledFrom([]string{"none", "zlib", "lz4"}).Draw(t, "compression")
		level := rapid.IntRange(0, 9).Draw(t, "level")
		refuse := 0
		elapsed := time.Duration(-1)
		if rapid.IntRange(0, 15).Draw(t, "retries") == 0 { // rarely: every refused attempt costs real back-off time (>= 0.5 s)
			elapsed = 5 * time.Second
			refuse = rapid.IntRange(0, 2).Draw(t, "refused-attempts")
		}
		cutAccepted := elapsed > 0 && rapid.Bool().Draw(t, "accepted-with-broken-response-body")
		var amu sync.Mutex
		var accepted [][]byte
		attempts := 0
		rt.Script = func(a *fakes.Attempt) fakes.Reply {
			if a.Path != "/v2/event" {
				return fakes.Reply{Status: 202}
			}
			amu.Lock()
			defer amu.Unlock()
			attempts++
			if attempts <= refuse {
				return fakes.Reply{Status: 503}
			}
			body, err := fakes.Inflate(a.Header.Get("Content-Encoding"), a.Body)
			if err != nil {
				return fakes.Reply{Status: 400}
			}
			accepted = append(accepted, body)
			if cutAccepted {
				// accepted, but the response body breaks off: the event was taken, sending it again would duplicate it
				return fakes.Reply{Status: 202, Body: []byte("partial"), BodyErr: true}
			}
			return fakes.Reply{Status: 202}
		}
		fwd, err := statsd.NewHttpForwarderHandlerV2(logrus.StandardLogger(), "default", "http://up.invalid", 1, 4, 1, comp != "none", comp, level, elapsed, time.Hour, nil, nil, pool, nil)
		if err != nil {
			t.Fatalf("%v", err)
		}
		ctx, cancel := context.WithCancel(context.Background())
		fdone := make(chan struct{})
		go func() { fwd.Run(ctx); close(fdone) }()
		th := statsd.NewTagHandler(fwd, gostatsd.Tags(append([]string(nil), static...)), filtersGen().Draw(t, "stage-filters"))
		in := make(chan []*statsd.Datagram)
		dp := statsd.NewDatagramParser(in, "", rapid.Bool().Draw(t, "ignore-host"), 0, th, 0, false, logrus.StandardLogger())
		pdone := make(chan struct{})
		go func() { dp.Run(ctx); close(pdone) }()
		defer func() { cancel(); <-fdone; <-pdone }()
		specs := rapid.SliceOfN(gen.Event(), 1, 5).Draw(t, "events")
		if vt.Excluded(sigUTF8Event) {
			var keep []gen.EventSpec
			for _, es := range specs {
				if validUTF8Event(es) {
					keep = append(keep, es)
				} else {
					ev.C().Excluded("forwarder-mode-event-with-non-utf8-string", 1)
				}
			}
			if len(keep) == 0 {
				t.Skip("only excluded events")
			}
			specs = keep
		}
		snd := &sender{ip: "10.9.2.2", mode: "hit-negative"}
		var lines, want []string
		for _, es := range specs {
			lines = append(lines, es.Line)
			want = append(want, key(expectedEvent(es, snd, static)))
		}
		in <- []*statsd.Datagram{{IP: gostatsd.Source(snd.ip), Msg: []byte(strings.Join(lines, "\n")), Timestamp: 1, DoneFunc: func() {}}}
		done := make(chan struct{})
		in <- []*statsd.Datagram{{Msg: nil, DoneFunc: func() { close(done) }}}
		<-done
		th.WaitForEvents()
		var got []string
		amu.Lock()
		bodies := append([][]byte(nil), accepted...)
		amu.Unlock()
		for _, body := range bodies {
			var msg pb.EventV2
			if err := proto.Unmarshal(body, &msg); err != nil {
				vt.Fail(t, "C19:forwarder-event-undecodable", "%v", err)
			}
			e := &gostatsd.Event{Title: msg.Title, Text: msg.Text, AggregationKey: msg.AggregationKey, SourceTypeName: msg.SourceTypeName, Source: gostatsd.Source(msg.Hostname), Tags: msg.Tags}
			if msg.Priority == pb.EventV2_Low {
				e.Priority = gostatsd.PriLow
			}
			e.AlertType = map[pb.EventV2_AlertType]gostatsd.AlertType{pb.EventV2_Info: gostatsd.AlertInfo, pb.EventV2_Warning: gostatsd.AlertWarning, pb.EventV2_Error: gostatsd.AlertError, pb.EventV2_Success: gostatsd.AlertSuccess}[msg.Type]
			got = append(got, key(e))
		}
		sort.Strings(got)
		sort.Strings(want)
		if strings.Join(got, "\n") != strings.Join(want, "\n") {
			vt.Fail(t, "C19:forwarder-events", "upstream accepted %d events, %d were forwarded (compression %s level %d, %d refused attempts); first difference: %s", len(got), len(want), comp, level, refuse, firstDiff(got, want))
		}
		ev.C().Case(fmt.Sprintf("F|%s|%d|%d|", comp, level, refuse)+strings.Join(lines, ";"), len(specs) >= 2, "forwarder-mode", "compression="+comp)
	})
}
