package c15

import (
	"bytes"
	"compress/zlib"
	"context"
	"fmt"
	"io"
	"runtime"
	"sort"
	"strings"
	"sync"
	"sync/atomic"
	"testing"
	"time"

	"github.com/atlassian/gostatsd"
	"github.com/atlassian/gostatsd/pb"
	"github.com/atlassian/gostatsd/pkg/stats"
	"github.com/atlassian/gostatsd/pkg/statsd"
	"github.com/atlassian/gostatsd/pkg/transport"
	"github.com/atlassian/gostatsd/verifhooks"
	"github.com/pierrec/lz4/v4"
	"github.com/sirupsen/logrus"
	"github.com/spf13/viper"
	"github.com/tilinna/clock"
	"google.golang.org/protobuf/proto"
	"pgregory.net/rapid"

	"verifharness/internal/ev"
	"verifharness/internal/fakes"
	"verifharness/internal/gen"
	"verifharness/internal/model"
	"verifharness/internal/rig"
	"verifharness/internal/vt"
)

func TestMain(m *testing.M) {
	logrus.SetOutput(io.Discard)
	logrus.SetLevel(logrus.PanicLevel)
	ev.C().Rule("rapid: forwarder configuration (1..4 consolidator slots, concurrent-merge 1..3, max-requests 1..4, dynamic header names subset of {region, service} in timer mode, timer-driven via an owned ticker or manual via the flush coordinator, retries disabled or a 2 s window, compression none/zlib/lz4) x 1..4 dispatcher goroutines with maps of globally unique datapoints x phases (dispatch-set, flush) where the next dispatch-set may overlap the flush x per-body upstream scripts (2xx, 503, 400, transport error, slow; <= 2 failures then success, or always failing). Oracle: conservation over distinct request bodies, flush attribution, retry discipline, header split, counters, Run returns. Non-trivial = >= 2 dispatchers overlapping a flush, or a body that failed and was then delivered")
	vt.Main(m)
}

// sigUTF8 is the recorded finding: a string that is not valid UTF-8 makes the whole merged batch unencodable.
const sigUTF8 = "C15:non-utf8-drops-batch"

type attemptLog struct {
	att     *fakes.Attempt
	body    string
	outcome string // "2xx", "503", "400", "neterr"
	flush   int    // trigger count when the attempt started
	header  map[string]string
	at      time.Time
}

type rigT struct {
	fwd      *statsd.HttpForwarderHandlerV2
	rt       *fakes.RT
	st       *fakes.Statser
	clk      *rig.OwnedClock
	fc       verifhooks.Coordinator
	cancel   context.CancelFunc
	done     chan struct{}
	mu       sync.Mutex
	log      []attemptLog
	perBody  map[string]int
	triggers int32
	script   func(bodyIdx int, attempt int) string
	bodyIdx  map[string]int
	notified int32
}

func decodeBody(a *fakes.Attempt) (*pb.RawMessageV2, error) {
	b := a.Body
	switch a.Header.Get("Content-Encoding") {
	case "deflate":
		r, err := zlib.NewReader(bytes.NewReader(b))
		if err != nil {
			return nil, err
		}
		if b, err = io.ReadAll(r); err != nil {
			return nil, err
		}
	case "lz4":
		var err error
		if b, err = io.ReadAll(lz4.NewReader(bytes.NewReader(b))); err != nil {
			return nil, err
		}
	case "identity", "":
	default:
		return nil, fmt.Errorf("encoding %q", a.Header.Get("Content-Encoding"))
	}
	var msg pb.RawMessageV2
	if err := proto.Unmarshal(b, &msg); err != nil {
		return nil, err
	}
	return &msg, nil
}

func aggOf(msg *pb.RawMessageV2) model.Agg {
	a := model.Agg{}
	for n, tm := range msg.Counters {
		for _, c := range tm.TagMap {
			a.AddCounter(model.MakeKey(gostatsd.COUNTER, n, c.Tags, c.Hostname), c.Value, 0)
		}
	}
	for n, tm := range msg.Gauges {
		for _, c := range tm.TagMap {
			a.AddGauge(model.MakeKey(gostatsd.GAUGE, n, c.Tags, c.Hostname), c.Value, 0)
		}
	}
	for n, tm := range msg.Timers {
		for _, c := range tm.TagMap {
			a.AddTimer(model.MakeKey(gostatsd.TIMER, n, c.Tags, c.Hostname), c.Values, c.SampleCount, 0)
		}
	}
	for n, tm := range msg.Sets {
		for _, c := range tm.TagMap {
			m := map[string]struct{}{}
			for _, v := range c.Values {
				m[v] = struct{}{}
			}
			a.AddSet(model.MakeKey(gostatsd.SET, n, c.Tags, c.Hostname), m, 0)
		}
	}
	return a
}

type config struct {
	slots, merge, maxReq int
	headers              []string
	manual               bool
	retries              bool
	comp                 string
	okStatus             int  // what the upstream answers when it accepts a body (0 = 202); every 2xx is a success
	fromConfig           bool // built from an "http-transport" configuration block, as the server does
}

func newRig(t vt.TB, c config) *rigT {
	r := &rigT{rt: fakes.NewRT(), st: fakes.NewStatser(), perBody: map[string]int{}, bodyIdx: map[string]int{}}
	r.clk = rig.NewOwnedClock(time.Now())
	pool := transport.NewTransportPool(logrus.StandardLogger(), viper.New())
	cl, _ := pool.Get("default")
	cl.Client.Transport = r.rt
	cl.Client.Timeout = 0
	var fc verifhooks.Coordinator
	if c.manual {
		fc = verifhooks.NewFlushCoordinator()
		r.fc = fc
	}
	elapsed := 2 * time.Second
	if !c.retries {
		elapsed = -1
	}
	var err error
	params := rig.ForwarderParams{Endpoint: "http://up.invalid", Slots: c.slots, MaxRequests: c.maxReq, Merge: c.merge, Compress: c.comp != "none", CompType: c.comp, Level: 3, Elapsed: elapsed, FlushInterval: time.Hour, Dynamic: c.headers}
	if c.manual {
		r.fwd, err = rig.NewForwarder(c.fromConfig, params, pool, fc)
	} else {
		r.fwd, err = rig.NewForwarder(c.fromConfig, params, pool, nil)
	}
	if err != nil {
		t.Fatalf("forwarder: %v", err)
	}
	r.rt.Script = func(a *fakes.Attempt) fakes.Reply {
		key := string(a.Body)
		r.mu.Lock()
		idx, known := r.bodyIdx[key]
		if !known {
			idx = len(r.bodyIdx)
			r.bodyIdx[key] = idx
		}
		n := r.perBody[key]
		r.perBody[key] = n + 1
		script := r.script
		fl := int(atomic.LoadInt32(&r.triggers))
		r.mu.Unlock()
		o := "2xx"
		if script != nil {
			o = script(idx, n)
		}
		slow := false
		if o == "slow" {
			slow, o = true, "2xx"
		}
		cut := false
		if o == "2xx-cut" {
			// the upstream took the body and answered 2xx, but the response body breaks off: acknowledged all the same
			cut, o = true, "2xx"
		}
		hdr := map[string]string{}
		// header name -> the tag name it is derived from (underscores travel as hyphens)
		for h, tagName := range map[string]string{"Region": "region", "Service": "service", "Tenant-Id": "tenant_id"} {
			if v := a.Header.Get(h); v != "" {
				hdr[tagName] = v
			}
		}
		r.mu.Lock()
		r.log = append(r.log, attemptLog{att: a, body: key, outcome: o, flush: fl, header: hdr, at: time.Now()})
		r.mu.Unlock()
		if slow {
			time.Sleep(20 * time.Millisecond)
		}
		switch o {
		case "503":
			return fakes.Reply{Status: 503}
		case "400":
			return fakes.Reply{Status: 400}
		case "neterr":
			return fakes.Reply{Err: fakes.ErrTransport}
		}
		ok := c.okStatus
		if ok == 0 {
			ok = 202
		}
		if cut {
			return fakes.Reply{Status: ok, Body: []byte("partial"), BodyErr: true}
		}
		return fakes.Reply{Status: ok}
	}
	ctx, cancel := context.WithCancel(stats.NewContext(clock.Context(context.Background(), r.clk), r.st))
	r.cancel, r.done = cancel, make(chan struct{})
	go func() { r.fwd.Run(ctx); close(r.done) }()
	go r.fwd.RunMetricsContext(ctx)
	if c.manual {
		// stands in for the component that waits for flushes (the lambda extension's heartbeat). It keeps consuming
		// notifications until the forwarder's Run has returned: a post that finishes after cancellation still
		// notifies, and with nobody receiving, the second such notification would block its goroutine for ever.
		go func() {
			for {
				select {
				case <-r.done:
					return
				default:
				}
				fc.WaitForFlush()
				atomic.AddInt32(&r.notified, 1)
			}
		}()
	}
	return r
}

func (r *rigT) snapshot() []attemptLog {
	r.mu.Lock()
	defer r.mu.Unlock()
	return append([]attemptLog(nil), r.log...)
}

// trigger starts flush number n (1-based) and returns once the forwarder's flush path has taken it.
func (r *rigT) trigger(t vt.TB, manual bool) {
	atomic.AddInt32(&r.triggers, 1)
	if manual {
		done := make(chan struct{})
		go func() {
			// a flush that is only taken after the case has been given up meets a closed consolidator
			defer func() { _ = recover() }()
			r.fc.Flush()
			close(done)
		}()
		select {
		case <-done:
		case <-time.After(time.Duration(atomic.LoadInt64(&flushPatienceMs)) * time.Millisecond):
			// once a flush was not taken, further cases (rapid shrinking the first one) wait 2 s instead of 30
			atomic.StoreInt64(&flushPatienceMs, 2000)
			vt.Fail(t, "C15:flush-not-taken", "manual flush was not taken by the forwarder within its patience (30s, 2s after a first failure)")
		}
		return
	}
	tick := r.clk.Ticker(0, 30*time.Second)
	if tick == nil {
		t.Fatalf("consolidator created no ticker")
	}
	select {
	case tick <- time.Now():
	case <-time.After(30 * time.Second):
		vt.Fail(t, "C15:flush-not-taken", "flush tick was not taken by the consolidator within 30s")
	}
}

type piece struct {
	dispatcher int
	mm         *gostatsd.MetricMap
	agg        model.Agg
}

var uniq int64

var flushPatienceMs int64 = 30000

// the retry window the rig configures, and how much earlier than that the last attempt of a given-up body may have started
// (the window runs from the creation of the back-off, a moment before the first attempt is logged)
const retryWindow, windowSlack = 2 * time.Second, 100 * time.Millisecond

// refusedThroughout: this case has a body the upstream refuses for its whole retry window
var refusedThroughout bool

// uniqueMap builds a map whose datapoints are globally unique (timer values, set members) or carry unique mass (counters).
func uniqueMap(t *rapid.T, headerTags bool, bits map[string]uint) *gostatsd.MetricMap {
	n := rapid.IntRange(1, 5).Draw(t, "points")
	var pts []*gostatsd.Metric
	for i := 0; i < n; i++ {
		u := atomic.AddInt64(&uniq, 1)
		m := &gostatsd.Metric{Name: rapid.SampledFrom([]string{"a", "b", "req.time"}).Draw(t, "name"), Rate: 1, Timestamp: gostatsd.Nanotime(u),
			Source: gostatsd.Source(rapid.SampledFrom([]string{"", "1.1.1.1"}).Draw(t, "src"))}
		if headerTags {
			if r := rapid.SampledFrom([]string{"", "region:us", "region:eu", "region:us:east-1", "region:eu:"}).Draw(t, "region"); r != "" {
				m.Tags = append(m.Tags, r)
			}
			if s := rapid.SampledFrom([]string{"", "service:web", "service:api", "service:web:8080"}).Draw(t, "service"); s != "" {
				m.Tags = append(m.Tags, s)
			}
			if s := rapid.SampledFrom([]string{"", "", "tenant_id:t1", "tenant_id:t2"}).Draw(t, "tenant"); s != "" {
				m.Tags = append(m.Tags, s)
			}
		}
		if rapid.Bool().Draw(t, "othertag") {
			m.Tags = append(m.Tags, "k:v")
		}
		if rapid.IntRange(0, 5).Draw(t, "zero-counter") == 0 {
			// a counter series whose value is zero is still a series: it travels (next to an identifiable datapoint of this map)
			pts = append(pts, &gostatsd.Metric{Name: "zero." + m.Name, Type: gostatsd.COUNTER, Value: 0, Rate: 1, Tags: m.Tags.Copy(), Source: m.Source, Timestamp: m.Timestamp})
		}
		switch rapid.IntRange(0, 3).Draw(t, "type") {
		case 0:
			// every counter datapoint of a series carries its own bit, so presence in a body is observable
			k := model.MakeKey(gostatsd.COUNTER, m.Name, m.Tags, string(m.Source)).String()
			if bits[k] >= 50 {
				m.Type, m.StringValue = gostatsd.SET, fmt.Sprintf("member-%d", u)
			} else {
				m.Type, m.Value = gostatsd.COUNTER, float64(int64(1)<<bits[k])
				bits[k]++
			}
		case 1:
			m.Type, m.Value = gostatsd.TIMER, float64(u)+0.5
		case 2:
			m.Type, m.StringValue = gostatsd.SET, fmt.Sprintf("member-%d", u)
		default:
			m.Type, m.Value = gostatsd.GAUGE, float64(u)
			// a gauge datapoint is not identifiable once merged (the newest wins): it travels with a companion timer value
			// of the same tags and source (same map => same flush, same header group => same request body)
			pts = append(pts, &gostatsd.Metric{Name: "companion", Type: gostatsd.TIMER, Value: float64(atomic.AddInt64(&uniq, 1)) + 0.25, Rate: 1,
				Tags: m.Tags.Copy(), Source: m.Source, Timestamp: m.Timestamp})
		}
		pts = append(pts, m)
	}
	// every map carries at least one identifiable (non-gauge) datapoint, so that "this dispatch has reached the upstream" is observable
	onlyGauges := true
	for _, m := range pts {
		onlyGauges = onlyGauges && m.Type == gostatsd.GAUGE
	}
	if onlyGauges {
		pts[0].Type, pts[0].Value = gostatsd.TIMER, float64(atomic.AddInt64(&uniq, 1))+0.5
	}
	return gen.MapFromMetrics(pts)
}

// contains reports whether every datapoint of part is present in whole (counter mass, timer values, set members, gauge series).
func contains(whole, part model.Agg) (bool, string) {
	for k, p := range part {
		if k.Type == gostatsd.GAUGE {
			continue // a gauge datapoint is not identifiable once merged: presence is checked at the end
		}
		w, ok := whole[k]
		if !ok {
			return false, "series " + k.String() + " absent"
		}
		switch k.Type {
		case gostatsd.COUNTER:
			if w.Counter&p.Counter != p.Counter {
				return false, fmt.Sprintf("counter datapoints %b of %s not all present (have %b)", p.Counter, k, w.Counter)
			}
		case gostatsd.TIMER:
			have := map[float64]int{}
			for _, v := range w.Values {
				have[v]++
			}
			for _, v := range p.Values {
				if have[v] == 0 {
					return false, fmt.Sprintf("timer value %v of %s absent", v, k)
				}
				have[v]--
			}
		case gostatsd.SET:
			for m := range p.Members {
				if _, ok := w.Members[m]; !ok {
					return false, fmt.Sprintf("set member %q of %s absent", m, k)
				}
			}
		}
	}
	return true, ""
}

func TestForwarderDelivery(t *testing.T) {
	faulty := strings.Contains(t.Name(), "Fault")
	runForwarder(t, faulty)
}

func TestForwarderDeliveryFaults(t *testing.T) { runForwarder(t, true) }

func runForwarder(t *testing.T, faults bool) {
	rapid.Check(t, func(t *rapid.T) {
		c := config{slots: rapid.IntRange(1, 4).Draw(t, "slots"), merge: rapid.IntRange(1, 3).Draw(t, "concurrent-merge"), maxReq: rapid.IntRange(1, 4).Draw(t, "max-requests"),
			manual: rapid.Bool().Draw(t, "manual-flush"), retries: true, comp: rapid.SampledFrom([]string{"none", "zlib", "lz4"}).Draw(t, "compression"),
			okStatus: rapid.SampledFrom([]int{202, 202, 200, 204, 201, 206, 226, 299}).Draw(t, "accepted-status")}
		if !c.manual {
			c.headers = rapid.SampledFrom([][]string{nil, {"region"}, {"region", "service"}, {"service"}, {"tenant_id"}, {"region", "tenant_id"}}).Draw(t, "dynamic-headers")
		}
		c.fromConfig = rapid.Bool().Draw(t, "built-from-configuration")
		// per-body scripts: body index -> outcomes per attempt
		scripts := map[int][]string{}
		alwaysFail := map[int]bool{}
		aged := false
		if faults {
			c.retries = rapid.Bool().Draw(t, "retries-enabled")
			nb := rapid.IntRange(1, 3).Draw(t, "scripted-bodies")
			for i := 0; i < nb; i++ {
				idx := rapid.IntRange(1, 6).Draw(t, "body-index")
				k := rapid.IntRange(1, 2).Draw(t, "failures")
				var s []string
				for j := 0; j < k; j++ {
					s = append(s, rapid.SampledFrom([]string{"503", "400", "neterr", "2xx-cut"}).Draw(t, "outcome"))
				}
				scripts[idx] = s
			}
			// one fault case in six with retries: a body the upstream refuses for the whole retry window (2 s of real time, the
			// back-off runs on the real clock). It is re-sent until the window is used up, then given up and counted as dropped
			if c.retries && rapid.IntRange(0, 5).Draw(t, "refused-for-the-whole-window") == 3 {
				idx := rapid.IntRange(1, 4).Draw(t, "refused-body")
				scripts[idx] = nil
				for j := 0; j < 40; j++ {
					scripts[idx] = append(scripts[idx], "503")
				}
				alwaysFail[idx] = true
			}
			if rapid.IntRange(0, 3).Draw(t, "slow") == 0 {
				scripts[rapid.IntRange(1, 6).Draw(t, "slow-body")] = []string{"slow"}
			}
		}
		r := newRig(t, c)
		if faults && c.retries && len(scripts) > 0 && rapid.IntRange(0, 11).Draw(t, "aged-forwarder") == 11 {
			// the forwarder has been running for longer than one retry window (2 s) before anything fails: a body's window
			// starts with its own first attempt, not with the forwarder
			time.Sleep(2200 * time.Millisecond)
			aged = true
		}
		r.mu.Lock() // the forwarder is already running (its start-up no-op post reads the script)
		r.script = func(idx, attempt int) string {
			if s, ok := scripts[idx]; ok && attempt < len(s) {
				return s[attempt]
			}
			return "2xx"
		}
		r.mu.Unlock()
		refusedThroughout = len(alwaysFail) > 0
		defer func() {
			r.cancel()
			select {
			case <-r.done:
			case <-time.After(30 * time.Second):
				buf := make([]byte, 1<<20)
				buf = buf[:runtime.Stack(buf, true)]
				vt.WriteCase(map[string]interface{}{"goroutines": string(buf)})
				vt.Fail(t, "C15:run-does-not-return", "forwarder Run did not return within 30s after cancellation (a semaphore token was not returned)")
			}
		}()

		bits := map[string]uint{}
		dispatchers := rapid.IntRange(1, 4).Draw(t, "dispatchers")
		phases := rapid.IntRange(1, 4).Draw(t, "phases")
		var before []model.Agg     // per flush: data whose dispatch returned before the trigger
		var concurrent []model.Agg // per flush: data dispatched while the flush was in progress
		all := model.Agg{}
		soFar := model.Agg{} // everything whose dispatch returned before the current trigger
		overlapped := false
		var pendingOverlap []piece
		var history []string
		for ph := 0; ph < phases; ph++ {
			// dispatch-set: every dispatcher sends 1..3 maps concurrently
			var pieces []piece
			for d := 0; d < dispatchers; d++ {
				k := rapid.IntRange(1, 3).Draw(t, "maps")
				for i := 0; i < k; i++ {
					mm := uniqueMap(t, len(c.headers) > 0, bits)
					pieces = append(pieces, piece{dispatcher: d, mm: mm, agg: model.FromMap(gen.CopyMap(mm))})
				}
			}
			overlap := ph > 0 && rapid.Bool().Draw(t, "overlap-with-previous-flush") && len(pendingOverlap) == 0
			_ = overlap
			var wg sync.WaitGroup
			for d := 0; d < dispatchers; d++ {
				wg.Add(1)
				go func(d int) {
					defer wg.Done()
					for _, p := range pieces {
						if p.dispatcher == d {
							r.fwd.DispatchMetricMap(context.Background(), gen.CopyMap(p.mm))
						}
					}
				}(d)
			}
			wg.Wait()
			b := model.Agg{}
			for _, p := range pieces {
				b.Merge(p.agg)
				all.Merge(p.agg)
			}
			before = append(before, b)
			soFar.Merge(b)
			history = append(history, fmt.Sprintf("dispatch %d maps from %d dispatchers", len(pieces), dispatchers))
			// flush, optionally with a dispatch-set running at the same time
			cc := model.Agg{}
			var owg sync.WaitGroup
			if rapid.Bool().Draw(t, "dispatch-during-flush") {
				overlapped = overlapped || dispatchers >= 2
				var extra []piece
				for d := 0; d < dispatchers; d++ {
					mm := uniqueMap(t, len(c.headers) > 0, bits)
					extra = append(extra, piece{dispatcher: d, mm: mm, agg: model.FromMap(gen.CopyMap(mm))})
				}
				for _, p := range extra {
					cc.Merge(p.agg)
					all.Merge(p.agg)
					owg.Add(1)
					go func(p piece) {
						defer owg.Done()
						r.fwd.DispatchMetricMap(context.Background(), gen.CopyMap(p.mm))
					}(p)
				}
				history = append(history, fmt.Sprintf("flush %d with %d concurrent dispatches", ph+1, len(extra)))
			} else {
				history = append(history, fmt.Sprintf("flush %d", ph+1))
			}
			concurrent = append(concurrent, cc)
			r.trigger(t, c.manual)
			owg.Wait()
			// wait until everything dispatched before this trigger (including the previous flush's concurrent dispatches)
			// has reached a final state in some body; only then may the next trigger be issued
			waitFinal(t, r, soFar, history)
			soFar.Merge(cc)
		}
		// final flush so that data dispatched during the last flush is delivered too, then stop
		before = append(before, model.Agg{})
		concurrent = append(concurrent, model.Agg{})
		r.trigger(t, c.manual)
		waitFinal(t, r, all, history)
		waitGauges(t, r, all)
		settle(r, c)
		judge(t, r, c, before, concurrent, all, scripts, history)

		nt := overlapped
		for _, s := range scripts {
			if len(s) > 0 && s[0] != "slow" {
				nt = nt || c.retries
			}
		}
		labels := []string{fmt.Sprintf("slots=%d", c.slots), fmt.Sprintf("max-requests=%d", c.maxReq), "compression=" + c.comp}
		if c.manual {
			labels = append(labels, "manual-flush")
		} else {
			labels = append(labels, "timer-flush")
		}
		if len(c.headers) > 0 {
			labels = append(labels, "dynamic-headers")
		}
		if faults {
			labels = append(labels, "faults")
		}
		if aged {
			labels = append(labels, "forwarder-older-than-retry-window")
		}
		if overlapped {
			labels = append(labels, "dispatch-overlaps-flush")
		}
		if ev.C().WantSample() {
			ev.C().Sample(map[string]interface{}{"config": fmt.Sprintf("%+v", c), "scripts": fmt.Sprint(scripts), "history": history, "attempts": len(r.snapshot())})
		}
		ev.C().Case(fmt.Sprintf("%+v|%v|%v|%d", c, scripts, history, atomic.LoadInt64(&uniq)), nt, labels...)
	})
}

// finalBodies returns, per distinct body that has reached a final state, its decoded content.
func finalBodies(t vt.TB, r *rigT) (final map[string]model.Agg, acked map[string]bool) {
	final, acked = map[string]model.Agg{}, map[string]bool{}
	// only attempts the script has answered (logged) count: an attempt the transport has recorded but whose outcome is
	// not decided yet is neither acknowledged nor abandoned
	logs := r.snapshot()
	last := map[string]string{}
	var atts []*fakes.Attempt
	for _, l := range logs {
		last[l.body] = l.outcome
		atts = append(atts, l.att)
	}
	decoded := map[string]model.Agg{}
	for _, a := range atts {
		k := string(a.Body)
		if _, ok := decoded[k]; ok {
			continue
		}
		msg, err := decodeBody(a)
		if err != nil {
			vt.Fail(t, "C15:undecodable-body", "upstream received a body that does not decode: %v", err)
		}
		decoded[k] = aggOf(msg)
	}
	for k, o := range last {
		if o == "2xx" {
			final[k], acked[k] = decoded[k], true
		}
	}
	return
}

func waitFinal(t vt.TB, r *rigT, want model.Agg, history []string) {
	deadline := time.Now().Add(30 * time.Second)
	for {
		final, _ := finalBodies(t, r)
		union := model.Agg{}
		for _, a := range final {
			union.Merge(a)
		}
		// abandoned bodies count as final too: with retries disabled a failed first attempt is final
		ok, why := contains(unionWithAbandoned(r, union), want)
		if ok {
			return
		}
		if time.Now().After(deadline) {
			vt.Fail(t, "C15:not-delivered", "data dispatched before the flush did not reach the upstream (nor was it abandoned) within 30s: %s; history %v", why, history)
		}
		time.Sleep(300 * time.Microsecond)
	}
}

// unionWithAbandoned adds the content of bodies whose last attempt failed and that will not be retried
// (the dropped counter says how many bodies were given up).
func unionWithAbandoned(r *rigT, union model.Agg) model.Agg {
	dropped := emitAndRead(r, "http.forwarder.dropped")
	if dropped == 0 {
		return union
	}
	logs := r.snapshot()
	last := map[string]string{}
	var atts []*fakes.Attempt
	for _, l := range logs {
		last[l.body] = l.outcome
		atts = append(atts, l.att)
	}
	seen := map[string]bool{}
	for _, a := range atts {
		k := string(a.Body)
		if seen[k] || last[k] == "2xx" {
			continue
		}
		seen[k] = true
		if msg, err := decodeBody(a); err == nil {
			union.Merge(aggOf(msg))
		}
	}
	return union
}

// waitGauges waits (progress wait) until every dispatched gauge series has shown up in some body.
func waitGauges(t vt.TB, r *rigT, all model.Agg) {
	deadline := time.Now().Add(30 * time.Second)
	for {
		seen := map[model.Key]bool{}
		for _, l := range r.snapshot() {
			if msg, err := decodeBody(l.att); err == nil {
				for k := range aggOf(msg) {
					seen[k] = true
				}
			}
		}
		missing := ""
		for k := range all {
			if k.Type == gostatsd.GAUGE && !seen[k] {
				missing = k.String()
			}
		}
		if missing == "" || time.Now().After(deadline) {
			return
		}
		time.Sleep(300 * time.Microsecond)
	}
}

// settle waits (progress wait, 10 s) until no body is in the middle of a retry: with retries enabled every scripted
// failure is followed by a success, so every body's last outcome becomes 2xx.
func settle(r *rigT, c config) {
	if !c.retries {
		return
	}
	for deadline := time.Now().Add(10 * time.Second); time.Now().Before(deadline); time.Sleep(time.Millisecond) {
		last := map[string]string{}
		first, latest := map[string]time.Time{}, map[string]time.Time{}
		for _, l := range r.snapshot() {
			last[l.body] = l.outcome
			if _, ok := first[l.body]; !ok {
				first[l.body] = l.at
			}
			latest[l.body] = l.at
		}
		pending := false
		for b, o := range last {
			if o != "2xx" && refusedThroughout && latest[b].Sub(first[b]) >= retryWindow-windowSlack && time.Since(latest[b]) > 1500*time.Millisecond {
				continue // refused throughout its window, and no further attempt for longer than any back-off inside it: given up
			}
			pending = pending || o != "2xx"
		}
		if !pending {
			return
		}
	}
}

var emitMu sync.Mutex

func emitAndRead(r *rigT, key string) float64 {
	emitMu.Lock()
	defer emitMu.Unlock()
	chans := r.st.FlushChans()
	for i := 0; len(chans) == 0 && i < 50000; i++ {
		time.Sleep(20 * time.Microsecond)
		chans = r.st.FlushChans()
	}
	for i := 0; i < 2; i++ { // the second send returning means the first emission completed
		for _, c := range chans {
			select {
			case c <- 0:
			case <-time.After(5 * time.Second):
			}
		}
	}
	return r.st.CountValue(key)
}

func judge(t vt.TB, r *rigT, c config, before, concurrent []model.Agg, all model.Agg, scripts map[int][]string, history []string) {
	logs := r.snapshot()
	atts := r.rt.Attempts()
	fail := func(sig, f string, a ...interface{}) {
		var al []string
		for _, l := range logs {
			d := "?"
			if msg, err := decodeBody(l.att); err == nil {
				d = aggOf(msg).Canon()
			}
			al = append(al, fmt.Sprintf("flush=%d outcome=%s len=%d headers=%v content=%s", l.flush, l.outcome, len(l.body), l.header, strings.ReplaceAll(d, "\n", " ; ")))
		}
		vt.WriteCase(map[string]interface{}{"config": fmt.Sprintf("%+v", c), "scripts": fmt.Sprint(scripts), "history": history, "attempts": al})
		vt.Fail(t, sig, "%s; config %+v scripts %v; history %v", fmt.Sprintf(f, a...), c, scripts, history)
	}
	// per distinct body: attempts in order, first flush, content, headers
	type bodyInfo struct {
		outcomes []string
		first    time.Time
		latest   time.Time
		flush    int
		agg      model.Agg
		header   map[string]string
	}
	bodies := map[string]*bodyInfo{}
	var order []string
	_ = atts
	for i, l := range logs {
		b := bodies[l.body]
		if b == nil {
			msg, err := decodeBody(l.att)
			if err != nil {
				fail("C15:undecodable-body", "body %d does not decode: %v", i, err)
			}
			b = &bodyInfo{flush: l.flush, agg: aggOf(msg), header: l.header}
			bodies[l.body] = b
			order = append(order, l.body)
		}
		if n := len(b.outcomes); n > 0 && b.outcomes[n-1] == "2xx" {
			fail("C15:resent-after-success", "a byte-identical body was sent again after it had been acknowledged (attempt outcomes %v then another attempt)", b.outcomes)
		}
		b.outcomes = append(b.outcomes, l.outcome)
		if b.first.IsZero() {
			b.first = l.at
		}
		b.latest = l.at
	}
	// (1) conservation: no datapoint in two distinct bodies, union of final bodies == everything dispatched
	union := model.Agg{}
	created, sent, retried, dropped := 0, 0, 0, 0
	for _, k := range order {
		b := bodies[k]
		created++
		retried += len(b.outcomes) - 1
		if b.outcomes[len(b.outcomes)-1] == "2xx" {
			sent++
		} else {
			dropped++
			// with retries a body is given up only after an attempt that failed when the window (2 s since its first attempt) was over
			if c.retries && b.latest.Sub(b.first) < retryWindow-windowSlack {
				fail("C15:abandoned-inside-window", "a body was given up after outcomes %v, %v after its first attempt, although the retry window (2s) was not exhausted", b.outcomes, b.latest.Sub(b.first))
			}
		}
		for key, s := range b.agg {
			if u, ok := union[key]; ok {
				switch key.Type {
				case gostatsd.TIMER:
					have := map[float64]bool{}
					for _, v := range u.Values {
						have[v] = true
					}
					for _, v := range s.Values {
						if have[v] {
							fail("C15:datapoint-in-two-bodies", "timer value %v of %s appears in two distinct request bodies", v, key)
						}
					}
				case gostatsd.SET:
					for m := range s.Members {
						if _, dup := u.Members[m]; dup {
							fail("C15:datapoint-in-two-bodies", "set member %q of %s appears in two distinct request bodies", m, key)
						}
					}
				}
			}
		}
		union.Merge(b.agg)
	}
	if d := model.Diff(union, all, model.Opts{IgnoreTimestamps: true, IgnoreGauges: true, SampledTol: 1e-9}); d != "" {
		fail("C15:not-conserved", "the distinct request bodies together differ from what was dispatched: %s", d)
	}
	for k := range all {
		if k.Type == gostatsd.GAUGE {
			if _, ok := union[k]; !ok {
				fail("C15:not-conserved", "gauge %s never reached the upstream", k)
			}
		}
	}
	for k := range union {
		if _, ok := all[k]; !ok {
			fail("C15:invented-series", "series %s reached the upstream but was never dispatched", k)
		}
	}
	// (2) attribution: data dispatched before trigger i is in bodies first attempted after trigger i and before trigger i+1
	for i, b := range before {
		flushNo := i + 1
		inFlush := model.Agg{}
		for _, k := range order {
			if bodies[k].flush == flushNo {
				inFlush.Merge(bodies[k].agg)
			}
		}
		if ok, why := contains(inFlush, b); !ok {
			fail("C15:wrong-flush", "data whose dispatch returned before flush %d is not in the bodies of that flush: %s", flushNo, why)
		}
		// data dispatched while flush i ran may be in flush i or i+1
		both := model.Agg{}
		for _, k := range order {
			if bodies[k].flush == flushNo || bodies[k].flush == flushNo+1 {
				both.Merge(bodies[k].agg)
			}
		}
		if ok, why := contains(both, concurrent[i]); !ok {
			fail("C15:wrong-flush", "data dispatched during flush %d is in neither that flush nor the next: %s", flushNo, why)
		}
	}
	// (4) header split
	for _, k := range order {
		b := bodies[k]
		for key := range b.agg {
			tags := strings.Split(key.Tags, "\x1f")
			for _, h := range c.headers {
				want := ""
				for _, tg := range tags {
					if strings.HasPrefix(tg, h+":") {
						want = tg[len(h)+1:]
					}
				}
				if b.header[h] != want {
					fail("C15:header-split", "series %s travels in a request with header %s=%q", key, h, b.header[h])
				}
			}
		}
		if len(c.headers) == 0 && len(b.header) > 0 {
			fail("C15:header-split", "request carries dynamic headers %v although none are configured", b.header)
		}
	}
	// (3) counters
	var gotCreated, gotSent, gotRetried, gotDropped, gotInvalid float64
	for deadline := time.Now().Add(10 * time.Second); ; {
		// the counters are bumped after the reply was processed: give them a progress wait before comparing
		gotCreated = emitAndRead(r, "http.forwarder.created")
		gotSent = r.st.CountValue("http.forwarder.sent")
		gotRetried = r.st.CountValue("http.forwarder.retried")
		gotDropped = r.st.CountValue("http.forwarder.dropped")
		gotInvalid = r.st.CountValue("http.forwarder.invalid")
		if (int(gotCreated) == created && int(gotSent) == sent && int(gotRetried) == retried && int(gotDropped) == dropped) || time.Now().After(deadline) {
			break
		}
		time.Sleep(time.Millisecond)
	}
	if int(gotCreated) != created || int(gotSent) != sent || int(gotRetried) != retried || int(gotDropped) != dropped || gotInvalid != 0 {
		fail("C15:counters", "http.forwarder.created/sent/retried/dropped/invalid = %v/%v/%v/%v/%v, the upstream saw %d bodies, %d acknowledged, %d re-sends, %d given up", gotCreated, gotSent, gotRetried, gotDropped, gotInvalid, created, sent, retried, dropped)
	}
	_ = sort.Strings
}

// TestProbeNonUTF8 re-checks the recorded finding: one client's tag that is not valid UTF-8 makes the merged batch
// unencodable, and another client's datapoints in the same flush are lost with it.
func TestProbeNonUTF8(t *testing.T) {
	c := config{slots: 1, merge: 1, maxReq: 2, manual: true, retries: false, comp: "none"}
	r := newRig(t, c)
	defer func() { r.cancel(); <-r.done }()
	good := gen.MapFromMetrics([]*gostatsd.Metric{{Name: "good", Type: gostatsd.COUNTER, Value: 5, Rate: 1, Source: "1.1.1.1"}})
	bad := gen.MapFromMetrics([]*gostatsd.Metric{{Name: "other", Type: gostatsd.COUNTER, Value: 1, Rate: 1, Source: "2.2.2.2", Tags: gostatsd.Tags{"k:\xff\xfe"}}})
	r.fwd.DispatchMetricMap(context.Background(), good)
	r.fwd.DispatchMetricMap(context.Background(), bad)
	r.trigger(t, true)
	deadline := time.Now().Add(10 * time.Second)
	delivered := false
	for time.Now().Before(deadline) && !delivered {
		final, _ := finalBodies(t, r)
		for _, a := range final {
			if _, ok := a[model.MakeKey(gostatsd.COUNTER, "good", nil, "1.1.1.1")]; ok {
				delivered = true
			}
		}
		if emitAndRead(r, "http.forwarder.invalid") > 0 {
			break
		}
		time.Sleep(time.Millisecond)
	}
	vt.Probe(t, sigUTF8, !delivered, fmt.Sprintf("client A's counter delivered=%v, http.forwarder.invalid=%v", delivered, r.st.CountValue("http.forwarder.invalid")))
	ev.C().Case("probe-non-utf8", true, "probe")
}
