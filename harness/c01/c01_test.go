package c01

import (
	"context"
	"fmt"
	"io"
	"math"
	"runtime"
	"strconv"
	"strings"
	"sync"
	"sync/atomic"
	"testing"
	"time"

	"github.com/atlassian/gostatsd"
	"github.com/atlassian/gostatsd/pkg/stats"
	"github.com/atlassian/gostatsd/pkg/statsd"
	"github.com/sirupsen/logrus"
	"github.com/tilinna/clock"
	"pgregory.net/rapid"

	"verifharness/internal/ev"
	"verifharness/internal/fakes"
	"verifharness/internal/gen"
	"verifharness/internal/model"
	"verifharness/internal/rig"
	"verifharness/internal/vt"
)

func TestMain(m *testing.M) {
	logrus.SetOutput(io.Discard)
	logrus.SetLevel(logrus.PanicLevel)
	ev.C().Rule("rapid: (a) concurrent pipeline - configuration (1..4 parsers, 1..5 shards, queue 0..3, GOMAXPROCS in {1,2,4,16}) x stream of 1..40 datagrams of 1..8 valid lines over colliding series (4 types, rates, 2 sources) split over 1..3 feeder goroutines x flush ticks fired at drawn positions without waiting for quiescence, through real DatagramParser -> BackendHandler -> MetricAggregator -> MetricFlusher; totals after a deterministic join. (b) sequential shard history - state machine over one real MetricAggregator (ReceiveMap | Flush+Process+Reset) compared with the model after every step. Non-trivial = a mid-stream flush while batches were still to be sent and a series with data on both sides of it")
	vt.Main(m)
}

var names = []string{"a", "b", "req.time", "c.d", "e", "f_g"}
var tagSets = [][]string{nil, {"k:v"}, {"env:prod", "k:w"}, {"gsd_histogram:1_5_10", "k:v"}, {"gsd_histogram:20"}, {"k:v", "k:v"}, {"k:w", "env:prod", "k:w"}}
var sources = []string{"1.2.3.4", "10.0.0.9"}
var rates = []string{"1", "0.5", "0.25", "0.1", "0.3"}
var typeStr = map[gostatsd.MetricType]string{gostatsd.COUNTER: "c", gostatsd.TIMER: "ms", gostatsd.GAUGE: "g", gostatsd.SET: "s"}

type line struct {
	text string
	m    *gostatsd.Metric // expected datapoint (source/timestamp filled per datagram)
}

func lineGen() *rapid.Generator[line] {
	return rapid.Custom(func(t *rapid.T) line {
		ty := rapid.SampledFrom([]gostatsd.MetricType{gostatsd.COUNTER, gostatsd.COUNTER, gostatsd.TIMER, gostatsd.TIMER, gostatsd.SET, gostatsd.GAUGE}).Draw(t, "type")
		name := rapid.SampledFrom(names).Draw(t, "name")
		tags := rapid.SampledFrom(tagSets).Draw(t, "tags")
		m := &gostatsd.Metric{Name: name, Type: ty, Rate: 1, Tags: gostatsd.Tags(append([]string(nil), tags...))}
		var vs string
		switch ty {
		case gostatsd.SET:
			vs = rapid.SampledFrom([]string{"u1", "u2", "u3", "u4", "u5"}).Draw(t, "member")
			m.StringValue = vs
		case gostatsd.COUNTER:
			vs = rapid.OneOf(rapid.SampledFrom([]string{"1", "2", "7", "-3", "2.7", "1e3", "100000", "0.4"}), rapid.Custom(func(t *rapid.T) string { return strconv.Itoa(rapid.IntRange(-50, 5000).Draw(t, "cv")) })).Draw(t, "value")
			m.Value, _ = strconv.ParseFloat(vs, 64)
		default:
			vs = strconv.FormatFloat(float64(rapid.IntRange(-1000, 100000).Draw(t, "tv"))/float64(rapid.SampledFrom([]int{1, 10, 1000}).Draw(t, "div")), 'f', -1, 64)
			m.Value, _ = strconv.ParseFloat(vs, 64)
		}
		text := name + ":" + vs + "|" + typeStr[ty]
		if ty == gostatsd.COUNTER || ty == gostatsd.TIMER {
			if rs := rapid.SampledFrom(rates).Draw(t, "rate"); rs != "1" {
				m.Rate, _ = strconv.ParseFloat(rs, 64)
				text += "|@" + rs
			}
		}
		if len(tags) > 0 {
			text += "|#" + strings.Join(tags, ",")
		}
		return line{text: text, m: m}
	})
}

type datagram struct {
	lines  []line
	src    string
	ts     int64
	junk   string // isJunk: the datagram's bytes, without any datapoint
	isJunk bool
}

// guardAgg wraps a real MetricAggregator: it detects concurrent use (the worker must be the only goroutine
// touching its aggregator) and lets the harness find out which worker owns which aggregate map.
type guardAgg struct {
	inner    *statsd.MetricAggregator
	busy     int32
	overlaps int32
	received int64
}

func (g *guardAgg) enter() {
	if !atomic.CompareAndSwapInt32(&g.busy, 0, 1) {
		atomic.AddInt32(&g.overlaps, 1)
	}
}
func (g *guardAgg) leave() { atomic.StoreInt32(&g.busy, 0) }
func (g *guardAgg) ReceiveMap(mm *gostatsd.MetricMap) {
	g.enter()
	runtime.Gosched()
	g.inner.ReceiveMap(mm)
	atomic.AddInt64(&g.received, 1)
	g.leave()
}
func (g *guardAgg) Flush(d time.Duration) { g.enter(); runtime.Gosched(); g.inner.Flush(d); g.leave() }
func (g *guardAgg) Process(f statsd.ProcessFunc) {
	g.enter()
	g.inner.Process(f)
	g.leave()
}
func (g *guardAgg) Reset() { g.enter(); g.inner.Reset(); g.leave() }

// capBackend deep-copies every flushed map and remembers which aggregate map (pointer) and which flush epoch it came from.
type capBackend struct {
	mu      sync.Mutex
	st      *fakes.Statser
	flushes []captured
}
type captured struct {
	epoch int64
	ptr   *gostatsd.MetricMap
	mm    *gostatsd.MetricMap
}

func (b *capBackend) Name() string { return "capture" }
func (b *capBackend) SendMetricsAsync(ctx context.Context, mm *gostatsd.MetricMap, cb gostatsd.SendCallback) {
	c := captured{epoch: b.st.NotifiedCount(), ptr: mm, mm: gen.CopyMap(mm)}
	b.mu.Lock()
	b.flushes = append(b.flushes, c)
	b.mu.Unlock()
	cb(nil)
}
func (b *capBackend) SendEvent(context.Context, *gostatsd.Event) error { return nil }

func TestPipelineConservation(t *testing.T) {
	rapid.Check(t, func(t *rapid.T) {
		parsers := rapid.IntRange(1, 4).Draw(t, "parsers")
		shards := rapid.IntRange(1, 5).Draw(t, "shards")
		queue := rapid.IntRange(0, 3).Draw(t, "queue")
		procs := rapid.SampledFrom([]int{1, 2, 4, 16}).Draw(t, "gomaxprocs")
		feeders := rapid.IntRange(1, 3).Draw(t, "feeders")
		withTagStage := rapid.Bool().Draw(t, "tag-stage")
		nd := rapid.IntRange(1, 40).Draw(t, "datagrams")
		dgs := make([]datagram, nd)
		for i := range dgs {
			dgs[i] = datagram{lines: rapid.SliceOfN(lineGen(), 1, 8).Draw(t, "lines"), src: rapid.SampledFrom(sources).Draw(t, "src"), ts: int64(i + 1)}
		}
		// datagrams without any datapoint in a receive batch (only rejected lines, only an event, nothing at all): drawn per batch
		// position below; they carry nothing and must cost nothing
		junkPool := []string{"", "\n", "bad", "x:1|q\ny:|c", "_e{1,1}:a|b", "\x00\xff|"}
		// batches: consecutive datagrams grouped 1..3 per batch; batch i goes to feeder i%feeders
		var batches [][]datagram
		for i := 0; i < nd; {
			k := rapid.IntRange(1, 3).Draw(t, "batchsize")
			if i+k > nd {
				k = nd - i
			}
			b := append([]datagram(nil), dgs[i:i+k]...)
			if rapid.IntRange(0, 3).Draw(t, "junk-datagram") == 0 {
				j := datagram{junk: rapid.SampledFrom(junkPool).Draw(t, "junk"), isJunk: true, src: "10.0.0.9", ts: int64(i + 1)}
				pos := rapid.IntRange(0, len(b)).Draw(t, "junk-position")
				b = append(b[:pos], append([]datagram{j}, b[pos:]...)...)
			}
			batches = append(batches, b)
			i += k
		}
		// flush points: after a feeder has sent its k-th batch
		flushAfter := map[int]bool{}
		nfl := rapid.IntRange(0, 5).Draw(t, "flushes")
		for i := 0; i < nfl; i++ {
			flushAfter[rapid.IntRange(0, len(batches)-1).Draw(t, "flush-after-batch")] = true
		}

		old := runtime.GOMAXPROCS(procs)
		defer runtime.GOMAXPROCS(old)

		st := fakes.NewStatser()
		clk := rig.NewOwnedClock(time.Now())
		ctx, cancel := context.WithCancel(stats.NewContext(clock.Context(context.Background(), clk), st))
		defer cancel()
		backend := &capBackend{st: st}
		var aggs []*guardAgg
		bh := statsd.NewBackendHandler([]gostatsd.Backend{backend}, 1, shards, queue, statsd.AggregatorFactoryFunc(func() statsd.Aggregator {
			g := &guardAgg{inner: statsd.NewMetricAggregator([]float64{90}, 0, 0, 0, 0, gostatsd.TimerSubtypes{}, math.MaxUint32)}
			aggs = append(aggs, g)
			return g
		}))
		var handler gostatsd.PipelineHandler = bh
		if withTagStage {
			handler = statsd.NewTagHandler(bh, nil, nil)
		}
		in := make(chan []*statsd.Datagram)
		var wg sync.WaitGroup
		bhDone := make(chan struct{})
		go func() { bh.Run(ctx); close(bhDone) }()
		for p := 0; p < parsers; p++ {
			dp := statsd.NewDatagramParser(in, "", false, 0, handler, 0, false, logrus.StandardLogger())
			wg.Add(1)
			go func() { defer wg.Done(); dp.Run(ctx) }()
		}
		fl := statsd.NewMetricFlusher(time.Second, 0, false, bh, []gostatsd.Backend{backend})
		flDone := make(chan struct{})
		go func() { fl.Run(ctx); close(flDone) }()
		tick := clk.Ticker(0, 30*time.Second)
		if tick == nil {
			t.Fatalf("flusher did not create its ticker")
		}

		want := model.Agg{}
		for _, d := range dgs {
			for _, l := range d.lines {
				m := gen.CopyMetric(l.m)
				m.Source, m.Timestamp = gostatsd.Source(d.src), gostatsd.Nanotime(d.ts)
				if withTagStage {
					// the tag stage removes repeated tags, so "k:v,k:v" is the series "k:v"
					m.Tags = uniqueTags(m.Tags)
				}
				want.AddMetric(m)
			}
		}
		var ticksSent int64
		var tickMu sync.Mutex
		sendTick := func() {
			tickMu.Lock()
			n := atomic.AddInt64(&ticksSent, 1)
			tick <- time.Now().Add(time.Duration(n) * time.Second)
			tickMu.Unlock()
		}
		var fwg sync.WaitGroup
		var sentBatches int64
		midFlush := int64(0)
		for f := 0; f < feeders; f++ {
			fwg.Add(1)
			go func(f int) {
				defer fwg.Done()
				for i := f; i < len(batches); i += feeders {
					var b []*statsd.Datagram
					for _, d := range batches[i] {
						var sb strings.Builder
						for _, l := range d.lines {
							sb.WriteString(l.text)
							sb.WriteByte('\n')
						}
						msg := []byte(sb.String())
						if d.isJunk {
							msg = []byte(d.junk)
						}
						b = append(b, &statsd.Datagram{IP: gostatsd.Source(d.src), Msg: msg, Timestamp: gostatsd.Nanotime(d.ts), DoneFunc: func() {}})
					}
					in <- b
					n := atomic.AddInt64(&sentBatches, 1)
					if flushAfter[i] {
						if n < int64(len(batches)) {
							atomic.AddInt64(&midFlush, 1)
						}
						sendTick()
					}
				}
			}(f)
		}
		fwg.Wait()
		// parser barrier: every parser takes one sentinel batch and waits until all have: all earlier batches are parsed and dispatched
		var bar sync.WaitGroup
		bar.Add(parsers)
		for p := 0; p < parsers; p++ {
			in <- []*statsd.Datagram{{Msg: nil, DoneFunc: func() { bar.Done(); bar.Wait() }}}
		}
		bar.Wait()
		// Every mid-stream flush has completed or is the one in flight: a tick is only taken when the flusher is back
		// in its loop. Cancelling now lets an in-flight flush finish or abort between shards (each shard's
		// Flush+Process+Reset is atomic in its worker), then everything is joined deterministically.
		cancel()
		<-bhDone // workers drained their queues and exited: a deterministic join
		<-flDone
		wg.Wait()
		// final accounting flush, directly on the aggregators from this goroutine
		st.NotifyFlush(ctx, 0)
		for _, g := range aggs {
			g.Flush(time.Second)
			g.Process(func(mm *gostatsd.MetricMap) { backend.SendMetricsAsync(ctx, mm, func([]error) {}) })
			g.Reset()
		}

		fail := func(sig, f string, a ...interface{}) {
			var stream []string
			for _, d := range dgs {
				var ls []string
				for _, l := range d.lines {
					ls = append(ls, l.text)
				}
				stream = append(stream, fmt.Sprintf("[%s@%d] %s", d.src, d.ts, strings.Join(ls, " / ")))
			}
			vt.WriteCase(map[string]interface{}{"parsers": parsers, "shards": shards, "queue": queue, "gomaxprocs": procs, "feeders": feeders, "flush_after_batches": fmt.Sprint(flushAfter), "stream": stream})
			vt.Fail(t, sig, "parsers=%d shards=%d queue=%d feeders=%d flushes=%d: %s", parsers, shards, queue, feeders, ticksSent, fmt.Sprintf(f, a...))
		}
		for i, g := range aggs {
			if g.overlaps > 0 {
				fail("C01:aggregator-used-concurrently", "aggregator %d was entered by two goroutines at once %d times", i, g.overlaps)
			}
		}
		got := model.Agg{}
		owner := map[model.Key]*gostatsd.MetricMap{}
		perEpoch := map[int64]map[model.Key]bool{}
		for _, c := range backend.flushes {
			if d := model.DupKeys(c.mm); len(d) > 0 {
				fail("C01:series-twice-in-one-flush", "a flushed map holds a series under two keys: %v", d)
			}
			if perEpoch[c.epoch] == nil {
				perEpoch[c.epoch] = map[model.Key]bool{}
			}
			for k, s := range flushAgg(c.mm) {
				if perEpoch[c.epoch][k] {
					fail("C01:series-twice-in-one-flush", "series %v reported by two shards in one flush", k)
				}
				perEpoch[c.epoch][k] = true
				if o, ok := owner[k]; ok && o != c.ptr {
					fail("C01:series-moves-between-shards", "series %v reported by two different aggregators during the run", k)
				}
				owner[k] = c.ptr
				_ = s
			}
			got.Merge(flushAgg(c.mm))
		}
		if d := model.Diff(got, want, model.Opts{IgnoreGauges: true, IgnoreTimestamps: true, SampledTol: 1e-9}); d != "" {
			fail("C01:not-conserved", "summed over all %d flushed maps the data differs from what was sent: %s", len(backend.flushes), d)
		}
		// gauges: every gauge series sent is reported, none invented
		for k := range want {
			if k.Type == gostatsd.GAUGE {
				if _, ok := got[k]; !ok {
					fail("C01:not-conserved", "gauge %v never reported", k)
				}
			}
		}
		for k := range got {
			if _, ok := want[k]; !ok {
				fail("C01:invented-series", "series %v reported but never sent", k)
			}
		}

		// non-trivial: a mid-stream flush and a series with data before and after it (approximated: some flush epoch
		// before the last two carries data of a series that also has data in a later epoch)
		nt := false
		if midFlush > 0 {
			firstData := map[model.Key]int64{}
			for _, c := range backend.flushes {
				for k, s := range flushAgg(c.mm) {
					if s.Counter != 0 || len(s.Values) > 0 || len(s.Members) > 0 {
						if e, ok := firstData[k]; ok && e != c.epoch {
							nt = true
						} else if !ok {
							firstData[k] = c.epoch
						}
					}
				}
			}
		}
		labels := []string{fmt.Sprintf("pipeline-shards=%d", shards), fmt.Sprintf("pipeline-queue=%d", queue), fmt.Sprintf("pipeline-parsers=%d", parsers), fmt.Sprintf("gomaxprocs=%d", procs)}
		if midFlush > 0 {
			labels = append(labels, "mid-stream-flush")
		}
		if nt {
			labels = append(labels, "series-split-over-flushes")
		}
		if ev.C().WantSample() {
			ev.C().Sample(map[string]interface{}{"parsers": parsers, "shards": shards, "queue": queue, "feeders": feeders, "datagrams": nd, "batches": len(batches), "flush_after_batches": fmt.Sprint(flushAfter), "flushed_maps": len(backend.flushes), "first_datagram": dgs[0].lines[0].text})
		}
		var canon strings.Builder
		fmt.Fprintf(&canon, "%d|%d|%d|%d|%v|", parsers, shards, queue, feeders, flushAfter)
		for _, d := range dgs {
			for _, l := range d.lines {
				canon.WriteString(l.text + ";")
			}
		}
		ev.C().Case(canon.String(), nt, labels...)
	})
}

// flushAgg turns a *flushed* map into the reference form: counters by value, timers by values + sampled count
// (after Flush the per-interval SampledCount is kept in the timer), sets by members.
func uniqueTags(tags gostatsd.Tags) gostatsd.Tags {
	seen := map[string]bool{}
	var out gostatsd.Tags
	for _, tg := range tags {
		if !seen[tg] {
			seen[tg] = true
			out = append(out, tg)
		}
	}
	return out
}

func flushAgg(mm *gostatsd.MetricMap) model.Agg {
	return model.FromMap(mm)
}

// ---------- (b) sequential shard history ----------

func TestShardHistory(t *testing.T) {
	rapid.Check(t, func(t *rapid.T) {
		agg := statsd.NewMetricAggregator([]float64{90, -50}, 0, 0, 0, 0, gostatsd.TimerSubtypes{}, math.MaxUint32)
		pending := model.Agg{} // data received since the last flush
		ever := map[model.Key]bool{}
		var history []string
		flushes, dataFlushes := 0, 0
		t.Repeat(map[string]func(*rapid.T){
			"receive": func(t *rapid.T) {
				lines := rapid.SliceOfN(lineGen(), 1, 6).Draw(t, "lines")
				mm := gostatsd.NewMetricMap(false)
				for _, l := range lines {
					m := gen.CopyMetric(l.m)
					m.Source, m.Timestamp = "1.1.1.1", gostatsd.Nanotime(flushes+1)
					pending.AddMetric(m)
					ever[model.MakeKey(m.Type, m.Name, m.Tags, string(m.Source))] = true
					mm.Receive(gen.CopyMetric(m))
					history = append(history, l.text)
				}
				agg.ReceiveMap(mm)
			},
			"flush": func(t *rapid.T) {
				history = append(history, "FLUSH")
				agg.Flush(time.Second)
				var got model.Agg
				agg.Process(func(mm *gostatsd.MetricMap) {
					if d := model.DupKeys(mm); len(d) > 0 {
						vt.Fail(t, "C01:series-twice-in-one-flush", "%v", d)
					}
					got = model.FromMap(gen.CopyMap(mm))
				})
				agg.Reset()
				flushes++
				// exactly the data received since the previous flush (idle series report zero / empty)
				for k := range ever {
					if _, ok := pending[k]; !ok && k.Type != gostatsd.GAUGE {
						pending[k] = &model.Series{}
						if k.Type == gostatsd.SET {
							pending[k].Members = map[string]struct{}{}
						}
					}
				}
				if len(pending) > 0 {
					dataFlushes++
				}
				if d := model.Diff(got, pending, model.Opts{IgnoreGauges: true, IgnoreTimestamps: true, SampledTol: 1e-9}); d != "" {
					vt.Fail(t, "C01:flush-differs-from-interval-data", "flush %d reports something else than the data received since the previous flush: %s; history %v", flushes, d, history)
				}
				pending = model.Agg{}
			},
		})
		ev.C().Case("H|"+strings.Join(history, ";"), dataFlushes >= 2, "shard-history", fmt.Sprintf("history-flushes=%d", min(flushes, 6)))
	})
}

func min(a, b int) int {
	if a < b {
		return a
	}
	return b
}
