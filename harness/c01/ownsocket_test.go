package c01

import (
	"fmt"
	"net"
	"os"
	"strconv"
	"strings"
	"testing"
	"time"

	"github.com/atlassian/gostatsd"
	"github.com/atlassian/gostatsd/pkg/statsd"
	"pgregory.net/rapid"

	"verifharness/internal/ev"
	"verifharness/internal/model"
	"verifharness/internal/rig"
	"verifharness/internal/vt"
)

// kernelDrops sums the "drops" column of /proc/net/udp over the sockets bound to port: datagrams the kernel discarded
// because a socket's buffer was full (-1 when the table cannot be read).
func kernelDrops(port int) int {
	b, err := os.ReadFile("/proc/net/udp")
	if err != nil {
		return -1
	}
	suffix := fmt.Sprintf(":%04X", port)
	total := 0
	for _, l := range strings.Split(string(b), "\n")[1:] {
		f := strings.Fields(l)
		if len(f) < 13 || !strings.HasSuffix(f[1], suffix) {
			continue
		}
		d, err := strconv.Atoi(f[len(f)-1])
		if err != nil {
			return -1
		}
		total += d
	}
	return total
}

// TestServerOwnSocket: the server binds its metrics address itself (Server.Run, as the gostatsd command does), with one
// shared socket or - conn-per-reader - one SO_REUSEPORT socket per reader; 4..40 client sockets each send their own
// counter, timer and set series in a few slow rounds. Every datapoint the kernel delivered is in the flushes: the
// kernel's own drop counter for the port says whether it discarded anything.
func TestServerOwnSocket(t *testing.T) {
	rapid.Check(t, func(t *rapid.T) {
		perReader := rapid.Bool().Draw(t, "conn-per-reader")
		readers := rapid.IntRange(1, 3).Draw(t, "max-readers")
		batch := rapid.SampledFrom([]int{1, 8}).Draw(t, "receive-batch-size")
		srv, err := rig.StartServer(rig.ServerConfig{OwnSocket: true, Tune: func(s *statsd.Server) {
			s.ConnPerReader, s.MaxReaders, s.ReceiveBatchSize, s.MaxParsers, s.MaxWorkers = perReader, readers, batch, 2, 2
		}})
		if err != nil {
			t.Skip("no loopback socket: " + err.Error())
		}
		defer srv.Stop()
		_, portStr, _ := net.SplitHostPort(srv.Addr)
		port, _ := strconv.Atoi(portStr)
		desc := fmt.Sprintf("conn-per-reader=%v max-readers=%d receive-batch-size=%d", perReader, readers, batch)
		// the server is up when a probe comes back (probes from fresh sockets: a socket's datagrams always reach the same reader)
		up := false
		for d := time.Now().Add(20 * time.Second); time.Now().Before(d) && !up; {
			c, err := net.Dial("udp", srv.Addr)
			if err == nil {
				c.Write([]byte("verif.sentinel.up:1|c"))
				c.Close()
			}
			time.Sleep(150 * time.Millisecond)
			for _, mm := range srv.Flushes() {
				if _, ok := mm.Counters["verif.sentinel.up"]; ok {
					up = true
				}
			}
		}
		if !up {
			ev.C().Excluded("server-did-not-flush-within-20s", 1)
			t.Skip("the server did not come up")
		}
		before := kernelDrops(port)
		nclients := rapid.IntRange(4, 40).Draw(t, "client-sockets")
		rounds := rapid.IntRange(1, 4).Draw(t, "rounds")
		conns := make([]net.Conn, nclients)
		for i := range conns {
			c, err := net.Dial("udp", srv.Addr)
			if err != nil {
				t.Skip("client socket: " + err.Error())
			}
			defer c.Close()
			conns[i] = c
		}
		want := model.Agg{}
		for r := 0; r < rounds; r++ {
			for i, c := range conns {
				c.Write([]byte(fmt.Sprintf("cl%d.c:1|c\ncl%d.t:%d|ms\ncl%d.s:r%d|s", i, i, r+1, i, r)))
				want.AddCounter(model.MakeKey(gostatsd.COUNTER, fmt.Sprintf("cl%d.c", i), nil, "127.0.0.1"), 1, 1)
				want.AddTimer(model.MakeKey(gostatsd.TIMER, fmt.Sprintf("cl%d.t", i), nil, "127.0.0.1"), []float64{float64(r + 1)}, 1, 1)
				want.AddSet(model.MakeKey(gostatsd.SET, fmt.Sprintf("cl%d.s", i), nil, "127.0.0.1"), map[string]struct{}{fmt.Sprintf("r%d", r): {}}, 1)
				time.Sleep(300 * time.Microsecond)
			}
			time.Sleep(20 * time.Millisecond)
		}
		// wait until everything is there, or for a generous while
		var d string
		for deadline := time.Now().Add(8 * time.Second); ; time.Sleep(50 * time.Millisecond) {
			d = model.Diff(srv.Total(), want, model.Opts{IgnoreTimestamps: true})
			if d == "" || time.Now().After(deadline) {
				break
			}
		}
		after := kernelDrops(port)
		if d != "" {
			if before < 0 || after < 0 || after != before {
				ev.C().Excluded("datagram-dropped-by-the-kernel", 1)
				t.Skip("the kernel dropped datagrams (or its counters cannot be read)")
			}
			if len(d) > 1500 {
				d = d[:1500] + " ..."
			}
			vt.Fail(t, "C01:not-conserved", "server bound to its own address with %s, %d client sockets x %d rounds: the kernel dropped nothing for the port, yet 8 s later the flushes differ from what was sent: %s", desc, nclients, rounds, d)
		}
		ev.C().Case(fmt.Sprintf("O|%s|%d|%d", desc, nclients, rounds), perReader && nclients >= 8, "own-socket", fmt.Sprintf("conn-per-reader=%v", perReader))
		if ev.C().WantSample() {
			ev.C().Sample(map[string]interface{}{"server": desc, "client_sockets": nclients, "rounds": rounds})
		}
	})
}
