package c16

import (
	"context"
	"fmt"
	"net/http"
	"net/http/httptest"
	"strings"
	"sync/atomic"
	"testing"
	"time"

	"github.com/atlassian/gostatsd"
	"github.com/atlassian/gostatsd/pkg/backends"
	"github.com/atlassian/gostatsd/pkg/transport"
	"github.com/sirupsen/logrus"
	"github.com/spf13/viper"
	"pgregory.net/rapid"

	"verifharness/internal/ev"
	"verifharness/internal/vt"
)

// TestBackendsShareTransport: several HTTP backends configured together, built from one configuration and one
// transport pool as the gostatsd command builds them (they share the "default" transport and its client), against an
// upstream that takes every request and never answers. The transport's client-timeout (200 ms) ends each attempt, the
// backend's retry window (1 s) ends the flush: every flush request is answered by exactly one callback carrying an
// error, whichever backends were configured next to it and in whichever order they were built.
func TestBackendsShareTransport(t *testing.T) {
	rapid.Check(t, func(t *rapid.T) {
		release := make(chan struct{})
		var hits int32
		up := httptest.NewServer(http.HandlerFunc(func(w http.ResponseWriter, r *http.Request) {
			atomic.AddInt32(&hits, 1)
			select {
			case <-release:
			case <-r.Context().Done():
			}
		}))
		defer up.Close()
		defer close(release)
		names := rapid.SliceOfNDistinct(rapid.SampledFrom([]string{"datadog", "influxdb", "newrelic", "otlp"}), 1, 4, rapid.ID[string]).Draw(t, "backends")
		v := viper.New()
		v.Set("transport", map[string]interface{}{"default": map[string]interface{}{"client-timeout": "200ms"}})
		v.Set("flush-interval", "1s")
		v.Set("datadog", map[string]interface{}{"api_endpoint": up.URL, "api_key": "k", "max_request_elapsed_time": "1s", "metrics_per_batch": 100})
		v.Set("influxdb", map[string]interface{}{"api-endpoint": up.URL, "api-version": 1, "database": "d", "max-request-elapsed-time": "1s"})
		v.Set("newrelic", map[string]interface{}{"address": up.URL + "/v1/data", "max-request-elapsed-time": "1s"})
		v.Set("otlp", map[string]interface{}{"metrics_endpoint": up.URL + "/v1/metrics", "logs_endpoint": up.URL + "/v1/logs", "max_retries": 1, "max_request_elapsed_time": "1s"})
		logger := logrus.StandardLogger()
		pool := transport.NewTransportPool(logger, v)
		ctx, cancel := context.WithCancel(context.Background())
		defer cancel()
		var bks []gostatsd.Backend
		for _, n := range names {
			b, err := backends.InitBackend(n, v, logger, pool)
			if err != nil {
				t.Fatalf("backend %s: %v", n, err)
			}
			if r, ok := b.(gostatsd.Runner); ok {
				go r.Run(ctx)
			}
			bks = append(bks, b)
		}
		desc := fmt.Sprintf("backends %s (built in this order), transport.default.client-timeout=200ms, retry window 1s, upstream never answers", strings.Join(names, " "))
		type res struct {
			name  string
			calls *int32
			done  chan []error
		}
		var rs []res
		for i, b := range bks {
			r := res{name: names[i], calls: new(int32), done: make(chan []error, 4)}
			rs = append(rs, r)
			go b.SendMetricsAsync(ctx, testMap(2), func(errs []error) {
				atomic.AddInt32(r.calls, 1)
				r.done <- errs
			})
		}
		for _, r := range rs {
			select {
			case errs := <-r.done:
				anyErr := false
				for _, e := range errs {
					anyErr = anyErr || e != nil
				}
				if !anyErr {
					vt.Fail(t, "C16:failure-without-error:"+r.name, "%s: the flush of %s was answered without an error although nothing was delivered", desc, r.name)
				}
			case <-time.After(20 * time.Second):
				vt.Fail(t, "C16:no-callback:"+r.name, "%s: the flush of %s got no completion callback within 20s (requests that reached the upstream: %d)", desc, r.name, atomic.LoadInt32(&hits))
			}
		}
		time.Sleep(5 * time.Millisecond)
		for _, r := range rs {
			if n := atomic.LoadInt32(r.calls); n != 1 {
				vt.Fail(t, "C16:callback-count:"+r.name, "%s: callback of %s invoked %d times", desc, r.name, n)
			}
		}
		ev.C().Case("T|"+strings.Join(names, ","), len(names) >= 2, "shared-transport", fmt.Sprintf("shared-transport-backends=%d", len(names)))
		if ev.C().WantSample() {
			ev.C().Sample(map[string]interface{}{"shared_transport": desc})
		}
	})
}
