package c16

import (
	"context"
	"fmt"
	"strings"
	"sync/atomic"
	"testing"
	"time"

	"github.com/atlassian/gostatsd"
	"github.com/atlassian/gostatsd/pkg/stats"
	"pgregory.net/rapid"

	"verifharness/internal/bk"
	"verifharness/internal/ev"
	"verifharness/internal/fakes"
	"verifharness/internal/vt"
)

var largePatienceMs int64 = 20000

// TestLargePayloadsKeepRequestSlots: a healthy endpoint, few request slots (max-requests 1 or 2), and flushes whose single
// batch is a payload of more than a megabyte (thousands of series with long names, compression off, one batch per flush),
// as many of them as there are slots or one more, followed by ordinary flushes. Every flush request - the large ones and
// the ones after them - is answered with exactly one completion callback carrying no error: a request slot (or the buffer
// that stands for it) comes back whatever the size of the payload it carried.
func TestLargePayloadsKeepRequestSlots(t *testing.T) {
	rapid.Check(t, func(t *rapid.T) {
		var variants []string
		for _, v := range httpVariants {
			if !strings.HasPrefix(v, "cloudwatch") { // 20 metrics per request by protocol: no large payloads
				variants = append(variants, v)
			}
		}
		variant := rapid.SampledFrom(variants).Draw(t, "variant")
		maxReq := rapid.SampledFrom([]int{1, 1, 2}).Draw(t, "max-requests")
		elapsed := "-1ns"
		if strings.HasPrefix(variant, "otlp") {
			elapsed = "0s"
		}
		kit, err := bk.New(variantByName(variant), bk.Options{Batch: 1000000, Compress: false, MaxElapsed: elapsed, MaxRequests: maxReq, OtlpMaxRetries: 3})
		if err != nil {
			t.Fatalf("backend %s: %v", variant, err)
		}
		defer kit.Close()
		var largest int64
		kit.RT.Reset()
		kit.RT.Script = func(a *fakes.Attempt) fakes.Reply {
			for {
				cur := atomic.LoadInt64(&largest)
				if int64(len(a.Body)) <= cur || atomic.CompareAndSwapInt64(&largest, cur, int64(len(a.Body))) {
					break
				}
			}
			return fakes.Reply{Status: 200}
		}
		large := maxReq + rapid.IntRange(0, 1).Draw(t, "large-flushes-beyond-the-slots")
		after := rapid.IntRange(1, 2).Draw(t, "ordinary-flushes-after")
		series := rapid.SampledFrom([]int{4500, 7000}).Draw(t, "series-in-a-large-flush")
		nameLen := rapid.SampledFrom([]int{150, 240}).Draw(t, "name-bytes")
		desc := fmt.Sprintf("%s max-requests=%d: %d flushes of %d series with %d-byte names, then %d flushes of 3 series", variant, maxReq, large, series, nameLen, after)
		for f := 0; f < large+after; f++ {
			n, l := series, nameLen
			if f >= large {
				n, l = 3, 8
			}
			mm := gostatsd.NewMetricMap(false)
			for i := 0; i < n; i++ {
				name := fmt.Sprintf("g%05d.", i)
				mm.Receive(&gostatsd.Metric{Name: name + strings.Repeat("n", l-len(name)), Type: gostatsd.GAUGE, Value: float64(i + 1), Rate: 1, Tags: gostatsd.Tags{"k:v"}, Timestamp: 1})
			}
			ctx, cancel := context.WithCancel(stats.NewContext(context.Background(), stats.NewNullStatser()))
			cb := make(chan []error, 4)
			go func() {
				defer func() { _ = recover() }()
				kit.Backend.SendMetricsAsync(ctx, mm, func(errs []error) { cb <- errs })
			}()
			select {
			case errs := <-cb:
				for _, e := range errs {
					if e != nil {
						cancel()
						vt.Fail(t, "C16:error-without-failure:"+variant, "flush %d of a healthy endpoint was reported with error %v (%s)", f+1, e, desc)
					}
				}
			case <-time.After(time.Duration(atomic.LoadInt64(&largePatienceMs)) * time.Millisecond):
				atomic.StoreInt64(&largePatienceMs, 2000) // rapid shrinking the case: 2 s instead of 20
				cancel()
				vt.Fail(t, "C16:no-callback:"+variant, "flush %d: no completion callback within the patience although the endpoint answers every request at once (%s; largest request body so far %d bytes)", f+1, desc, atomic.LoadInt64(&largest))
			}
			select {
			case <-cb:
				cancel()
				vt.Fail(t, "C16:callback-count:"+variant, "flush %d: a second completion callback (%s)", f+1, desc)
			case <-time.After(200 * time.Microsecond):
			}
			cancel()
		}
		big := atomic.LoadInt64(&largest) > 1<<20
		ev.C().Case("L|"+desc, big, "large-payloads", "variant="+variant, fmt.Sprintf("payload-over-1MiB=%v", big))
		if ev.C().WantSample() {
			ev.C().Sample(map[string]interface{}{"large_payloads": desc, "largest_request_body": atomic.LoadInt64(&largest)})
		}
	})
}
