package c16

import (
	"bytes"
	"context"
	"errors"
	"fmt"
	"io"
	"net"
	"net/http"
	"os"
	"runtime"
	"runtime/debug"
	"strings"
	"sync"
	"sync/atomic"
	"syscall"
	"testing"
	"time"

	"github.com/atlassian/gostatsd"
	"github.com/atlassian/gostatsd/pkg/backends/sender"
	"github.com/atlassian/gostatsd/pkg/stats"
	"github.com/atlassian/gostatsd/pkg/statsd"
	"github.com/sirupsen/logrus"
	"github.com/tilinna/clock"
	"pgregory.net/rapid"

	"verifharness/internal/bk"
	"verifharness/internal/ev"
	"verifharness/internal/fakes"
	"verifharness/internal/rig"
	"verifharness/internal/vt"
)

func TestMain(m *testing.M) {
	bk.SetupEnv()
	ev.C().Rule("fault enumeration + rapid: per HTTP backend variant (datadog, influxdb v1/v2, newrelic infra/insights/metrics, otlp, cloudwatch) every per-attempt outcome script of length <= 3 over {2xx, error status, transport error, 429 with Retry-After, error status whose body cannot be read} x tail {recovers, keeps failing / keeps being throttled until the retry window ends} x batches per flush {0,1,3} x cancellation point {none, before the call, when the k-th attempt starts, while an attempt waits for its retry timer}, on a mock clock advanced whenever no callback has arrived; then random longer scripts, partly through a real MetricFlusher; sender.Sender with scripted connect/write outcomes; graphite and statsdaemon against loopback listeners (accepting, closing, absent). Oracle: exactly one callback per request, an error whenever some batch's last attempt failed, no panic, the following request completes. Non-trivial = fail->success across a retry/reconnect, or a cancellation with a batch outstanding")
	vt.Main(m)
}

type outcomeT int

const (
	ok outcomeT = iota
	status5xx
	transportErr
	throttled    // 429 with a Retry-After header
	status5xxCut // error status whose response body cannot be read to its end
)

func (o outcomeT) String() string {
	return [...]string{"2xx", "5xx", "neterr", "429+retry-after", "5xx+body-cut"}[o]
}

var allOutcomes = []outcomeT{ok, status5xx, transportErr, throttled, status5xxCut}

type cancelPoint int

const (
	noCancel cancelPoint = iota
	cancelBefore
	cancelAtAttempt1
	cancelAtAttempt2
	cancelInRetryWait
)

func (c cancelPoint) String() string {
	return [...]string{"none", "before-call", "at-attempt-1", "at-attempt-2", "in-retry-wait"}[c]
}

type faultCase struct {
	variant string
	script  []outcomeT
	tail    outcomeT // outcome of every attempt after the script (ok = recovers)
	tailOK  bool
	series  int
	cancel  cancelPoint
}

func (c faultCase) String() string {
	var s []string
	for _, o := range c.script {
		s = append(s, o.String())
	}
	tail := "then-always-" + c.tail.String()
	if c.tailOK {
		tail = "then-2xx"
	}
	return fmt.Sprintf("%s script=[%s] %s series=%d cancel=%s", c.variant, strings.Join(s, ","), tail, c.series, c.cancel)
}

var httpVariants = []string{"datadog", "influxdb/v1", "influxdb/v2", "newrelic/infra", "newrelic/insights", "newrelic/metrics", "otlp/AsGauge", "cloudwatch"}

func variantByName(name string) bk.Variant {
	for _, v := range bk.Variants() {
		if v.Name == name {
			return v
		}
	}
	panic("no variant " + name)
}

const cwOK = `<PutMetricDataResponse xmlns="http://monitoring.amazonaws.com/doc/2010-08-01/"><ResponseMetadata><RequestId>verif</RequestId></ResponseMetadata></PutMetricDataResponse>`

func testMap(series int) *gostatsd.MetricMap {
	mm := gostatsd.NewMetricMap(false)
	for i := 0; i < series; i++ {
		mm.Receive(&gostatsd.Metric{Name: fmt.Sprintf("g%d", i), Type: gostatsd.GAUGE, Value: float64(i + 1), Rate: 1, Tags: gostatsd.Tags{"k:v"}, Timestamp: 1})
	}
	return mm
}

type result struct {
	callbacks    int32
	errs         []error
	panicked     interface{}
	stack        string
	attempts     int
	failedBodies int
	retried      bool
	cancelled    bool
	hung         string
}

// runFlush issues one flush request against kit under the scripted outcomes and returns what was observed.
func runFlush(kit *bk.Kit, c faultCase, base int) result {
	var res result
	clk := clock.NewMock(time.Unix(1_700_000_000, 0))
	ctx, cancel := context.WithCancel(stats.NewContext(clock.Context(context.Background(), clk), stats.NewNullStatser()))
	defer cancel()
	var mu sync.Mutex
	lastByBody := map[string]outcomeT{}
	seenFail := map[string]bool{}
	n := 0
	kit.RT.Reset()
	kit.RT.Script = func(a *fakes.Attempt) fakes.Reply {
		mu.Lock()
		i := n
		n++
		o := ok
		if i < len(c.script) {
			o = c.script[i]
		} else if !c.tailOK {
			o = c.tail
			if o == ok {
				o = status5xx
			}
		}
		key := string(a.Body)
		if o != ok {
			seenFail[key] = true
		} else if seenFail[key] {
			res.retried = true
		}
		lastByBody[key] = o
		mu.Unlock()
		if (c.cancel == cancelAtAttempt1 && i == 0) || (c.cancel == cancelAtAttempt2 && i == 1) {
			mu.Lock()
			res.cancelled = true
			mu.Unlock()
			cancel()
		}
		switch o {
		case status5xx:
			return fakes.Reply{Status: 503, Body: []byte("scripted failure")}
		case status5xxCut:
			return fakes.Reply{Status: 503, Body: []byte("scripted fail"), BodyErr: true}
		case transportErr:
			return fakes.Reply{Err: fakes.ErrTransport}
		case throttled:
			return fakes.Reply{Status: 429, Body: []byte("slow down"), Header: http.Header{"Retry-After": []string{"1"}}}
		}
		if strings.HasPrefix(c.variant, "cloudwatch") {
			return fakes.Reply{Status: 200, Body: []byte(cwOK)}
		}
		return fakes.Reply{Status: 200}
	}
	if c.cancel == cancelBefore {
		res.cancelled = true
		cancel()
	}
	cbCh := make(chan []error, 8)
	ret := make(chan struct{})
	go func() {
		defer close(ret)
		defer func() {
			if p := recover(); p != nil {
				res.panicked, res.stack = p, string(debug.Stack())
			}
		}()
		kit.Backend.SendMetricsAsync(ctx, testMap(c.series), func(errs []error) {
			atomic.AddInt32(&res.callbacks, 1)
			cbCh <- errs
		})
	}()
	deadline := time.Now().Add(30 * time.Second)
	got := false
	for !got {
		select {
		case errs := <-cbCh:
			res.errs, got = errs, true
			continue
		case <-ret:
			if res.panicked != nil {
				return res
			}
			ret = nil
		default:
		}
		if clk.Len() > 0 {
			if c.cancel == cancelInRetryWait && !res.cancelled {
				res.cancelled = true
				cancel()
			} else {
				clk.AddNext()
			}
		} else {
			runtime.Gosched()
			time.Sleep(20 * time.Microsecond)
		}
		if time.Now().After(deadline) {
			res.hung = "no completion callback within 30s"
			return res
		}
	}
	// after the first callback: cancel, run the clock far past any retry window, allow stragglers to show up
	cancel()
	for i := 0; i < 50 && clk.Len() > 0; i++ {
		clk.AddNext()
	}
	clk.Add(time.Hour)
	time.Sleep(2 * time.Millisecond)
	if ret != nil {
		select {
		case <-ret:
		case <-time.After(30 * time.Second):
			res.hung = "SendMetricsAsync did not return within 30s after its callback"
		}
	}
	mu.Lock()
	res.attempts = n
	for _, o := range lastByBody {
		if o != ok {
			res.failedBodies++
		}
	}
	mu.Unlock()
	return res
}

func hasError(errs []error) bool {
	for _, e := range errs {
		if e != nil {
			return true
		}
	}
	return false
}

// judge applies the oracle to one observed flush.
func judge(t vt.TB, c faultCase, r result, what string) {
	desc := fmt.Sprintf("%s (%s)", c, what)
	if r.panicked != nil {
		vt.WriteCase(map[string]interface{}{"case": c.String(), "panic": fmt.Sprint(r.panicked), "stack": r.stack})
		vt.Fail(t, "C16:panic:"+c.variant, "%s: SendMetricsAsync panicked: %v", desc, r.panicked)
	}
	if r.hung != "" {
		vt.Fail(t, "C16:no-callback:"+c.variant, "%s: %s (callbacks so far %d)", desc, r.hung, r.callbacks)
	}
	if n := atomic.LoadInt32(&r.callbacks); n != 1 {
		vt.Fail(t, "C16:callback-count:"+c.variant, "%s: completion callback invoked %d times", desc, n)
	}
	if r.failedBodies > 0 && !hasError(r.errs) {
		vt.Fail(t, "C16:failure-without-error:"+c.variant, "%s: the last attempt of %d request bodies failed but the callback carries no error (%v)", desc, r.failedBodies, r.errs)
	}
}

func allScripts(maxLen int) [][]outcomeT {
	out := [][]outcomeT{{}}
	var rec func(cur []outcomeT)
	rec = func(cur []outcomeT) {
		if len(cur) == maxLen {
			return
		}
		for _, o := range allOutcomes {
			next := append(append([]outcomeT(nil), cur...), o)
			out = append(out, next)
			rec(next)
		}
	}
	rec(nil)
	return out
}

// transportSettings (drawn per case in the random layer): documented settings of the transport the backends share.
// None of them changes what a flush must do.
var transportSettings map[string]interface{}

func newKit(t vt.TB, variant string, elapsed string) *bk.Kit {
	k, err := bk.New(variantByName(variant), bk.Options{Batch: 1, MaxElapsed: elapsed, MaxRequests: 4, OtlpMaxRetries: 3, Transport: transportSettings})
	if err != nil {
		t.Fatalf("backend %s: %v", variant, err)
	}
	return k
}

// TestHTTPFaultEnumeration enumerates the whole grid for the variants assigned to this shard.
func TestHTTPFaultEnumeration(t *testing.T) {
	shard, nshards := 0, 1
	fmt.Sscan(os.Getenv("VERIF_SHARD"), &shard)
	fmt.Sscan(os.Getenv("VERIF_NSHARDS"), &nshards)
	maxLen := 3
	if os.Getenv("VERIF_TIER") == "thorough" {
		maxLen = 4
	}
	scripts := allScripts(maxLen)
	total := 0
	for vi, variant := range httpVariants {
		if vi%nshards != shard%nshards {
			continue
		}
		kit := newKit(t, variant, "15s")
		count := 0
		for _, sc := range scripts {
			for _, tail := range []outcomeT{ok, status5xx, throttled} {
				for _, series := range []int{0, 1, 3} {
					for _, cp := range []cancelPoint{noCancel, cancelBefore, cancelAtAttempt1, cancelAtAttempt2, cancelInRetryWait} {
						c := faultCase{variant: variant, script: sc, tailOK: tail == ok, tail: tail, series: series, cancel: cp}
						r := runFlush(kit, c, 0)
						judge(t, c, r, "enumerated")
						// a failed / cancelled flush does not prevent the following one
						next := faultCase{variant: variant, tailOK: true, series: 1}
						r2 := runFlush(kit, next, 0)
						judge(t, next, r2, "flush following "+c.String())
						if hasError(r2.errs) && r2.failedBodies == 0 && variant != "cloudwatch" {
							vt.Fail(t, "C16:following-flush-fails:"+variant, "the flush after %s reports %v although every attempt was answered 2xx", c, r2.errs)
						}
						nt := r.retried || (r.cancelled && series > 0)
						labels := []string{"enumerated", "variant=" + variant, "cancel=" + cp.String()}
						if r.retried {
							labels = append(labels, "fail-then-success")
						}
						if hasError(r.errs) {
							labels = append(labels, "callback-with-error")
						}
						ev.C().Case(c.String(), nt, labels...)
						count++
						if count%400 == 0 { // do not let leaked state accumulate silently: fresh backend now and then
							kit.Close()
							kit = newKit(t, variant, "15s")
						}
						if count == 7 {
							ev.C().Sample(map[string]interface{}{"case": c.String(), "attempts": r.attempts, "callbacks": r.callbacks, "errors": fmt.Sprint(r.errs)})
						}
					}
				}
			}
		}
		kit.Close()
		total += count
	}
	ev.C().Extra("enumerated_cases", int64(total))
}

// ---------- random longer scripts, partly through a real MetricFlusher ----------

type oneShotProc struct{ mm *gostatsd.MetricMap }

type fixedAgg struct{ mm *gostatsd.MetricMap }

func (a fixedAgg) ReceiveMap(*gostatsd.MetricMap) {}
func (a fixedAgg) Flush(time.Duration)            {}
func (a fixedAgg) Process(f statsd.ProcessFunc)   { f(a.mm) }
func (a fixedAgg) Reset()                         {}
func (p oneShotProc) Process(ctx context.Context, fn statsd.DispatcherProcessFunc) gostatsd.Wait {
	fn(0, fixedAgg{p.mm})
	return func() {}
}

func TestHTTPFaultsRandom(t *testing.T) {
	rapid.Check(t, func(t *rapid.T) {
		variant := rapid.SampledFrom(httpVariants).Draw(t, "variant")
		elapsed := rapid.SampledFrom([]string{"15s", "-1ns", "2s"}).Draw(t, "max-elapsed")
		if strings.HasPrefix(variant, "otlp") && elapsed == "-1ns" {
			elapsed = "0s"
		}
		transportSettings = rapid.SampledFrom([]map[string]interface{}{nil, nil, {"max-idle-connections": 0}, {"max-idle-connections": 1}, {"max-idle-connections": 50, "client-timeout": "30s"}}).Draw(t, "transport-settings")
		kit := newKit(t, variant, elapsed)
		transportSettings = nil
		defer kit.Close()
		flushes := rapid.IntRange(2, 3).Draw(t, "flushes")
		var descs []string
		nt := false
		for f := 0; f < flushes; f++ {
			tl := rapid.SampledFrom([]outcomeT{ok, ok, status5xx, transportErr, throttled, status5xxCut}).Draw(t, "tail")
			c := faultCase{variant: variant, tailOK: tl == ok, tail: tl, series: rapid.SampledFrom([]int{0, 1, 2, 3, 5}).Draw(t, "series"),
				cancel: cancelPoint(rapid.IntRange(0, 4).Draw(t, "cancel"))}
			c.script = make([]outcomeT, rapid.IntRange(0, 8).Draw(t, "script-len"))
			for i := range c.script {
				c.script[i] = outcomeT(rapid.IntRange(0, 3).Draw(t, "o"))
			}
			descs = append(descs, c.String()+" elapsed="+elapsed)
			if rapid.Bool().Draw(t, "through-flusher") && c.cancel == noCancel {
				r := flushThroughFlusher(t, kit, c)
				judge(t, c, r, "through MetricFlusher")
				nt = nt || r.retried
			} else {
				r := runFlush(kit, c, 0)
				judge(t, c, r, "direct")
				nt = nt || r.retried || (r.cancelled && c.series > 0)
			}
		}
		if ev.C().WantSample() {
			ev.C().Sample(map[string]interface{}{"flushes": descs})
		}
		ev.C().Case(strings.Join(descs, " ; "), nt, "random", "variant="+variant)
	})
}

// flushThroughFlusher drives the same scripted outcomes through statsd.MetricFlusher: its flush must return
// (the next tick is accepted) and the backend's callback accounting is observed through the RoundTripper.
func flushThroughFlusher(t vt.TB, kit *bk.Kit, c faultCase) result {
	var res result
	clk := rig.NewOwnedClock(time.Unix(1_700_000_000, 0))
	ctx, cancel := context.WithCancel(stats.NewContext(clock.Context(context.Background(), clk), stats.NewNullStatser()))
	defer cancel()
	var mu sync.Mutex
	lastByBody := map[string]outcomeT{}
	seenFail := map[string]bool{}
	n := 0
	kit.RT.Reset()
	kit.RT.Script = func(a *fakes.Attempt) fakes.Reply {
		mu.Lock()
		defer mu.Unlock()
		i := n
		n++
		o := ok
		if i < len(c.script) {
			o = c.script[i]
		} else if !c.tailOK {
			o = c.tail
			if o == ok {
				o = status5xx
			}
		}
		key := string(a.Body)
		if o != ok {
			seenFail[key] = true
		} else if seenFail[key] {
			res.retried = true
		}
		lastByBody[key] = o
		switch o {
		case status5xx:
			return fakes.Reply{Status: 503}
		case status5xxCut:
			return fakes.Reply{Status: 503, Body: []byte("scripted fail"), BodyErr: true}
		case transportErr:
			return fakes.Reply{Err: fakes.ErrTransport}
		case throttled:
			return fakes.Reply{Status: 429, Header: http.Header{"Retry-After": []string{"1"}}}
		}
		if strings.HasPrefix(c.variant, "cloudwatch") {
			return fakes.Reply{Status: 200, Body: []byte(cwOK)}
		}
		return fakes.Reply{Status: 200}
	}
	fl := statsd.NewMetricFlusher(time.Second, 0, false, oneShotProc{testMap(c.series)}, []gostatsd.Backend{kit.Backend})
	done := make(chan struct{})
	go func() { fl.Run(ctx); close(done) }()
	tick := clk.Ticker(0, 30*time.Second)
	if tick == nil {
		t.Fatalf("flusher created no ticker")
	}
	tick <- time.Unix(1_700_000_001, 0)
	// the flusher is now flushing; it takes the next tick only after flushData returned
	deadline := time.Now().Add(30 * time.Second)
	sent := false
	for !sent {
		select {
		case tick <- time.Unix(1_700_000_002, 0):
			sent = true
		default:
			if clk.Len() > 0 {
				clk.AddNext()
			} else {
				time.Sleep(20 * time.Microsecond)
			}
			if time.Now().After(deadline) {
				res.hung = "MetricFlusher's flush did not return within 30s"
				res.callbacks = 1
				return res
			}
		}
	}
	cancel()
	select {
	case <-done:
	case <-time.After(30 * time.Second):
		res.hung = "MetricFlusher did not stop within 30s"
	}
	res.callbacks = 1 // the flusher's WaitGroup accounts for the callback: flushData returning proves exactly-once or more; a second call would panic the WaitGroup
	mu.Lock()
	for _, o := range lastByBody {
		if o != ok {
			res.failedBodies++
		}
	}
	mu.Unlock()
	if res.failedBodies > 0 {
		res.errs = []error{errors.New("not observable through the flusher")}
	}
	return res
}

// ---------- sender.Sender with scripted connections ----------

type scriptedConn struct {
	net.Conn
	writes  *int32
	failAt  int32
	failErr error
	written *bytes.Buffer
	mu      *sync.Mutex
}

func (c scriptedConn) Write(b []byte) (int, error) {
	n := atomic.AddInt32(c.writes, 1)
	if c.failAt > 0 && n == c.failAt {
		if c.failErr != nil {
			return 0, c.failErr
		}
		return 0, errors.New("scripted write error")
	}
	c.mu.Lock()
	c.written.Write(b)
	c.mu.Unlock()
	return len(b), nil
}
func (c scriptedConn) Close() error                     { return nil }
func (c scriptedConn) SetWriteDeadline(time.Time) error { return nil }

func TestSenderFaults(t *testing.T) {
	rapid.Check(t, func(t *rapid.T) {
		connectFailures := rapid.IntRange(0, 1).Draw(t, "connect-failures")
		failWriteAt := int32(rapid.IntRange(0, 4).Draw(t, "fail-write-at"))
		// what a failing write returns: a plain error, an expired write deadline (a net.Error that calls itself temporary:
		// the peer stopped reading), a reset connection, a closed pipe
		failErr := rapid.SampledFrom([]error{nil, os.ErrDeadlineExceeded, &net.OpError{Op: "write", Net: "tcp", Err: os.ErrDeadlineExceeded},
			&net.OpError{Op: "write", Net: "tcp", Err: syscall.ECONNRESET}, io.ErrClosedPipe}).Draw(t, "write-error")
		streams := rapid.IntRange(1, 3).Draw(t, "streams")
		bufsPer := rapid.IntRange(0, 3).Draw(t, "buffers-per-stream")
		cancelStream := rapid.IntRange(-1, streams-1).Draw(t, "cancel-stream")
		var connects, writes int32
		var wmu sync.Mutex
		var written bytes.Buffer
		s := &sender.Sender{
			Logger: logrus.StandardLogger(),
			ConnFactory: func() (net.Conn, error) {
				n := atomic.AddInt32(&connects, 1)
				if int(n) <= connectFailures {
					return nil, errors.New("scripted connect failure")
				}
				return scriptedConn{writes: &writes, failAt: failWriteAt, failErr: failErr, written: &written, mu: &wmu}, nil
			},
			Sink:    make(chan sender.Stream, 10),
			BufPool: sync.Pool{New: func() interface{} { return new(bytes.Buffer) }},
		}
		ctx, cancel := context.WithCancel(context.Background())
		done := make(chan struct{})
		go func() { s.Run(ctx); close(done) }()
		type obs struct {
			calls int32
			errs  []error
		}
		observed := make([]*obs, streams)
		var wg sync.WaitGroup
		for i := 0; i < streams; i++ {
			o := &obs{}
			observed[i] = o
			sctx, scancel := context.WithCancel(context.Background())
			ch := make(chan *bytes.Buffer, bufsPer)
			for b := 0; b < bufsPer; b++ {
				buf := s.GetBuffer()
				fmt.Fprintf(buf, "s%d.b%d:1|c\n", i, b)
				ch <- buf
			}
			close(ch)
			wg.Add(1)
			var once sync.Once
			s.Sink <- sender.Stream{Ctx: sctx, Buf: ch, Cb: func(errs []error) {
				atomic.AddInt32(&o.calls, 1)
				o.errs = errs
				once.Do(wg.Done)
			}}
			if i == cancelStream {
				scancel()
			}
			defer scancel()
		}
		fin := make(chan struct{})
		go func() { wg.Wait(); close(fin) }()
		select {
		case <-fin:
		case <-time.After(30 * time.Second):
			vt.Fail(t, "C16:no-callback:sender", "sender did not complete %d streams within 30s (connect failures %d, write failure at %d)", streams, connectFailures, failWriteAt)
		}
		cancel()
		select {
		case <-done:
		case <-time.After(30 * time.Second):
			vt.Fail(t, "C16:sender-does-not-stop", "sender.Run did not return after cancellation")
		}
		time.Sleep(time.Millisecond)
		anyErr := false
		for i, o := range observed {
			if n := atomic.LoadInt32(&o.calls); n != 1 {
				vt.Fail(t, "C16:callback-count:sender", "stream %d: callback invoked %d times (connect failures %d, write failure at %d, cancelled stream %d)", i, n, connectFailures, failWriteAt, cancelStream)
			}
			anyErr = anyErr || hasError(o.errs)
		}
		totalWrites := streams * bufsPer
		writeFailed := failWriteAt > 0 && int(failWriteAt) <= totalWrites && int(atomic.LoadInt32(&writes)) >= int(failWriteAt)
		if writeFailed && !anyErr {
			vt.Fail(t, "C16:failure-without-error:sender", "write %d failed but no stream's callback carries an error", failWriteAt)
		}
		nt := (connectFailures > 0 || writeFailed) && streams > 0
		ev.C().Case(fmt.Sprintf("S|%d|%d|%d|%d|%d", connectFailures, failWriteAt, streams, bufsPer, cancelStream), nt, "sender")
	})
}

// ---------- graphite / statsdaemon against loopback listeners; stdout and null ----------

func seqInts(n int) []int {
	out := make([]int, n)
	for i := range out {
		out[i] = i
	}
	return out
}

func TestSocketBackends(t *testing.T) {
	rapid.Check(t, func(t *rapid.T) {
		variant := rapid.SampledFrom([]string{"graphite/tags", "graphite/legacy", "statsdaemon/tcp", "statsdaemon/udp", "stdout", "null"}).Draw(t, "variant")
		mode := rapid.SampledFrom([]string{"accept", "close-listener-then-send", "cancel-request", "cancelled-before-call", "outage-many-requests"}).Draw(t, "mode")
		kit, err := bk.New(variantByName(variant), bk.Options{})
		if err != nil {
			t.Fatalf("%v", err)
		}
		defer kit.Close()
		flushes := rapid.IntRange(1, 3).Draw(t, "flushes")
		if mode == "accept" && rapid.IntRange(0, 5).Draw(t, "long-lived-connection") == 0 {
			// many flush requests over one healthy connection (a sender recycles its connection every so often)
			flushes = rapid.SampledFrom([]int{101, 205, 310}).Draw(t, "many-flushes")
		}
		if (mode == "close-listener-then-send" || mode == "outage-many-requests") && kit.Loop != nil {
			kit.Loop.Close()
		}
		if mode == "outage-many-requests" {
			// the server is away and more flush requests are outstanding than the backend's sender queues (one flush of a
			// server with that many aggregators); then the requests are cancelled one by one. Each is answered exactly once.
			k := rapid.IntRange(11, 18).Draw(t, "outstanding")
			type req struct {
				cancel context.CancelFunc
				calls  int32
				cb     chan []error
				ret    chan interface{}
			}
			reqs := make([]*req, k)
			for i := range reqs {
				ctx, cancel := context.WithCancel(context.Background())
				r := &req{cancel: cancel, cb: make(chan []error, 4), ret: make(chan interface{}, 1)}
				reqs[i] = r
				go func() {
					defer func() { r.ret <- recover() }()
					kit.Backend.SendMetricsAsync(ctx, testMap(3), func(errs []error) {
						atomic.AddInt32(&r.calls, 1)
						r.cb <- errs
					})
				}()
				time.Sleep(200 * time.Microsecond) // issued one after the other, as a flusher does
			}
			time.Sleep(time.Duration(rapid.IntRange(0, 10).Draw(t, "cancel-after-ms")) * time.Millisecond)
			// all requests are cancelled, in a drawn order within a few hundred microseconds (the flusher hands every request
			// the same context, so in use they end together). Not asserted: that a request cancelled *before* the ones queued
			// ahead of it is answered while those are still outstanding - the sender looks at one request at a time, so on the
			// unchanged tree such a request waits for its turn; no caller cancels out of order.
			order := rapid.Permutation(seqInts(k)).Draw(t, "cancel-order")
			for _, i := range order {
				reqs[i].cancel()
			}
			for i, r := range reqs {
				select {
				case <-r.cb:
				case <-time.After(30 * time.Second):
					vt.Fail(t, "C16:no-callback:"+variant, "%s: request %d of %d outstanding during an outage was cancelled and got no completion callback within 30s", variant, i, k)
				}
				select {
				case p := <-r.ret:
					if p != nil {
						vt.Fail(t, "C16:panic:"+variant, "%s mode %s: SendMetricsAsync panicked: %v", variant, mode, p)
					}
				case <-time.After(30 * time.Second):
					vt.Fail(t, "C16:no-callback:"+variant, "%s mode %s: SendMetricsAsync of request %d did not return", variant, mode, i)
				}
			}
			time.Sleep(2 * time.Millisecond)
			for i, r := range reqs {
				if n := atomic.LoadInt32(&r.calls); n != 1 {
					vt.Fail(t, "C16:callback-count:"+variant, "%s mode %s: callback of request %d invoked %d times", variant, mode, i, n)
				}
			}
			ev.C().Case(fmt.Sprintf("K|%s|%s|%d", variant, mode, k), kit.Loop != nil, "socket", "variant="+variant, "mode="+mode)
			return
		}
		for f := 0; f < flushes; f++ {
			ctx, cancel := context.WithCancel(context.Background())
			if mode == "cancelled-before-call" {
				cancel() // every hand-off inside the backend sees a finished context
			}
			var calls int32
			cb := make(chan []error, 4)
			ret := make(chan interface{}, 1)
			series := 1
			if flushes <= 3 {
				series = rapid.SampledFrom([]int{0, 1, 3, 400}).Draw(t, "series")
			}
			if flushes <= 3 && variant == "statsdaemon/udp" && rapid.IntRange(0, 7).Draw(t, "huge-flush") == 0 {
				series = 120000 // more datagrams than any internal queue of the backend holds (1000)
			}
			go func() {
				defer func() { ret <- recover() }()
				kit.Backend.SendMetricsAsync(ctx, testMap(series), func(errs []error) {
					atomic.AddInt32(&calls, 1)
					cb <- errs
				})
			}()
			if mode != "accept" && mode != "cancelled-before-call" {
				// the connection cannot recover: the request completes when it is cancelled
				time.AfterFunc(time.Duration(rapid.IntRange(0, 20).Draw(t, "cancel-after-ms"))*time.Millisecond, cancel)
			}
			select {
			case <-cb:
			case <-time.After(30 * time.Second):
				vt.Fail(t, "C16:no-callback:"+variant, "%s mode %s: no completion callback within 30s", variant, mode)
			}
			select {
			case p := <-ret:
				if p != nil {
					vt.Fail(t, "C16:panic:"+variant, "%s mode %s: SendMetricsAsync panicked: %v", variant, mode, p)
				}
			case <-time.After(30 * time.Second):
				vt.Fail(t, "C16:no-callback:"+variant, "%s mode %s: SendMetricsAsync did not return", variant, mode)
			}
			cancel()
			if flushes <= 3 || f%50 == 49 || f == flushes-1 {
				time.Sleep(2 * time.Millisecond)
			} else {
				time.Sleep(50 * time.Microsecond)
			}
			if n := atomic.LoadInt32(&calls); n != 1 {
				vt.Fail(t, "C16:callback-count:"+variant, "%s mode %s: callback of flush %d of %d invoked %d times", variant, mode, f+1, flushes, n)
			}
		}
		ev.C().Case(fmt.Sprintf("K|%s|%s|%d", variant, mode, flushes), mode != "accept" && kit.Loop != nil, "socket", "variant="+variant, "mode="+mode)
	})
}
