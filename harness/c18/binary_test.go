package c18

import (
	"bufio"
	"fmt"
	"net"
	"os"
	"os/exec"
	"strings"
	"sync"
	"testing"
	"time"

	"pgregory.net/rapid"

	"verifharness/internal/ev"
	"verifharness/internal/vt"
)

// TestBinaryAlignedFlush runs the gostatsd command itself ($GOSTATSD_BIN, built by the driver from the working tree)
// with --flush-aligned, a generated --flush-interval / --flush-offset / --hostname, and the stdout backend: the command
// line and the server's wiring are how interval and offset reach the flusher. A heartbeat counter makes every flush
// print; the harness notes the wall-clock time at which each flush's line arrives.
//
// Time is real, so the assertion is one that load cannot flip: a flush can only be observed *after* it happened, so
// lateness only ever increases the observed phase (time since the last configured boundary). The violation is "none of
// five flushes in a row was observed within the first quarter of the interval after a boundary" - under load that needs
// every one of the five to be delayed by more than a quarter interval (0.5 s) and less than a whole one.
func TestBinaryAlignedFlush(t *testing.T) {
	bin := os.Getenv("GOSTATSD_BIN")
	if bin == "" {
		t.Skip("GOSTATSD_BIN not set (the driver builds it)")
	}
	rapid.Check(t, func(t *rapid.T) {
		interval := 2 * time.Second
		offset := rapid.SampledFrom([]string{"", "", "0s", "500ms", "1s", "1500ms"}).Draw(t, "flush-offset")
		host := rapid.SampledFrom([]string{"", "web-01.example.com", "a", "statsd-7f9c", "ip-10-0-3-17.ec2.internal", "localhost"}).Draw(t, "hostname")
		off := time.Duration(0)
		if offset != "" {
			off, _ = time.ParseDuration(offset)
		}
		pc, err := net.ListenPacket("udp", "127.0.0.1:0")
		if err != nil {
			t.Skip("no loopback socket")
		}
		addr := pc.LocalAddr().String()
		pc.Close()
		args := []string{"--backends", "stdout", "--metrics-addr", addr, "--flush-interval", interval.String(), "--flush-aligned", "--statser-type", "null", "--max-workers", "1", "--max-readers", "1"}
		if offset != "" {
			args = append(args, "--flush-offset", offset)
		}
		if host != "" {
			args = append(args, "--hostname", host)
		}
		cmd := exec.Command(bin, args...)
		cmd.Env = append(os.Environ(), "AWS_CA_BUNDLE=")
		out, err := cmd.StderrPipe()
		if err != nil {
			t.Fatalf("pipe: %v", err)
		}
		cmd.Stdout = cmd.Stderr
		if err := cmd.Start(); err != nil {
			t.Fatalf("start %s: %v", bin, err)
		}
		var mu sync.Mutex
		var seen []time.Time // arrival time of each flush's heartbeat line
		var tail []string
		readerDone := make(chan struct{})
		go func() {
			defer close(readerDone)
			sc := bufio.NewScanner(out)
			sc.Buffer(make([]byte, 1<<20), 1<<20)
			for sc.Scan() {
				now := time.Now()
				l := sc.Text()
				mu.Lock()
				if strings.Contains(l, "stats.counter.verif.hb.") && strings.Contains(l, ".count ") {
					seen = append(seen, now)
				}
				if len(tail) < 40 {
					tail = append(tail, l)
				}
				mu.Unlock()
			}
		}()
		stop := make(chan struct{})
		defer func() {
			close(stop)
			cmd.Process.Kill()
			cmd.Wait()
			<-readerDone
		}()
		conn, err := net.Dial("udp", addr)
		if err != nil {
			t.Skip("dial: " + err.Error())
		}
		defer conn.Close()
		go func() {
			for {
				select {
				case <-stop:
					return
				case <-time.After(40 * time.Millisecond):
					conn.Write([]byte("verif.hb:1|c"))
				}
			}
		}()
		const want = 5
		deadline := time.Now().Add(90 * time.Second)
		for {
			mu.Lock()
			n := len(seen)
			mu.Unlock()
			if n >= want {
				break
			}
			if time.Now().After(deadline) {
				mu.Lock()
				tl := strings.Join(tail, " / ")
				mu.Unlock()
				if n == 0 && !strings.Contains(tl, "stats.") {
					// the command never served (port taken between probe and start, or start-up failure unrelated to flushing)
					ev.C().Excluded("binary-not-serving", 1)
					t.Skip("gostatsd did not serve")
				}
				vt.Fail(t, "C18:no-flush", "gostatsd %v printed %d flushes in 90s; output: %s", args, n, tl)
			}
			time.Sleep(20 * time.Millisecond)
		}
		mu.Lock()
		obs := append([]time.Time(nil), seen[:want]...)
		mu.Unlock()
		var phases []string
		minPhase := interval
		for _, ts := range obs {
			ph := (time.Duration(ts.UnixNano()) - off) % interval
			if ph < minPhase {
				minPhase = ph
			}
			phases = append(phases, ph.Round(time.Millisecond).String())
		}
		if minPhase > interval/4 {
			vt.Fail(t, "C18:off-boundary", "gostatsd %v: five consecutive flushes were observed %v after the configured boundaries (interval %v, offset %v): none within %v of one, so the flushes are not aligned to the configured offset", args, phases, interval, off, interval/4)
		}
		// consecutive flushes are a whole number of intervals apart (here: observed spacing is never clearly below one interval)
		for i := 1; i < len(obs); i++ {
			if d := obs[i].Sub(obs[i-1]); d < interval/2 {
				vt.Fail(t, "C18:interval", "gostatsd %v: two flushes observed %v apart, interval %v (observed at phases %v)", args, d, interval, phases)
			}
		}
		ev.C().Case(fmt.Sprintf("B|%s|%s", offset, host), true, "binary-aligned", "binary-offset="+offset)
		if ev.C().WantSample() {
			ev.C().Sample(map[string]interface{}{"args": strings.Join(args, " "), "observed_phases": phases})
		}
	})
}
