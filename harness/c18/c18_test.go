package c18

import (
	"context"
	"fmt"
	"math/big"
	"runtime"
	"strings"
	"sync"
	"testing"
	"time"

	"github.com/atlassian/gostatsd"
	"github.com/atlassian/gostatsd/pkg/stats"
	"github.com/atlassian/gostatsd/pkg/statsd"
	"github.com/atlassian/gostatsd/verifhooks"
	"github.com/tilinna/clock"
	"pgregory.net/rapid"

	"verifharness/internal/ev"
	"verifharness/internal/vt"
)

func TestMain(m *testing.M) {
	ev.C().Rule("rapid: start instants (on a boundary, +-1ns, arbitrary) x intervals {1s,10s,7s,1m,1.5s,250ms,1h,2h} x the time zone the clock reports in (UTC, +05:30, +01:00, -03:30, +05:45, +03:25:45) x offsets in [0,interval) and beyond x advancement patterns (exact next-deadline steps, small steps, jumps over k intervals, a consumer that reads late). Layer 1: aligned ticker on a mock clock, arithmetic oracle on the tick values. Layer 2: real MetricFlusher with aligned flushing and a recording aggregator, clock stepped to the next deadline only while the flusher is parked. Layer 3: the same flusher under jumps of k intervals plus a fraction (landing between boundaries) and an aggregator flush that blocks while 1..3 further deadlines pass; exact tick model of the mock clock until the first slow flush, afterwards elapsed must be a positive multiple. Layer 4: the flusher on the real clock (10..25 ms intervals; real times carry monotonic readings), elapsed must be an exact positive multiple; binary layer: the gostatsd command with --flush-aligned, interval 2 s, generated --flush-offset and --hostname, stdout backend: the wall-clock phase at which five consecutive flushes are observed (late is possible, early is not). Non-trivial = offset != 0 with a start within 1ns of a boundary, or a jump >= 2 intervals (layer 1), or a jump / slow consumer (layer 3), or offset != 0 (layer 4)")
	vt.Main(m)
}

var intervals = []time.Duration{time.Second, 10 * time.Second, 7 * time.Second, time.Minute, 1500 * time.Millisecond, 250 * time.Millisecond, time.Hour, 2 * time.Hour}

// zeroToUnix is the number of seconds from Go's zero time (0001-01-01) to the Unix epoch; time.Truncate
// is documented to round "since the zero time".
const zeroToUnix = 62135596800

// aligned reports whether t-offset is an exact multiple of interval counted from the zero time.
func aligned(t time.Time, interval, offset time.Duration) bool {
	ns := new(big.Int).Mul(big.NewInt(t.Unix()+zeroToUnix), big.NewInt(1e9))
	ns.Add(ns, big.NewInt(int64(t.Nanosecond())))
	ns.Sub(ns, big.NewInt(int64(offset)))
	return new(big.Int).Mod(ns, big.NewInt(int64(interval))).Sign() == 0
}

// zones the clock may report its times in: alignment is defined on absolute time, whatever the wall clock shows
var zones = []*time.Location{time.UTC, time.UTC, time.FixedZone("IST", 5*3600+1800), time.FixedZone("CET", 3600),
	time.FixedZone("NST", -(3*3600 + 1800)), time.FixedZone("NPT", 5*3600+2700), time.FixedZone("odd", 12345)}

func startGen(interval, offset time.Duration) *rapid.Generator[time.Time] {
	return rapid.Custom(func(t *rapid.T) time.Time {
		return startUTC(t, interval, offset).In(rapid.SampledFrom(zones).Draw(t, "zone"))
	})
}

func startUTC(t *rapid.T, interval, offset time.Duration) time.Time {
	{
		base := time.Unix(1_700_000_000+rapid.Int64Range(0, 100000).Draw(t, "base"), 0)
		boundary := base.Add(-offset).Truncate(interval).Add(offset)
		switch rapid.IntRange(0, 3).Draw(t, "startkind") {
		case 0:
			return boundary
		case 1:
			return boundary.Add(1)
		case 2:
			return boundary.Add(-1)
		}
		return base.Add(time.Duration(rapid.Int64Range(0, int64(interval)).Draw(t, "into")))
	}
}

func offsetGen(interval time.Duration) *rapid.Generator[time.Duration] {
	return rapid.Custom(func(t *rapid.T) time.Duration {
		switch rapid.IntRange(0, 5).Draw(t, "offsetkind") {
		case 0:
			return 0
		case 1:
			return time.Duration(rapid.Int64Range(1, int64(interval)-1).Draw(t, "offset"))
		case 2:
			return interval - 1
		case 3:
			return interval
		case 4:
			return interval*time.Duration(rapid.IntRange(1, 3).Draw(t, "mult")) + time.Duration(rapid.Int64Range(0, int64(interval)-1).Draw(t, "rem"))
		}
		return 1
	})
}

func waitTimers(clck *clock.Mock, n int) bool {
	deadline := time.Now().Add(30 * time.Second)
	for clck.Len() < n {
		if time.Now().After(deadline) {
			return false
		}
		runtime.Gosched()
		time.Sleep(20 * time.Microsecond)
	}
	return true
}

func nearBoundary(start time.Time, interval, offset time.Duration) bool {
	for _, d := range []time.Duration{-1, 0, 1} {
		if aligned(start.Add(d), interval, offset) {
			return true
		}
	}
	return false
}

func TestAlignedTickerValues(t *testing.T) {
	rapid.Check(t, func(t *rapid.T) {
		interval := rapid.SampledFrom(intervals).Draw(t, "interval")
		offset := offsetGen(interval).Draw(t, "offset")
		start := startGen(interval, offset).Draw(t, "start")
		clck := clock.NewMock(start)
		ctx, cancel := context.WithCancel(clock.Context(context.Background(), clck))
		defer cancel()
		ch, stop := verifhooks.NewAlignedTicker(ctx, interval, offset)
		defer stop()
		if !waitTimers(clck, 1) {
			vt.Fail(t, "C18:ticker-never-armed", "aligned ticker did not arm a timer within 30s")
		}
		var values []time.Time
		var log []string
		bigJump := false
		stepwise := true
		nsteps := rapid.IntRange(1, 12).Draw(t, "steps")
		if rapid.IntRange(0, 7).Draw(t, "long-run") == 0 {
			nsteps = rapid.SampledFrom([]int{17, 18, 34, 70, 130}).Draw(t, "many-steps") // a ticker that has been running for a while
		}
		for i := 0; i < nsteps; i++ {
			kind := rapid.IntRange(0, 3).Draw(t, "advance")
			readNow := rapid.IntRange(0, 3).Draw(t, "consumer-reads") != 0
			var nowAt time.Time
			switch kind {
			case 0, 1: // exactly to the next deadline
				nowAt, _ = clck.AddNext()
				log = append(log, "next")
			case 2: // small step
				d := time.Duration(rapid.Int64Range(1, int64(interval)/3+1).Draw(t, "small"))
				nowAt = clck.Add(d)
				stepwise = false
				log = append(log, "add "+d.String())
			default: // jump over k intervals
				k := rapid.IntRange(2, 5).Draw(t, "k")
				d := interval*time.Duration(k) + time.Duration(rapid.Int64Range(0, int64(interval)-1).Draw(t, "extra"))
				nowAt = clck.Add(d)
				bigJump = true
				stepwise = false
				log = append(log, "jump "+d.String())
			}
			// give the ticker goroutine the chance to process a fired timer: it must re-arm (ticker) afterwards
			if !waitTimers(clck, 1) {
				vt.Fail(t, "C18:ticker-never-armed", "aligned ticker lost its timer after %v", log)
			}
			if !readNow {
				stepwise = false
				log = append(log, "(consumer late)")
				continue
			}
			// drain what is available without waiting on wall-clock: a tick is delivered by the ticker goroutine
			// after the clock fired; wait briefly for it only when a deadline was actually reached
			fired := kind <= 1 || true
			if fired {
				select {
				case v := <-ch:
					values = append(values, v)
					log = append(log, "tick "+v.Format("15:04:05.000000000"))
					if stepwise && kind <= 1 && !v.Equal(nowAt) {
						vt.Fail(t, "C18:tick-differs-from-clock", "stepping exactly to the deadline: clock reads %v but the tick says %v (interval %v offset %v start %v)", nowAt, v, interval, offset, start)
					}
				case <-time.After(40 * time.Millisecond):
					if kind <= 1 && stepwise {
						// with exact stepping every deadline produces a tick; give it a generous progress wait
						select {
						case v := <-ch:
							values = append(values, v)
						case <-time.After(30 * time.Second):
							vt.Fail(t, "C18:tick-missing", "clock stepped exactly to the ticker's deadline %v but no tick arrived within 30s (interval %v offset %v start %v, %v)", nowAt, interval, offset, start, log)
						}
					}
				}
			}
		}
		for i, v := range values {
			if !aligned(v, interval, offset) {
				vt.Fail(t, "C18:unaligned-tick", "tick %v: (t - %v) is not a multiple of %v (start %v, %v)", v, offset, interval, start, log)
			}
			if i > 0 && !v.After(values[i-1]) {
				vt.Fail(t, "C18:not-increasing", "ticks %v then %v (start %v interval %v offset %v, %v)", values[i-1], v, start, interval, offset, log)
			}
		}
		if len(values) > 0 && stepwiseFirst(log) && values[0].After(start.Add(interval)) {
			vt.Fail(t, "C18:first-tick-late", "first tick %v is later than start %v + interval %v (offset %v)", values[0], start, interval, offset)
		}
		if len(values) > 0 && !values[0].After(start) {
			vt.Fail(t, "C18:first-tick-early", "first tick %v is not after start %v", values[0], start)
		}
		nt := (offset != 0 && nearBoundary(start, interval, offset)) || bigJump
		labels := []string{"layer=ticker", "interval=" + interval.String()}
		if offset >= interval {
			labels = append(labels, "offset>=interval")
		} else if offset != 0 {
			labels = append(labels, "offset-nonzero")
		}
		if bigJump {
			labels = append(labels, "jump>=2-intervals")
		}
		if nearBoundary(start, interval, offset) {
			labels = append(labels, "start-near-boundary")
		}
		if ev.C().WantSample() {
			ev.C().Sample(map[string]interface{}{"start": start.UTC().Format(time.RFC3339Nano), "interval": interval.String(), "offset": offset.String(), "steps": log})
		}
		ev.C().Case(fmt.Sprintf("T|%v|%v|%v|%v", start.UnixNano(), interval, offset, log), nt, labels...)
	})
}

// stepwiseFirst reports whether the first advance was an exact step (then the first tick must be the first boundary).
func stepwiseFirst(log []string) bool { return len(log) > 0 && log[0] == "next" }

// ---------- layer 2: the real flusher ----------

type recAgg struct {
	mu    sync.Mutex
	clck  *clock.Mock
	calls []call
	sig   chan struct{}
	// slow consumer: the flush with these indexes blocks inside Flush until released
	slow    map[int]bool
	entered chan struct{}
	release chan struct{}
}

type call struct {
	at       time.Time
	interval time.Duration
}

func (a *recAgg) ReceiveMap(*gostatsd.MetricMap) {}
func (a *recAgg) Flush(d time.Duration) {
	a.mu.Lock()
	idx := len(a.calls)
	a.calls = append(a.calls, call{at: a.clck.Now(), interval: d})
	slow := a.slow[idx]
	a.mu.Unlock()
	if slow {
		a.entered <- struct{}{}
		<-a.release
	}
}
func (a *recAgg) Process(f statsd.ProcessFunc) { f(gostatsd.NewMetricMap(false)) }
func (a *recAgg) Reset()                       { a.sig <- struct{}{} }

// proc stands for the backend handler: one recording aggregator, plus optionally further workers' aggregators that only
// note the elapsed time they are told (every aggregator of a flush must be told the same).
type proc struct {
	a    *recAgg
	sibs []*sibAgg
}

type sibAgg struct {
	mu        sync.Mutex
	intervals []time.Duration
}

func (s *sibAgg) ReceiveMap(*gostatsd.MetricMap) {}
func (s *sibAgg) Flush(d time.Duration) {
	s.mu.Lock()
	s.intervals = append(s.intervals, d)
	s.mu.Unlock()
}
func (s *sibAgg) Process(f statsd.ProcessFunc) { f(gostatsd.NewMetricMap(false)) }
func (s *sibAgg) Reset()                       {}

func (p proc) Process(ctx context.Context, fn statsd.DispatcherProcessFunc) gostatsd.Wait {
	// the siblings first: when the recording aggregator signals its Reset, the whole flush has run
	for i, sb := range p.sibs {
		fn(i+1, sb)
	}
	fn(0, p.a)
	return func() {}
}

func TestAlignedFlusher(t *testing.T) {
	rapid.Check(t, func(t *rapid.T) {
		interval := rapid.SampledFrom(intervals).Draw(t, "interval")
		offset := offsetGen(interval).Draw(t, "offset")
		start := startGen(interval, offset).Draw(t, "start")
		clck := clock.NewMock(start)
		ctx, cancel := context.WithCancel(stats.NewContext(clock.Context(context.Background(), clck), stats.NewNullStatser()))
		agg := &recAgg{clck: clck, sig: make(chan struct{}, 64)}
		var sibs []*sibAgg
		for i, k := 0, rapid.IntRange(0, 3).Draw(t, "further-workers"); i < k; i++ {
			sibs = append(sibs, &sibAgg{})
		}
		fl := statsd.NewMetricFlusher(interval, offset, true, proc{a: agg, sibs: sibs}, backendsGen().Draw(t, "backends"))
		done := make(chan struct{})
		go func() { fl.Run(ctx); close(done) }()
		defer func() { cancel(); <-done }()
		n := rapid.IntRange(1, 8).Draw(t, "flushes")
		if rapid.IntRange(0, 7).Draw(t, "long-run") == 0 {
			n = rapid.SampledFrom([]int{17, 18, 34, 70}).Draw(t, "many-flushes") // a flusher that has been running for a while
		}
		for i := 0; i < n; i++ {
			if !waitTimers(clck, 1) {
				vt.Fail(t, "C18:ticker-never-armed", "flusher's aligned ticker did not arm within 30s")
			}
			clck.AddNext()
			select {
			case <-agg.sig:
			case <-time.After(30 * time.Second):
				vt.Fail(t, "C18:flush-missing", "clock stepped to the ticker's deadline but the flusher did not flush within 30s (flush %d, start %v interval %v offset %v)", i, start, interval, offset)
			}
		}
		agg.mu.Lock()
		calls := append([]call(nil), agg.calls...)
		agg.mu.Unlock()
		if len(calls) != n {
			vt.Fail(t, "C18:flush-count", "%d deadlines reached, %d flushes", n, len(calls))
		}
		for wi, sb := range sibs {
			sb.mu.Lock()
			got := append([]time.Duration(nil), sb.intervals...)
			sb.mu.Unlock()
			if len(got) != n {
				vt.Fail(t, "C18:flush-count", "worker %d's aggregator was flushed %d times, %d deadlines reached", wi+1, len(got), n)
			}
			for i := range got {
				if got[i] != calls[i].interval {
					vt.Fail(t, "C18:reported-interval", "flush %d: worker %d's aggregator was told %v elapsed, worker 0's %v (interval %v offset %v)", i, wi+1, got[i], calls[i].interval, interval, offset)
				}
			}
		}
		var desc []string
		for i, c := range calls {
			desc = append(desc, fmt.Sprintf("%s/%v", c.at.Format("15:04:05.000000000"), c.interval))
			if !aligned(c.at, interval, offset) {
				vt.Fail(t, "C18:flush-off-boundary", "flush %d invoked when the clock read %v: (t - %v) is not a multiple of %v (start %v)", i, c.at, offset, interval, start)
			}
			if i == 0 {
				if c.at.After(start.Add(interval)) || !c.at.After(start) {
					vt.Fail(t, "C18:first-flush-late", "first flush at %v, start %v, interval %v, offset %v", c.at, start, interval, offset)
				}
				continue
			}
			if !c.at.After(calls[i-1].at) {
				vt.Fail(t, "C18:not-increasing", "flush times %v then %v", calls[i-1].at, c.at)
			}
			if c.interval <= 0 || c.interval%interval != 0 {
				vt.Fail(t, "C18:reported-interval", "flush %d reports elapsed %v to the aggregators; must be a positive multiple of %v (flush times %v)", i, c.interval, interval, desc)
			}
			if c.interval != c.at.Sub(calls[i-1].at) {
				vt.Fail(t, "C18:reported-interval", "flush %d reports elapsed %v but the flush times differ by %v", i, c.interval, c.at.Sub(calls[i-1].at))
			}
		}
		nt := offset != 0 && nearBoundary(start, interval, offset)
		labels := []string{"layer=flusher", "interval=" + interval.String()}
		if offset >= interval {
			labels = append(labels, "offset>=interval")
		}
		if ev.C().WantSample() {
			ev.C().Sample(map[string]interface{}{"start": start.UTC().Format(time.RFC3339Nano), "interval": interval.String(), "offset": offset.String(), "flushes": strings.Join(desc, " ")})
		}
		ev.C().Case(fmt.Sprintf("F|%v|%v|%v|%d", start.UnixNano(), interval, offset, n), nt, labels...)
	})
}

// TestAlignedFlusherJumps drives the real flusher with clock jumps over several intervals that land between
// boundaries, and with a consumer (aggregator flush) that stays busy while several deadlines pass.
//
// While every advance is followed by the flush it causes, the mock clock's documented rules give the exact tick
// values (model below), so the elapsed time handed to the aggregators is compared exactly. After a slow flush the
// ticks that survive the one-slot buffer depend on scheduling; from then on only what the property states is
// checked: every later elapsed time is a positive multiple of the interval.
func TestAlignedFlusherJumps(t *testing.T) {
	rapid.Check(t, func(t *rapid.T) {
		interval := rapid.SampledFrom(intervals).Draw(t, "interval")
		offset := offsetGen(interval).Draw(t, "offset")
		start := startGen(interval, offset).Draw(t, "start")
		clck := clock.NewMock(start)
		ctx, cancel := context.WithCancel(stats.NewContext(clock.Context(context.Background(), clck), stats.NewNullStatser()))
		agg := &recAgg{clck: clck, sig: make(chan struct{}, 256), slow: map[int]bool{}, entered: make(chan struct{}, 1), release: make(chan struct{})}
		fl := statsd.NewMetricFlusher(interval, offset, true, proc{a: agg}, backendsGen().Draw(t, "backends"))
		done := make(chan struct{})
		go func() { fl.Run(ctx); close(done) }()
		released := true
		defer func() {
			cancel()
			if !released {
				close(agg.release)
			}
			<-done
		}()
		if !waitTimers(clck, 1) {
			vt.Fail(t, "C18:ticker-never-armed", "flusher's aligned ticker did not arm within 30s")
		}

		// model of the aligned ticker on the mock clock
		roundDown := func(d time.Time) time.Time { return d.Add(-offset).Truncate(interval).Add(offset) }
		phase1 := true
		deadline := roundDown(start).Add(interval) // first boundary strictly after start
		now := start
		var wantTicks []time.Time // tick value consumed by flush i, exact mode only
		var wantAt []time.Time
		fire := func(target time.Time) {
			d := deadline
			if phase1 {
				phase1 = false
				deadline = target.Add(interval) // the repeating ticker is created once the jump is over
			} else {
				deadline = d.Add((target.Sub(d)/interval + 1) * interval)
			}
			wantTicks = append(wantTicks, roundDown(d))
			wantAt = append(wantAt, target)
		}
		var log []string
		modelOK := true
		advance := func(exact bool, label string) {
			switch kind := rapid.IntRange(0, 2).Draw(t, label); {
			case kind == 0:
				at, _ := clck.AddNext()
				log = append(log, "next")
				if exact {
					if !at.Equal(deadline) {
						modelOK = false
					}
					now = at
					fire(at)
				}
			default:
				k := rapid.IntRange(1, 4).Draw(t, "k")
				d := interval*time.Duration(k) + time.Duration(rapid.Int64Range(0, int64(interval)-1).Draw(t, "extra"))
				at := clck.Add(d)
				log = append(log, "jump "+d.String())
				if exact {
					now = at
					fire(at)
				}
			}
		}
		waitFlush := func(what string) {
			select {
			case <-agg.sig:
			case <-time.After(30 * time.Second):
				vt.Fail(t, "C18:flush-missing", "%s: a deadline passed but the flusher did not flush within 30s (start %v interval %v offset %v, %v)", what, start, interval, offset, log)
			}
		}
		exact := true
		sawSlow, sawJump := false, false
		nsteps := rapid.IntRange(2, 8).Draw(t, "steps")
		for i := 0; i < nsteps; i++ {
			if rapid.IntRange(0, 4).Draw(t, "slow") == 0 && exact {
				// the next flush stays inside the aggregator while further deadlines pass
				agg.mu.Lock()
				agg.slow[len(agg.calls)] = true
				agg.mu.Unlock()
				released = false
				advance(true, "advance")
				select {
				case <-agg.entered:
				case <-time.After(30 * time.Second):
					vt.Fail(t, "C18:flush-missing", "slow flush never started (%v)", log)
				}
				log = append(log, "(flush blocks)")
				exact = false
				sawSlow = true
				m := rapid.IntRange(1, 3).Draw(t, "missed")
				for j := 0; j < m; j++ {
					if rapid.Bool().Draw(t, "small") {
						d := time.Duration(rapid.Int64Range(1, int64(interval)-1).Draw(t, "smallstep"))
						clck.Add(d)
						log = append(log, "add "+d.String())
					}
					advance(false, "advance")
				}
				agg.release <- struct{}{}
				released = true
				log = append(log, "(released)")
				waitFlush("slow flush")
				waitFlush("buffered tick after the slow flush")
				continue
			}
			advance(exact, "advance")
			if strings.HasPrefix(log[len(log)-1], "jump") {
				sawJump = true
			}
			waitFlush("advance")
		}
		cancel()
		<-done
		agg.mu.Lock()
		calls := append([]call(nil), agg.calls...)
		agg.mu.Unlock()
		var desc []string
		for _, c := range calls {
			desc = append(desc, fmt.Sprintf("%s/%v", c.at.Format("15:04:05.000000000"), c.interval))
		}
		if !modelOK {
			ev.C().Excluded("c18-mock-model-mismatch", 1)
		}
		var total time.Duration
		for i, c := range calls {
			if i == 0 {
				continue
			}
			if c.interval <= 0 || c.interval%interval != 0 {
				vt.Fail(t, "C18:reported-interval", "flush %d reports elapsed %v to the aggregators; must be a positive multiple of %v (start %v offset %v, advances %v, flushes %v)", i, c.interval, interval, start, offset, log, desc)
			}
			total += c.interval
			if total > c.at.Sub(start) {
				vt.Fail(t, "C18:reported-interval", "flushes 1..%d report %v elapsed in total but only %v passed since start (advances %v, flushes %v)", i, total, c.at.Sub(start), log, desc)
			}
			if modelOK && i < len(wantTicks) {
				if want := wantTicks[i].Sub(wantTicks[i-1]); c.interval != want {
					vt.Fail(t, "C18:reported-interval", "flush %d reports elapsed %v; the ticks it and its predecessor consumed are %v and %v, %v apart (interval %v offset %v start %v, advances %v, flushes %v)", i, c.interval, wantTicks[i-1], wantTicks[i], want, interval, offset, start, log, desc)
				}
			}
		}
		if modelOK {
			for i := range wantAt {
				if i < len(calls) && !calls[i].at.Equal(wantAt[i]) {
					vt.Fail(t, "C18:flush-count", "flush %d ran when the clock read %v, expected right after the advance to %v (advances %v, flushes %v)", i, calls[i].at, wantAt[i], log, desc)
				}
			}
		}
		if len(calls) < len(wantTicks) {
			vt.Fail(t, "C18:flush-count", "%d deadlines reached one by one, only %d flushes (advances %v)", len(wantTicks), len(calls), log)
		}
		_ = now
		labels := []string{"layer=flusher-jumps", "interval=" + interval.String()}
		if sawSlow {
			labels = append(labels, "slow-consumer")
		}
		if sawJump {
			labels = append(labels, "jump-off-boundary")
		}
		if ev.C().WantSample() {
			ev.C().Sample(map[string]interface{}{"start": start.UTC().Format(time.RFC3339Nano), "interval": interval.String(), "offset": offset.String(), "advances": log, "flushes": strings.Join(desc, " ")})
		}
		ev.C().Case(fmt.Sprintf("J|%v|%v|%v|%v", start.UnixNano(), interval, offset, log), sawSlow || sawJump, labels...)
	})
}

// TestAlignedFlusherRealClock runs the flusher on the real clock (no mock in the context) with a short interval:
// real time values carry a monotonic reading that mock times do not have, and time.Sub prefers it. The elapsed
// time handed to the aggregators must still be an exact positive multiple of the interval. Scheduling delays only
// make the multiples larger; nothing here depends on how fast the machine is.
func TestAlignedFlusherRealClock(t *testing.T) {
	rapid.Check(t, func(t *rapid.T) {
		interval := rapid.SampledFrom([]time.Duration{10 * time.Millisecond, 20 * time.Millisecond, 25 * time.Millisecond}).Draw(t, "interval")
		offset := offsetGen(interval).Draw(t, "offset")
		ctx, cancel := context.WithCancel(stats.NewContext(context.Background(), stats.NewNullStatser()))
		agg := &realAgg{sig: make(chan struct{}, 64)}
		fl := statsd.NewMetricFlusher(interval, offset, true, proc2{agg}, backendsGen().Draw(t, "backends"))
		done := make(chan struct{})
		go func() { fl.Run(ctx); close(done) }()
		want := rapid.IntRange(3, 5).Draw(t, "flushes")
		deadline := time.After(60 * time.Second)
	wait:
		for i := 0; i < want; i++ {
			select {
			case <-agg.sig:
			case <-deadline:
				break wait
			}
		}
		cancel()
		<-done
		agg.mu.Lock()
		calls := append([]time.Duration(nil), agg.elapsed...)
		agg.mu.Unlock()
		if len(calls) < want {
			vt.Fail(t, "C18:flush-missing", "real clock, interval %v offset %v: only %d flushes within 60s", interval, offset, len(calls))
		}
		for i, d := range calls {
			if i == 0 {
				continue // the first elapsed value is measured from start-up, not from a flush
			}
			if d <= 0 || d%interval != 0 {
				vt.Fail(t, "C18:reported-interval", "real clock: flush %d reports elapsed %v (%d ns) to the aggregators; must be a positive multiple of %v (offset %v, all %v)", i, d, int64(d), interval, offset, calls)
			}
		}
		ev.C().Case(fmt.Sprintf("R|%v|%v|%d", interval, offset, want), offset != 0, "layer=flusher-real-clock", "interval="+interval.String())
		if ev.C().WantSample() {
			ev.C().Sample(map[string]interface{}{"real_clock": true, "interval": interval.String(), "offset": offset.String(), "elapsed": fmt.Sprint(calls)})
		}
	})
}

type realAgg struct {
	mu      sync.Mutex
	elapsed []time.Duration
	sig     chan struct{}
}

func (a *realAgg) ReceiveMap(*gostatsd.MetricMap) {}
func (a *realAgg) Flush(d time.Duration) {
	a.mu.Lock()
	a.elapsed = append(a.elapsed, d)
	a.mu.Unlock()
}
func (a *realAgg) Process(f statsd.ProcessFunc) { f(gostatsd.NewMetricMap(false)) }
func (a *realAgg) Reset() {
	select {
	case a.sig <- struct{}{}:
	default:
	}
}

type proc2 struct{ a *realAgg }

func (p proc2) Process(ctx context.Context, fn statsd.DispatcherProcessFunc) gostatsd.Wait {
	fn(0, p.a)
	return func() {}
}

// cbBackend completes every send at once, with or without an error: what the backends report must not influence
// when the flusher flushes or what elapsed time it hands to the aggregators.
type cbBackend struct{ err error }

func (b cbBackend) Name() string { return "cb" }
func (b cbBackend) SendMetricsAsync(ctx context.Context, mm *gostatsd.MetricMap, cb gostatsd.SendCallback) {
	cb([]error{b.err})
}
func (b cbBackend) SendEvent(context.Context, *gostatsd.Event) error { return b.err }

func backendsGen() *rapid.Generator[[]gostatsd.Backend] {
	return rapid.Custom(func(t *rapid.T) []gostatsd.Backend {
		switch rapid.IntRange(0, 3).Draw(t, "backend-kind") {
		case 0:
			return nil
		case 1:
			return []gostatsd.Backend{cbBackend{}}
		case 2:
			return []gostatsd.Backend{cbBackend{err: fmt.Errorf("scripted backend failure")}}
		}
		return []gostatsd.Backend{cbBackend{}, cbBackend{err: fmt.Errorf("scripted backend failure")}}
	})
}
