package c11

import (
	"context"
	"fmt"
	"sort"
	"strings"
	"sync/atomic"
	"testing"
	"time"

	"github.com/atlassian/gostatsd"
	"github.com/atlassian/gostatsd/pkg/statsd"
	"pgregory.net/rapid"

	"verifharness/internal/ev"
	"verifharness/internal/fakes"
	"verifharness/internal/gen"
	"verifharness/internal/model"
	"verifharness/internal/vt"
)

func TestMain(m *testing.M) {
	ev.C().Rule("rapid state machine over a real CloudHandler with a harness-owned instance cache (Peek contents, IpSink, InfoSource): actions metrics(batch from sources subset of 3 + empty) / event(source) / complete(source, instance | not-found) / completeWhileDownstreamBusy (the release of >= 2 parked events is stuck on the first one while two more events of that source are parked) / cacheInsert / cacheEvict / emit; completions only for sources actually requested, in any order. Oracle: parked-state model (exactly-once delivery, enrichment, one outstanding lookup per source, hosts/items gauges). Non-trivial = a source with an event and metrics parked at completion time, or >= 2 batches parked for one source")
	vt.Main(m)
}

var sources = []gostatsd.Source{"10.0.0.1", "10.0.0.2", "10.0.0.3", ""}

// instFor draws what a successful lookup for s returns: an instance id with two tags, one tag, or no tags at all
// (a provider is free to know an instance without having any tag for it).
func instFor(t *rapid.T, s gostatsd.Source) *gostatsd.Instance {
	in := &gostatsd.Instance{ID: gostatsd.Source("i-" + string(s))}
	if rapid.IntRange(0, 3).Draw(t, "shared-instance") == 0 {
		in.ID = "i-shared" // several addresses of one instance: their series coincide after enrichment
	}
	switch rapid.IntRange(0, 4).Draw(t, "instance-tags") {
	case 0:
	case 1:
		in.Tags = gostatsd.Tags{}
	case 2:
		in.Tags = gostatsd.Tags{"cloud"}
	default:
		in.Tags = gostatsd.Tags{"az:" + string(s), "cloud"}
	}
	return in
}

func enrich(m *gostatsd.Metric, in *gostatsd.Instance) *gostatsd.Metric {
	c := gen.CopyMetric(m)
	if in != nil {
		c.Tags = append(c.Tags, in.Tags...)
		c.Source = in.ID
	}
	return c
}

type parked struct {
	points  []*gostatsd.Metric
	events  []*gostatsd.Event
	batches int
}

var burstSeq int

func describeEvent(e *gostatsd.Event) string {
	t := append([]string(nil), e.Tags...)
	sort.Strings(t)
	return fmt.Sprintf("%s|%s|%s|%v", e.Title, e.Text, e.Source, t)
}

var lookupPatienceMs int64 = 30000

func TestCloudStageHistories(t *testing.T) {
	rapid.Check(t, func(t *rapid.T) {
		ci := fakes.NewCachedInstances()
		sink := fakes.NewSink()
		st := fakes.NewStatser()
		ch := statsd.NewCloudHandler(ci, sink)
		ctx, cancel := context.WithCancel(context.Background())
		runDone := make(chan struct{})
		go func() { ch.Run(ctx); close(runDone) }()
		go ch.RunMetrics(ctx, st)
		defer func() {
			cancel()
			select {
			case <-runDone:
			case <-time.After(30 * time.Second):
			}
		}()

		park := map[gostatsd.Source]*parked{}
		requested := map[gostatsd.Source]bool{} // lookup requested (received from IpSink), not yet answered
		delivered := model.Agg{}
		var deliveredEvents []string
		expectMaps, expectEvents := 0, 0
		var history []string
		nontrivial := false
		eventSeq := 0

		fail := func(sig, f string, a ...interface{}) {
			vt.WriteCase(map[string]interface{}{"history": history})
			vt.Fail(t, sig, "%s; history: %s", fmt.Sprintf(f, a...), strings.Join(history, " | "))
		}
		// after an arrival: the stage must request a lookup for exactly the sources that became parked with nothing parked before
		expectLookups := func(newly []gostatsd.Source) {
			want := map[gostatsd.Source]bool{}
			for _, s := range newly {
				want[s] = true
			}
			for len(want) > 0 {
				select {
				case s := <-ci.Sink:
					if requested[s] {
						fail("C11:second-lookup-while-outstanding", "lookup for %q requested again while one is outstanding", s)
					}
					if !want[s] {
						fail("C11:unexpected-lookup", "lookup for %q requested although nothing new was parked for it", s)
					}
					delete(want, s)
					requested[s] = true
				case <-time.After(time.Duration(atomic.LoadInt64(&lookupPatienceMs)) * time.Millisecond):
					// once a lookup was not requested, further cases (rapid shrinking the first) wait 2 s instead of 30
					atomic.StoreInt64(&lookupPatienceMs, 2000)
					fail("C11:lookup-never-requested", "no lookup requested for %v within the patience (30s; 2s after a first failure)", want)
				}
			}
			// nothing more may be offered
			select {
			case s := <-ci.Sink:
				fail("C11:unexpected-lookup", "extra lookup for %q", s)
			case <-time.After(200 * time.Microsecond):
			}
		}
		waitDeliveries := func() {
			if !sink.WaitUntil(30*time.Second, func(m []*gostatsd.MetricMap, e []*gostatsd.Event) bool {
				return len(m) >= expectMaps && len(e) >= expectEvents
			}) {
				m, e := sink.Counts()
				fail("C11:never-delivered", "downstream received %d maps / %d events, expected %d / %d (waited 30s)", m, e, expectMaps, expectEvents)
			}
		}

		t.Repeat(map[string]func(*rapid.T){
			"metrics": func(t *rapid.T) {
				n := rapid.IntRange(1, 6).Draw(t, "points")
				var pts []*gostatsd.Metric
				for i := 0; i < n; i++ {
					m := gen.Datapoint(rapid.Int64Range(1, 3)).Draw(t, "dp")
					m.Source = rapid.SampledFrom(sources).Draw(t, "source")
					pts = append(pts, m)
					// the same series sent from another address in the same batch: if both addresses belong to one instance the
					// two coincide after enrichment and must be merged
					if rapid.IntRange(0, 2).Draw(t, "twin-from-other-address") == 0 {
						c := gen.CopyMetric(m)
						c.Source = rapid.SampledFrom(sources).Draw(t, "twin-source")
						c.Value = float64(rapid.IntRange(1, 9).Draw(t, "twin-value"))
						pts = append(pts, c)
					}
					// a datapoint without a source that carries the literal tag s:<address> under another name: its tags key reads
					// like that of a datapoint from that address, and it is still a datapoint with no source to look up
					if m.Source != "" && rapid.IntRange(0, 3).Draw(t, "source-like-tag") == 0 {
						c := gen.CopyMetric(m)
						c.Name = m.Name + ".srctag"
						c.Tags = append(c.Tags, "s:"+string(m.Source))
						c.Source = ""
						pts = append(pts, c)
					}
				}
				mm := gen.MapFromMetrics(pts)
				var newly []gostatsd.Source
				immediate := false
				touched := map[gostatsd.Source]bool{}
				for _, m := range pts {
					in, hit := ci.Peek(m.Source)
					if m.Source == "" {
						in, hit = nil, true
					}
					if hit {
						delivered.AddMetric(enrich(m, in))
						immediate = true
						continue
					}
					p := park[m.Source]
					if p == nil {
						p = &parked{}
						park[m.Source] = p
						if !requested[m.Source] {
							newly = append(newly, m.Source)
						}
					}
					if len(p.points) == 0 && len(p.events) == 0 && !requested[m.Source] && !contains(newly, m.Source) {
						newly = append(newly, m.Source)
					}
					p.points = append(p.points, m)
					touched[m.Source] = true
				}
				for s := range touched {
					park[s].batches++
					if park[s].batches >= 2 {
						nontrivial = true
					}
				}
				if immediate {
					expectMaps++
				}
				history = append(history, fmt.Sprintf("metrics%v", gen.DescribeMetrics(pts)))
				ch.DispatchMetricMap(ctx, mm)
				expectLookups(newly)
				waitDeliveries()
			},
			"burst": func(t *rapid.T) {
				// one batch with datapoints from 9..20 hosts never seen before: that many lookups become pending at once
				if rapid.IntRange(0, 3).Draw(t, "burst-now") != 0 {
					t.Skip("no burst now")
				}
				n := rapid.IntRange(9, 20).Draw(t, "new-hosts")
				if rapid.IntRange(0, 9).Draw(t, "fleet") == 0 {
					n = rapid.SampledFrom([]int{256, 257, 300}).Draw(t, "fleet-hosts") // a whole fleet starts up at once
				}
				var pts []*gostatsd.Metric
				var newly []gostatsd.Source
				for i := 0; i < n; i++ {
					burstSeq++
					src := gostatsd.Source(fmt.Sprintf("10.2.%d.%d", burstSeq/250, burstSeq%250))
					m := gen.Datapoint(rapid.Int64Range(1, 3)).Draw(t, "dp")
					m.Source = src
					pts = append(pts, m)
					park[src] = &parked{points: []*gostatsd.Metric{m}, batches: 1}
					newly = append(newly, src)
				}
				history = append(history, fmt.Sprintf("burst of %d new hosts", n))
				ch.DispatchMetricMap(ctx, gen.MapFromMetrics(pts))
				expectLookups(newly)
				waitDeliveries()
			},
			"event": func(t *rapid.T) {
				s := rapid.SampledFrom(sources).Draw(t, "source")
				eventSeq++
				e := &gostatsd.Event{Title: fmt.Sprintf("e%d", eventSeq), Text: "x", Source: s, Tags: gostatsd.Tags{"t:1"}}
				in, hit := ci.Peek(s)
				if s == "" {
					in, hit = nil, true
				}
				history = append(history, fmt.Sprintf("event(%q)", s))
				var newly []gostatsd.Source
				if hit {
					c := fakes.CopyEvent(e)
					if in != nil {
						c.Tags = append(c.Tags, in.Tags...)
						c.Source = in.ID
					}
					deliveredEvents = append(deliveredEvents, describeEvent(c))
					expectEvents++
				} else {
					p := park[s]
					if p == nil {
						p = &parked{}
						park[s] = p
					}
					if len(p.points) == 0 && len(p.events) == 0 && !requested[s] {
						newly = append(newly, s)
					}
					p.events = append(p.events, e)
				}
				ch.DispatchEvent(ctx, fakes.CopyEvent(e))
				expectLookups(newly)
				waitDeliveries()
			},
			"complete": func(t *rapid.T) {
				var open []gostatsd.Source
				for s := range requested {
					open = append(open, s)
				}
				if len(open) == 0 {
					t.Skip("no lookup outstanding")
				}
				sort.Slice(open, func(i, j int) bool { return open[i] < open[j] })
				s := rapid.SampledFrom(open).Draw(t, "source")
				var in *gostatsd.Instance
				if rapid.Bool().Draw(t, "found") {
					in = instFor(t, s)
				}
				p := park[s]
				history = append(history, fmt.Sprintf("complete(%q,found=%v)", s, in != nil))
				var newly []gostatsd.Source
				if p != nil {
					if len(p.points) > 0 && len(p.events) > 0 {
						nontrivial = true
					}
					if len(p.points) > 0 {
						for _, m := range p.points {
							delivered.AddMetric(enrich(m, in))
						}
						expectMaps++
					}
					for _, e := range p.events {
						c := fakes.CopyEvent(e)
						if in != nil {
							c.Tags = append(c.Tags, in.Tags...)
							c.Source = in.ID
						}
						deliveredEvents = append(deliveredEvents, describeEvent(c))
						expectEvents++
					}
				}
				delete(park, s)
				delete(requested, s)
				select {
				case ci.Info <- gostatsd.InstanceInfo{IP: s, Instance: in}:
				case <-time.After(30 * time.Second):
					fail("C11:completion-not-accepted", "the stage did not take the lookup answer for %q within 30s", s)
				}
				expectLookups(newly)
				waitDeliveries()
			},
			"completeBetweenCacheReadAndHandOff": func(t *rapid.T) {
				// a batch from source s misses the cache (a lookup for s is outstanding, items are parked); before the batch is
				// handed to the stage's goroutine the lookup completes: the cache is filled, the answer is taken and the parked
				// items leave. The batch then arrives with nothing parked and no lookup outstanding - it still has to leave.
				var open []gostatsd.Source
				for s := range requested {
					if p := park[s]; p != nil && len(p.points) > 0 {
						if _, hit := ci.Peek(s); !hit {
							open = append(open, s)
						}
					}
				}
				if len(open) == 0 {
					t.Skip("no uncached source with parked metrics and an outstanding lookup")
				}
				sort.Slice(open, func(i, j int) bool { return open[i] < open[j] })
				s := rapid.SampledFrom(open).Draw(t, "source")
				var in *gostatsd.Instance
				if rapid.Bool().Draw(t, "found") {
					in = instFor(t, s)
				}
				m := gen.Datapoint(rapid.Int64Range(1, 3)).Draw(t, "dp")
				m.Source = s
				mm := gen.MapFromMetrics([]*gostatsd.Metric{m})
				history = append(history, fmt.Sprintf("completeBetweenCacheReadAndHandOff(%q,found=%v) metrics%v", s, in != nil, gen.DescribeMetrics([]*gostatsd.Metric{m})))
				fired := false
				ci.SetAfterPeek(func(src gostatsd.Source, hit bool) {
					if src != s || fired || hit {
						return
					}
					fired = true
					// the old lookup completes now: cache filled, answer delivered, parked items released
					p := park[s]
					for _, pm := range p.points {
						delivered.AddMetric(enrich(pm, in))
					}
					expectMaps++
					for _, e := range p.events {
						c := fakes.CopyEvent(e)
						if in != nil {
							c.Tags = append(c.Tags, in.Tags...)
							c.Source = in.ID
						}
						deliveredEvents = append(deliveredEvents, describeEvent(c))
						expectEvents++
					}
					delete(park, s)
					delete(requested, s)
					ci.Set(s, in)
					select {
					case ci.Info <- gostatsd.InstanceInfo{IP: s, Instance: in}:
					case <-time.After(30 * time.Second):
						fail("C11:completion-not-accepted", "the stage did not take the lookup answer for %q within 30s", s)
					}
					waitDeliveries()
				})
				ch.DispatchMetricMap(ctx, mm)
				ci.SetAfterPeek(nil)
				if !fired {
					fail("C11:harness", "the stage did not read the cache for %q when the batch was dispatched", s)
				}
				// the batch saw a miss: it is parked under a new lookup, whatever the cache says by now
				park[s] = &parked{points: []*gostatsd.Metric{m}, batches: 1}
				expectLookups([]gostatsd.Source{s})
				waitDeliveries()
				nontrivial = true
			},
			"completeWhileDownstreamBusy": func(t *rapid.T) {
				// a lookup completes for a source with several parked events while the downstream stage is stuck on the
				// first of them; more events of that source arrive (and miss the cache again) before the release is over
				var open []gostatsd.Source
				for s := range requested {
					if p := park[s]; p != nil && len(p.events) >= 2 {
						open = append(open, s)
					}
				}
				if len(open) == 0 {
					t.Skip("no source with two parked events")
				}
				sort.Slice(open, func(i, j int) bool { return open[i] < open[j] })
				s := rapid.SampledFrom(open).Draw(t, "source")
				if _, hit := ci.Peek(s); hit {
					t.Skip("source is cached: later events would not be parked")
				}
				var in *gostatsd.Instance
				if rapid.Bool().Draw(t, "found") {
					in = instFor(t, s)
				}
				p := park[s]
				history = append(history, fmt.Sprintf("completeWhileDownstreamBusy(%q,found=%v)", s, in != nil))
				if len(p.points) > 0 {
					for _, m := range p.points {
						delivered.AddMetric(enrich(m, in))
					}
					expectMaps++
				}
				for _, e := range p.events {
					c := fakes.CopyEvent(e)
					if in != nil {
						c.Tags = append(c.Tags, in.Tags...)
						c.Source = in.ID
					}
					deliveredEvents = append(deliveredEvents, describeEvent(c))
					expectEvents++
				}
				delete(park, s)
				delete(requested, s)
				gate := make(chan struct{})
				sink.SetGate(gate)
				select {
				case ci.Info <- gostatsd.InstanceInfo{IP: s, Instance: in}:
				case <-time.After(30 * time.Second):
					close(gate)
					fail("C11:completion-not-accepted", "the stage did not take the lookup answer for %q within 30s", s)
				}
				np := &parked{}
				park[s] = np
				for i := 0; i < 2; i++ {
					eventSeq++
					e := &gostatsd.Event{Title: fmt.Sprintf("e%d", eventSeq), Text: "late", Source: s, Tags: gostatsd.Tags{"t:2"}}
					np.events = append(np.events, e)
					ch.DispatchEvent(ctx, fakes.CopyEvent(e))
				}
				expectLookups([]gostatsd.Source{s})
				sink.SetGate(nil)
				close(gate)
				nontrivial = true
				waitDeliveries()
			},
			"cacheInsert": func(t *rapid.T) {
				s := rapid.SampledFrom(sources[:3]).Draw(t, "source")
				var in *gostatsd.Instance
				if rapid.Bool().Draw(t, "positive") {
					in = instFor(t, s)
					if rapid.IntRange(0, 2).Draw(t, "one-instance-many-addresses") == 0 {
						in = &gostatsd.Instance{ID: "i-shared", Tags: gostatsd.Tags{"cloud"}}
					}
				}
				ci.Set(s, in)
				history = append(history, fmt.Sprintf("cacheInsert(%q,%v)", s, in != nil))
			},
			"cacheEvict": func(t *rapid.T) {
				s := rapid.SampledFrom(sources[:3]).Draw(t, "source")
				ci.Evict(s)
				history = append(history, fmt.Sprintf("cacheEvict(%q)", s))
			},
			"emit": func(t *rapid.T) {
				history = append(history, "emit")
				key := "cloudprovider.items_queued{type:event}"
				_, n0 := st.GaugeValue(key)
				chans := waitFlushChans(st)
				deadline := time.Now().Add(30 * time.Second)
				for {
					for _, c := range chans {
						c <- 0
					}
					ok := false
					for i := 0; i < 200; i++ {
						if _, n := st.GaugeValue(key); n > n0 {
							ok = true
							break
						}
						time.Sleep(50 * time.Microsecond)
					}
					if ok {
						break
					}
					if time.Now().After(deadline) {
						fail("C11:emit-never-lands", "stats emission was not performed within 30s")
					}
				}
				mh, eh, ei := 0, 0, 0
				for _, p := range park {
					if len(p.points) > 0 {
						mh++
					}
					if len(p.events) > 0 {
						eh++
					}
					ei += len(p.events)
				}
				gm, _ := st.GaugeValue("cloudprovider.hosts_queued{type:metric}")
				ge, _ := st.GaugeValue("cloudprovider.hosts_queued{type:event}")
				gi, _ := st.GaugeValue(key)
				if gm != float64(mh) || ge != float64(eh) || gi != float64(ei) {
					fail("C11:queue-gauges", "hosts_queued{metric}=%v hosts_queued{event}=%v items_queued{event}=%v but %d hosts wait with metrics, %d with events, %d events wait", gm, ge, gi, mh, eh, ei)
				}
			},
		})
		// finish: answer every outstanding lookup, then everything that entered must have left exactly once
		for s := range requested {
			p := park[s]
			if p != nil {
				if len(p.points) > 0 {
					for _, m := range p.points {
						delivered.AddMetric(m)
					}
					expectMaps++
				}
				for _, e := range p.events {
					deliveredEvents = append(deliveredEvents, describeEvent(e))
					expectEvents++
				}
			}
			delete(park, s)
			ci.Info <- gostatsd.InstanceInfo{IP: s, Instance: nil}
		}
		waitDeliveries()
		if len(park) != 0 {
			fail("C11:model-inconsistent", "harness model: parked items without an outstanding lookup: %v", park)
		}
		maps, events := sink.Snapshot()
		got := model.Agg{}
		for _, mm := range maps {
			if d := model.DupKeys(mm); len(d) > 0 {
				fail("C11:duplicate-series", "a delivered map holds a series under two keys: %v", d)
			}
			if d := model.StaleKeys(mm); len(d) > 0 {
				fail("C11:stale-key", "a delivered map holds a series under a key that is not its own: %v", d)
			}
			got.AddMap(mm)
		}
		if len(maps) != expectMaps {
			fail("C11:delivery-count", "downstream received %d maps, expected %d", len(maps), expectMaps)
		}
		if d := model.Diff(got, delivered, model.Opts{SampledTol: 1e-12}); d != "" {
			fail("C11:metrics-not-exactly-once", "what left the stage differs from what entered it: %s", d)
		}
		var gotEv []string
		for _, e := range events {
			gotEv = append(gotEv, describeEvent(e))
		}
		sort.Strings(gotEv)
		sort.Strings(deliveredEvents)
		if strings.Join(gotEv, "\n") != strings.Join(deliveredEvents, "\n") {
			fail("C11:events-not-exactly-once", "events leaving the stage %v, expected %v", gotEv, deliveredEvents)
		}
		labels := []string{}
		if nontrivial {
			labels = append(labels, "overlapping-parked-state")
		}
		if ev.C().WantSample() {
			ev.C().Sample(map[string]interface{}{"history": history})
		}
		ev.C().Case(strings.Join(history, "|"), nontrivial, labels...)
	})
}

func contains(l []gostatsd.Source, s gostatsd.Source) bool {
	for _, x := range l {
		if x == s {
			return true
		}
	}
	return false
}

func waitFlushChans(st *fakes.Statser) []chan time.Duration {
	for i := 0; i < 100000; i++ {
		if c := st.FlushChans(); len(c) > 0 {
			return c
		}
		time.Sleep(20 * time.Microsecond)
	}
	return nil
}
