package c20

import (
	"bytes"
	"context"
	"encoding/json"
	"fmt"
	"io"
	"net"
	"net/http"
	"net/http/httptest"
	"os"
	"strings"
	"sync"
	"sync/atomic"
	"testing"
	"time"

	"github.com/atlassian/gostatsd"
	"github.com/atlassian/gostatsd/pb"
	"github.com/atlassian/gostatsd/pkg/lambda"
	"github.com/atlassian/gostatsd/pkg/statsd"
	"github.com/atlassian/gostatsd/pkg/transport"
	"github.com/atlassian/gostatsd/verifhooks"
	"github.com/sirupsen/logrus"
	"github.com/spf13/viper"
	"google.golang.org/protobuf/proto"
	"pgregory.net/rapid"

	"verifharness/internal/ev"
	"verifharness/internal/fakes"
	"verifharness/internal/vt"
)

func TestMain(m *testing.M) {
	logrus.SetOutput(io.Discard)
	logrus.SetLevel(logrus.PanicLevel)
	ev.C().Rule("rapid, end to end on loopback: lambda.NewExtension (per-invocation flushing) around a forwarder-mode statsd.Server with an HTTP ingestion server, a fake Lambda runtime API (register, telemetry subscribe held until data was injected, /event/next long-poll released by the harness, /init/error, /exit/error) and a fake upstream /v2/raw with drawn latency (0..40 ms, occasionally one call of 1.2 s - 5.5 s) and outcome (2xx, 5xx, connection close); histories of 1..5 invocations, each with 0..4 uniquely valued datapoints accepted over HTTP and 1..3 telemetry batches with other record types around at most one platform.runtimeDone; plus a start-up failure scenario. Oracle: order invariant over one global log; rarely the gostatsd server is started only after the manager's start-up allowance and initial flush (same wiring through a build-tag hook): if the extension then asks for events at all, the same ordering must hold. Non-trivial = an invocation with >= 1 datapoint and upstream latency > 0")
	vt.Main(m)
}

type entry struct {
	kind string // register, subscribe, next-request, accepted, runtime-done-posted, upstream-begin, upstream-end, init-error, exit-error
	id   int    // datapoint id for accepted; sequence for next-request
	ids  []int  // datapoint ids carried by an upstream request
	at   time.Time
}

type world struct {
	mu          sync.Mutex
	log         []entry
	nextCh      chan string // harness releases /event/next with an event type
	nextSeen    chan int
	nexts       int
	subHold     chan struct{}
	upLatency   func() time.Duration
	upOutcome   func() string
	retryBudget time.Duration // the forwarder's max-request-elapsed-time when the case uses the "reset" outcome (else 0)
	idRepeat    int           // consecutive invocations sharing one request id (Lambda retries an asynchronous invocation under its id); 0 or 1 = none
}

func (w *world) add(e entry) {
	w.mu.Lock()
	e.at = time.Now()
	w.log = append(w.log, e)
	w.mu.Unlock()
}

func (w *world) snapshot() []entry {
	w.mu.Lock()
	defer w.mu.Unlock()
	return append([]entry(nil), w.log...)
}

func (w *world) lambdaAPI() http.Handler {
	mux := http.NewServeMux()
	mux.HandleFunc("/2020-01-01/extension/register", func(rw http.ResponseWriter, r *http.Request) {
		w.add(entry{kind: "register"})
		rw.Header().Set("Lambda-Extension-Identifier", "ext-id")
		rw.WriteHeader(200)
		rw.Write([]byte(`{"functionName":"f","functionVersion":"1","handler":"h"}`))
	})
	mux.HandleFunc("/2022-07-01/telemetry", func(rw http.ResponseWriter, r *http.Request) {
		io.Copy(io.Discard, r.Body)
		<-w.subHold // held until the harness has injected the start-up datapoints
		w.add(entry{kind: "subscribe"})
		rw.WriteHeader(200)
		rw.Write([]byte(`"OK"`))
	})
	mux.HandleFunc("/2020-01-01/extension/event/next", func(rw http.ResponseWriter, r *http.Request) {
		w.mu.Lock()
		w.nexts++
		n := w.nexts
		w.log = append(w.log, entry{kind: "next-request", id: n, at: time.Now()})
		w.mu.Unlock()
		w.nextSeen <- n
		select {
		case typ := <-w.nextCh:
			rw.WriteHeader(200)
			id := n
			if w.idRepeat > 1 {
				id = n / w.idRepeat
			}
			fmt.Fprintf(rw, `{"eventType":%q,"deadlineMs":1,"requestId":"r%d","invokedFunctionArn":"arn","shutdownReason":"spindown"}`, typ, id)
		case <-r.Context().Done():
		}
	})
	mux.HandleFunc("/2020-01-01/extension/init/error", func(rw http.ResponseWriter, r *http.Request) {
		w.add(entry{kind: "init-error"})
		rw.WriteHeader(202)
		rw.Write([]byte(`{"status":"OK"}`))
	})
	mux.HandleFunc("/2020-01-01/extension/exit/error", func(rw http.ResponseWriter, r *http.Request) {
		w.add(entry{kind: "exit-error"})
		rw.WriteHeader(202)
		rw.Write([]byte(`{"status":"OK"}`))
	})
	return mux
}

func (w *world) upstream() http.Handler {
	return http.HandlerFunc(func(rw http.ResponseWriter, r *http.Request) {
		outcome := w.upOutcome()
		if outcome == "reset" {
			// the connection is dropped before a byte of the request has been read: this attempt neither reached the upstream
			// nor was it refused by it
			if hj, ok := rw.(http.Hijacker); ok {
				if c, _, err := hj.Hijack(); err == nil {
					w.add(entry{kind: "upstream-reset"})
					c.Close()
					return
				}
			}
			outcome = "5xx"
		}
		b, _ := io.ReadAll(r.Body)
		if enc := r.Header.Get("Content-Encoding"); enc != "" {
			if plain, err := fakes.Inflate(enc, b); err == nil {
				b = plain
			}
		}
		var msg pb.RawMessageV2
		var ids []int
		if proto.Unmarshal(b, &msg) == nil {
			for _, tm := range msg.Timers {
				for _, t := range tm.TagMap {
					for _, v := range t.Values {
						ids = append(ids, int(v))
					}
				}
			}
		}
		w.add(entry{kind: "upstream-begin", ids: ids})
		time.Sleep(w.upLatency())
		switch outcome {
		case "5xx":
			rw.WriteHeader(503)
		case "close":
			if hj, ok := rw.(http.Hijacker); ok {
				c, _, err := hj.Hijack()
				if err == nil {
					w.add(entry{kind: "upstream-end", ids: ids})
					c.Close()
					return
				}
			}
			rw.WriteHeader(500)
		default:
			rw.WriteHeader(202)
		}
		w.add(entry{kind: "upstream-end", ids: ids})
	})
}

var portSeq int

// freePort hands out ports from a range private to this process (below the kernel's ephemeral range, spread by pid),
// so that concurrently running test processes do not race for a port between "found free" and "bound by the server".
func freePort() int {
	base := 10000 + (os.Getpid()*37%180)*100
	for i := 0; i < 100; i++ {
		portSeq++
		p := base + portSeq%100
		l, err := net.Listen("tcp", fmt.Sprintf("127.0.0.1:%d", p))
		if err == nil {
			l.Close()
			return p
		}
	}
	l, err := net.Listen("tcp", "127.0.0.1:0")
	if err != nil {
		panic(err)
	}
	defer l.Close()
	return l.Addr().(*net.TCPAddr).Port
}

// forwarderTuning holds http-transport settings that do not change what must be delivered, only how the forwarder
// organises it (drawn per case): consolidator slots, concurrent merges, concurrent requests, compression.
var forwarderTuning = map[string]interface{}{"consolidator-slots": 2}

func newServer(upstreamURL string, ingestPort int, mode string) *statsd.Server {
	v := viper.New()
	ht := map[string]interface{}{"api-endpoint": upstreamURL, "max-request-elapsed-time": "-1ns", "compress": false, "consolidator-slots": 2, "flush-interval": "1h"}
	for k, val := range forwarderTuning {
		if val == nil {
			delete(ht, k) // left unset: the documented default applies
		} else {
			ht[k] = val
		}
	}
	v.Set("http-transport", ht)
	v.Set("http-servers", []string{"ingest"})
	v.Set("http.ingest", map[string]interface{}{"address": fmt.Sprintf("127.0.0.1:%d", ingestPort), "enable-ingestion": true, "enable-healthcheck": false})
	logger := logrus.StandardLogger()
	return &statsd.Server{
		FlushInterval: time.Hour, MaxReaders: 1, MaxParsers: 1, MaxWorkers: 1, MaxQueueSize: 10, MaxConcurrentEvents: 4, ReceiveBatchSize: 1,
		MetricsAddr: "127.0.0.1:0", StatserType: gostatsd.StatserNull, ServerMode: mode, Viper: v, TransportPool: transport.NewTransportPool(logger, v),
		DisableInternalEvents: true,
	}
}

var dpSeq int

// inject posts one uniquely valued datapoint to the ingestion endpoint; returns its id once it was accepted (202).
func inject(t vt.TB, w *world, ingestPort int) int {
	dpSeq++
	id := dpSeq
	msg := &pb.RawMessageV2{Timers: map[string]*pb.TimerTagV2{"t": {TagMap: map[string]*pb.RawTimerV2{"": {Values: []float64{float64(id)}, SampleCount: 1}}}}}
	b, _ := proto.Marshal(msg)
	deadline := time.Now().Add(30 * time.Second)
	for {
		resp, err := http.Post(fmt.Sprintf("http://127.0.0.1:%d/v2/raw", ingestPort), "application/x-protobuf", bytes.NewReader(b))
		if err == nil {
			io.Copy(io.Discard, resp.Body)
			resp.Body.Close()
			if resp.StatusCode == 202 {
				w.add(entry{kind: "accepted", id: id})
				return id
			}
		}
		if time.Now().After(deadline) {
			t.Fatalf("ingestion endpoint did not accept a datapoint within 30s: %v", err)
		}
		time.Sleep(2 * time.Millisecond)
	}
}

func postTelemetry(t vt.TB, w *world, port int, records []string, hasDone bool) {
	var arr []map[string]string
	for _, r := range records {
		arr = append(arr, map[string]string{"type": r})
	}
	b, _ := json.Marshal(arr)
	if hasDone {
		w.add(entry{kind: "runtime-done-posted"})
	}
	deadline := time.Now().Add(30 * time.Second)
	for {
		resp, err := http.Post(fmt.Sprintf("http://127.0.0.1:%d/telemetry", port), "application/json", bytes.NewReader(b))
		if err == nil {
			io.Copy(io.Discard, resp.Body)
			resp.Body.Close()
			return
		}
		if time.Now().After(deadline) {
			t.Fatalf("telemetry endpoint unreachable: %v", err)
		}
		time.Sleep(2 * time.Millisecond)
	}
}

func waitNext(t vt.TB, w *world, want int, history []string) {
	select {
	case n := <-w.nextSeen:
		if n != want {
			vt.Fail(t, "C20:next-count", "expected /event/next request number %d, got number %d; history %v", want, n, history)
		}
	case <-time.After(30 * time.Second):
		vt.Fail(t, "C20:next-never-requested", "the extension did not request /event/next number %d within 30s; history %v", want, history)
	}
}

// checkOrder: every datapoint accepted before the given runtime-done (or before subscribe for the initial flush) is
// in an upstream request that finished before /event/next number n was requested.
func checkOrder(t vt.TB, w *world, history []string) {
	log := w.snapshot()
	finishedBefore := func(pos int) map[int]bool {
		done := map[int]bool{}
		for _, e := range log[:pos] {
			if e.kind == "upstream-end" {
				for _, id := range e.ids {
					done[id] = true
				}
			}
		}
		return done
	}
	var acceptedSoFar []int
	var mustBeFlushed []int // accepted before the latest flush trigger (subscribe or runtime-done)
	var triggerAt time.Time
	nextNo := 0
	extra := 0
	for i, e := range log {
		switch e.kind {
		case "accepted":
			acceptedSoFar = append(acceptedSoFar, e.id)
		case "subscribe", "runtime-done-posted":
			mustBeFlushed = append([]int(nil), acceptedSoFar...)
			triggerAt = e.at
		case "next-request":
			nextNo++
			done := finishedBefore(i)
			for _, id := range mustBeFlushed {
				if !done[id] {
					if w.retryBudget > 0 && e.at.Sub(triggerAt) >= w.retryBudget-2*time.Second {
						// attempts that never reached the upstream leave no trace of the datapoints there; the delivery may have
						// been given up, which takes the retry budget less one back-off (at most 0.75 s) - not before
						continue
					}
					vt.WriteCase(map[string]interface{}{"history": history, "log": describe(log)})
					vt.Fail(t, "C20:next-before-flush-finished", "/event/next number %d was requested although datapoint %d, accepted before the preceding flush trigger, is in no upstream request that had finished; history %v; log %v", nextNo, id, history, describe(log))
				}
			}
		case "init-error", "exit-error":
			extra++
		}
	}
}

func describe(log []entry) []string {
	var out []string
	for _, e := range log {
		switch e.kind {
		case "accepted", "next-request":
			out = append(out, fmt.Sprintf("%s(%d)", e.kind, e.id))
		case "upstream-begin", "upstream-end":
			out = append(out, fmt.Sprintf("%s%v", e.kind, e.ids))
		default:
			out = append(out, e.kind)
		}
	}
	return out
}

func TestExtensionOrdering(t *testing.T) {
	rapid.Check(t, func(t *rapid.T) {
		latencies := rapid.SliceOfN(rapid.SampledFrom([]int{0, 0, 5, 20, 40}), 8, 8).Draw(t, "upstream-latency-ms")
		outcomes := rapid.SliceOfN(rapid.SampledFrom([]string{"2xx", "2xx", "2xx", "5xx", "close"}), 8, 8).Draw(t, "upstream-outcomes")
		// occasionally one upstream call takes longer than any round-number patience a heartbeat could have (1 s; 2.5 s
		// and 5.5 s in the thorough tier): the next-event request must still wait for it
		slowLabel := ""
		if rapid.IntRange(0, 5).Draw(t, "slow-upstream") == 0 {
			pool := []int{1200}
			if vt.Tier() == "thorough" {
				pool = []int{1200, 2500, 5500}
			}
			ms := rapid.SampledFrom(pool).Draw(t, "slow-ms")
			latencies[rapid.IntRange(0, 3).Draw(t, "slow-call")] = ms
			slowLabel = fmt.Sprintf("slow-upstream=%dms", ms)
		}
		var umu sync.Mutex
		ui, oi := 0, 0
		w := &world{nextCh: make(chan string), nextSeen: make(chan int, 16), subHold: make(chan struct{})}
		// an invocation is an invocation whatever its request id: retried invocations arrive under the id of the first attempt
		w.idRepeat = rapid.SampledFrom([]int{1, 1, 1, 2, 3, 1000}).Draw(t, "invocations-per-request-id")
		w.upLatency = func() time.Duration {
			umu.Lock()
			defer umu.Unlock()
			d := latencies[ui%len(latencies)]
			ui++
			return time.Duration(d) * time.Millisecond
		}
		w.upOutcome = func() string {
			umu.Lock()
			defer umu.Unlock()
			o := outcomes[oi%len(outcomes)]
			oi++
			return o
		}
		api := httptest.NewServer(w.lambdaAPI())
		defer api.Close()
		up := httptest.NewServer(w.upstream())
		defer up.Close()
		ingestPort, telePort := freePort(), freePort()
		forwarderTuning = map[string]interface{}{
			"consolidator-slots": rapid.SampledFrom([]interface{}{1, 2, 4, nil}).Draw(t, "consolidator-slots"), // nil: unset, defaults to max-parsers
			"concurrent-merge":   rapid.SampledFrom([]int{1, 1, 2, 3}).Draw(t, "concurrent-merge"),
			"max-requests":       rapid.SampledFrom([]int{1, 2, 1000}).Draw(t, "max-requests"),
			"compress":           rapid.Bool().Draw(t, "compress"),
			// retries off (the harness' default), or a retry budget: a delivery that fails throughout it is given up, and the next
			// flush still has to make its own attempt
			"max-request-elapsed-time": rapid.SampledFrom([]string{"-1ns", "-1ns", "300ms"}).Draw(t, "max-request-elapsed-time"),
		}
		// one case in twelve: a retry budget of 5 s and one upstream call (of the first four) dropped before it was read. The
		// forwarder's retry, 0.25 - 0.75 s later, gets through; the flush is over only then
		if rapid.IntRange(0, 11).Draw(t, "first-attempt-never-arrives") == 0 {
			forwarderTuning["max-request-elapsed-time"] = "5s"
			w.retryBudget = 5 * time.Second
			k := rapid.IntRange(0, 3).Draw(t, "call-that-never-arrives")
			outcomes[k], outcomes[(k+1)%len(outcomes)] = "reset", "2xx"
		}
		srv := newServer(up.URL, ingestPort, "forwarder")
		srv.MaxParsers = rapid.SampledFrom([]int{1, 1, 3}).Draw(t, "max-parsers")
		// rarely the gostatsd server comes up slowly: its forwarder registers with the flush coordinator only after the
		// manager's start-up allowance (100 ms) has passed and the initial flush has been asked for. Same wiring as
		// lambda.NewExtension, with the server's Run held back by the harness.
		slowStart := rapid.IntRange(0, 7).Draw(t, "server-starts-after-initial-flush") == 0
		var ext interface{ Run(context.Context) error }
		var slowFC verifhooks.Coordinator
		startServer := make(chan struct{})
		if slowStart {
			slowFC = verifhooks.NewFlushCoordinator()
			s2 := *srv
			s2.ForwarderFlushCoordinator = slowFC
			ext = verifhooks.NewExtensionManager(strings.TrimPrefix(api.URL, "http://"), "gostatsd", logrus.StandardLogger(), heldServer{srv: &s2, start: startServer}, slowFC, fmt.Sprintf("127.0.0.1:%d", telePort))
		} else {
			var err error
			ext, err = lambda.NewExtension(logrus.StandardLogger(), srv, lambda.Options{RuntimeAPI: strings.TrimPrefix(api.URL, "http://"), ExecutableName: "gostatsd", EnableManualFlush: true, TelemetryAddr: fmt.Sprintf("127.0.0.1:%d", telePort)})
			if err != nil {
				t.Fatalf("NewExtension: %v", err)
			}
		}
		ctx, cancel := context.WithCancel(context.Background())
		runDone := make(chan error, 1)
		go func() { runDone <- ext.Run(ctx) }()
		var history []string
		nontrivial := false
		defer func() {
			cancel()
			select {
			case <-runDone:
			case <-time.After(30 * time.Second):
				vt.Fail(t, "C20:run-does-not-return", "extension Run did not return within 30s after cancellation")
			}
		}()

		// start-up: datapoints accepted while the telemetry subscription is still being answered must be covered by the initial flush
		n0 := rapid.IntRange(0, 2).Draw(t, "startup-datapoints")
		if slowStart {
			n0 = 0 // nothing listens yet
		}
		for i := 0; i < n0; i++ {
			inject(t, w, ingestPort)
		}
		history = append(history, fmt.Sprintf("startup: %d datapoints, then subscribe answered", n0))
		close(w.subHold)
		if slowStart {
			time.Sleep(time.Duration(rapid.SampledFrom([]int{180, 300}).Draw(t, "server-start-delay-ms")) * time.Millisecond)
			close(startServer)
			history = append(history, "the gostatsd server started only after the start-up allowance")
			// Today the extension then never asks for an event (its initial flush found nobody to notify it). That is outside
			// the statement; what the statement covers is the order of things IF it does ask.
			select {
			case n := <-w.nextSeen:
				w.nextSeen <- n
			case <-time.After(1500 * time.Millisecond):
				cancel()
				slowFC.NotifyFlush() // lets the parked heartbeat see the cancellation
				ev.C().Case("slow-start-no-event-requested", false, "slow-start", "slow-start-extension-idle")
				return
			}
		}
		select {
		case n := <-w.nextSeen:
			if n != 1 {
				vt.Fail(t, "C20:next-count", "first /event/next has number %d", n)
			}
		case err := <-runDone:
			runDone <- err
			if err != nil && strings.Contains(err.Error(), "address already in use") {
				ev.C().Excluded("port-collision-with-another-process", 1)
				t.Skip("a harness port was taken by another process")
			}
			vt.Fail(t, "C20:next-never-requested", "the extension stopped before requesting /event/next: %v; log %v", err, describe(w.snapshot()))
		case <-time.After(30 * time.Second):
			vt.Fail(t, "C20:next-never-requested", "the extension did not request the first /event/next within 30s; history %v; log %v", history, describe(w.snapshot()))
		}
		checkOrder(t, w, history)

		invocations := rapid.IntRange(1, 5).Draw(t, "invocations")
		busy := rapid.IntRange(0, 7).Draw(t, "chatty-function") == 0 // dozens of datapoints per invocation: hundreds over the sandbox's life
		if busy {
			invocations = rapid.IntRange(3, 6).Draw(t, "chatty-invocations")
		}
		for inv := 1; inv <= invocations; inv++ {
			w.nextCh <- "INVOKE"
			nd := rapid.IntRange(0, 4).Draw(t, "datapoints")
			if busy {
				nd = rapid.IntRange(20, 45).Draw(t, "chatty-datapoints")
			}
			for i := 0; i < nd; i++ {
				inject(t, w, ingestPort)
			}
			batches := rapid.IntRange(1, 3).Draw(t, "telemetry-batches")
			doneIn := rapid.IntRange(0, batches-1).Draw(t, "runtime-done-batch")
			for b := 0; b < batches; b++ {
				recs := rapid.SliceOfN(rapid.SampledFrom([]string{"platform.start", "platform.report", "platform.initStart", "function", "platform.runtimeDoneX", "platform.logsDropped", "platform.initRuntimeDone", "platform.restoreRuntimeDone", "platform.initReport", "platform.restoreStart", "platform.extension", "platform.telemetrySubscription", "extension", "platform.runtimedone", "Platform.RuntimeDone"}), 0, 3).Draw(t, "records")
				if b == doneIn {
					pos := rapid.IntRange(0, len(recs)).Draw(t, "done-pos")
					recs = append(recs[:pos], append([]string{"platform.runtimeDone"}, recs[pos:]...)...)
				}
				postTelemetry(t, w, telePort, recs, b == doneIn)
				if b == doneIn {
					// datapoints accepted after the runtime-done record are not covered by this invocation's flush
					if rapid.Bool().Draw(t, "late-datapoint") {
						inject(t, w, ingestPort)
					}
				}
			}
			history = append(history, fmt.Sprintf("invocation %d: %d datapoints, %d telemetry batches (runtimeDone in batch %d)", inv, nd, batches, doneIn))
			waitNext(t, w, inv+1, history)
			checkOrder(t, w, history)
			if nd > 0 {
				umu.Lock()
				for _, l := range latencies[:min(ui, len(latencies))] {
					if l > 0 {
						nontrivial = true
					}
				}
				umu.Unlock()
			}
		}
		w.nextCh <- "SHUTDOWN"
		// exactly one /event/next per invocation (+ the first one): no further request may arrive
		select {
		case n := <-w.nextSeen:
			vt.Fail(t, "C20:next-count", "an extra /event/next request (number %d) arrived after SHUTDOWN; history %v", n, history)
		case <-time.After(30 * time.Millisecond):
		}
		for _, e := range w.snapshot() {
			if e.kind == "init-error" {
				vt.Fail(t, "C20:unexpected-init-error", "init error reported although the server started; history %v", history)
			}
		}
		if ev.C().WantSample() {
			ev.C().Sample(map[string]interface{}{"history": history, "latencies_ms": latencies, "outcomes": outcomes, "log": describe(w.snapshot())})
		}
		labels := []string{fmt.Sprintf("invocations=%d", invocations)}
		if slowStart {
			labels = append(labels, "slow-start", "slow-start-events-requested")
		}
		if slowLabel != "" {
			labels = append(labels, slowLabel)
		}
		ev.C().Case(fmt.Sprintf("%v|%v|%v", history, latencies, outcomes), nontrivial, labels...)
	})
}

// heldServer is the gostatsd server, started when the harness says so.
type heldServer struct {
	srv   *statsd.Server
	start chan struct{}
}

func (h heldServer) Run(ctx context.Context) error {
	select {
	case <-h.start:
	case <-ctx.Done():
		return ctx.Err()
	}
	return h.srv.Run(ctx)
}

func min(a, b int) int {
	if a < b {
		return a
	}
	return b
}

// TestStartupFailure: a server that fails during start-up is reported to /init/error and /event/next is never requested.
func TestStartupFailure(t *testing.T) {
	rapid.Check(t, func(t *rapid.T) {
		w := &world{nextCh: make(chan string), nextSeen: make(chan int, 16), subHold: make(chan struct{})}
		close(w.subHold)
		w.upLatency = func() time.Duration { return 0 }
		w.upOutcome = func() string { return "2xx" }
		api := httptest.NewServer(w.lambdaAPI())
		defer api.Close()
		up := httptest.NewServer(w.upstream())
		defer up.Close()
		cause := rapid.SampledFrom([]string{"bad-server-mode", "no-api-endpoint", "ingest-port-in-use"}).Draw(t, "cause")
		ingestPort, telePort := freePort(), freePort()
		srv := newServer(up.URL, ingestPort, "forwarder")
		var blocker net.Listener
		switch cause {
		case "bad-server-mode":
			srv.ServerMode = "nonsense"
		case "no-api-endpoint":
			srv.Viper.Set("http-transport", map[string]interface{}{"api-endpoint": ""})
		case "ingest-port-in-use":
			// the ingestion web server cannot bind: it logs and stops, which is not a start-up failure of Server.Run;
			// the extension keeps going. Only the first two causes must end in /init/error.
			blocker, _ = net.Listen("tcp", fmt.Sprintf("127.0.0.1:%d", ingestPort))
		}
		if blocker != nil {
			defer blocker.Close()
		}
		manual := rapid.Bool().Draw(t, "manual-flush")
		ext, err := lambda.NewExtension(logrus.StandardLogger(), srv, lambda.Options{RuntimeAPI: strings.TrimPrefix(api.URL, "http://"), ExecutableName: "gostatsd", EnableManualFlush: manual, TelemetryAddr: fmt.Sprintf("127.0.0.1:%d", telePort)})
		if err != nil {
			t.Fatalf("NewExtension: %v", err)
		}
		ctx, cancel := context.WithCancel(context.Background())
		defer cancel()
		runDone := make(chan error, 1)
		go func() { runDone <- ext.Run(ctx) }()
		if cause == "ingest-port-in-use" {
			select {
			case <-w.nextSeen:
			case <-time.After(30 * time.Second):
				vt.Fail(t, "C20:next-never-requested", "extension with a healthy server never requested /event/next")
			}
			cancel()
			<-runDone
			ev.C().Case(fmt.Sprintf("S|%s|%v", cause, manual), false, "startup-ok-control")
			return
		}
		select {
		case err := <-runDone:
			if err == nil {
				vt.Fail(t, "C20:startup-failure-not-reported", "Run returned nil although the server failed to start (%s)", cause)
			}
		case <-time.After(30 * time.Second):
			vt.Fail(t, "C20:startup-failure-not-reported", "Run did not return within 30s although the server failed to start (%s)", cause)
		}
		initErr, nexts := 0, 0
		for _, e := range w.snapshot() {
			switch e.kind {
			case "init-error":
				initErr++
			case "next-request":
				nexts++
			}
		}
		if initErr != 1 || nexts != 0 {
			vt.Fail(t, "C20:startup-failure-not-reported", "server failed to start (%s): /init/error called %d times, /event/next requested %d times; log %v", cause, initErr, nexts, describe(w.snapshot()))
		}
		ev.C().Case(fmt.Sprintf("S|%s|%v", cause, manual), true, "startup-failure", "cause="+cause)
	})
}

// stubServer is a server whose Run ends the way the case says: after a delay, with a drawn error.
type stubServer struct {
	after time.Duration
	err   error
}

func (s stubServer) Run(ctx context.Context) error {
	select {
	case <-time.After(s.after):
		return s.err
	case <-ctx.Done():
		return ctx.Err()
	}
}

// TestStartupFailureKinds: the extension manager around a stub server whose Run fails inside the start-up window with
// errors of different shapes - plain, wrapping a deadline or cancellation of some *inner* context (a start-up probe
// that timed out), or nil (an early exit). The extension's own context is alive in every case, so every one of them is
// a start-up failure: /init/error is called once and /event/next never.
var startupPatienceMs int64 = 10000

func TestStartupFailureKinds(t *testing.T) {
	rapid.Check(t, func(t *rapid.T) {
		w := &world{nextCh: make(chan string), nextSeen: make(chan int, 16), subHold: make(chan struct{})}
		// the runtime answers the telemetry subscription (only made with per-invocation flushing) at once or slowly: the
		// server's failure may then already be waiting when the manager gets to look
		subDelay := time.Duration(rapid.SampledFrom([]int{0, 0, 150, 300}).Draw(t, "subscription-answered-after-ms")) * time.Millisecond
		var once sync.Once
		release := func() { once.Do(func() { close(w.subHold) }) }
		if subDelay == 0 {
			release()
		} else {
			time.AfterFunc(subDelay, release)
			defer release()
		}
		api := httptest.NewServer(w.lambdaAPI())
		defer api.Close()
		kind := rapid.SampledFrom([]string{"plain", "wraps-deadline-exceeded", "wraps-canceled", "bare-deadline-exceeded", "bare-canceled", "nil-early-exit", "joined"}).Draw(t, "error-kind")
		var err error
		switch kind {
		case "plain":
			err = fmt.Errorf("listen udp :8125: bind: address already in use")
		case "wraps-deadline-exceeded":
			err = fmt.Errorf("start-up probe: %w", context.DeadlineExceeded)
		case "wraps-canceled":
			err = fmt.Errorf("start-up step aborted: %w", context.Canceled)
		case "bare-deadline-exceeded":
			err = context.DeadlineExceeded
		case "bare-canceled":
			err = context.Canceled
		case "joined":
			err = fmt.Errorf("backend init: %w; also %v", context.DeadlineExceeded, "x")
		}
		after := time.Duration(rapid.SampledFrom([]int{0, 1, 20}).Draw(t, "fails-after-ms")) * time.Millisecond
		manual := rapid.Bool().Draw(t, "manual-flush")
		var fc verifhooks.Coordinator
		if manual {
			fc = verifhooks.NewFlushCoordinator()
		}
		m := verifhooks.NewExtensionManager(strings.TrimPrefix(api.URL, "http://"), "gostatsd", logrus.StandardLogger(), stubServer{after: after, err: err}, fc, fmt.Sprintf("127.0.0.1:%d", freePort()))
		ctx, cancel := context.WithCancel(context.Background())
		defer cancel()
		runDone := make(chan error, 1)
		go func() { runDone <- m.Run(ctx) }()
		select {
		case rerr := <-runDone:
			if rerr == nil {
				vt.Fail(t, "C20:startup-failure-not-reported", "Run returned nil although the server's Run ended during start-up (%s after %v)", kind, after)
			}
			if strings.Contains(rerr.Error(), "address already in use") && kind != "plain" {
				ev.C().Excluded("port-collision-with-another-process", 1)
				t.Skip("a harness port was taken by another process")
			}
		case <-time.After(time.Duration(atomic.LoadInt64(&startupPatienceMs)) * time.Millisecond):
			// once this has failed, the attempts rapid makes while minimising the case wait 1.5 s only (a healthy run takes well
			// under half a second: server failure <= 20 ms, subscription <= 300 ms, allowance 100 ms)
			atomic.StoreInt64(&startupPatienceMs, 1500)
			vt.Fail(t, "C20:startup-failure-not-reported", "Run did not return within 10s although the server's Run ended during start-up (%s after %v, subscription answered after %v); log %v", kind, after, subDelay, describe(w.snapshot()))
		}
		initErr, nexts := 0, 0
		for _, e := range w.snapshot() {
			switch e.kind {
			case "init-error":
				initErr++
			case "next-request":
				nexts++
			}
		}
		if initErr != 1 || nexts != 0 {
			vt.Fail(t, "C20:startup-failure-not-reported", "server Run ended during start-up (%s after %v): /init/error called %d times, /event/next requested %d times; log %v", kind, after, initErr, nexts, describe(w.snapshot()))
		}
		ev.C().Case(fmt.Sprintf("K|%s|%v|%v|%v", kind, after, manual, subDelay), kind != "plain", "startup-failure", "error-kind="+kind, fmt.Sprintf("subscription-delay=%v", subDelay))
	})
}
