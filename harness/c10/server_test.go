package c10

import (
	"testing"

	"pgregory.net/rapid"

	"verifharness/internal/srvcheck"
)

// TestWholeServer: the property at the level of a whole statsd.Server assembled from its settings (see srvcheck).
func TestWholeServer(t *testing.T) {
	rapid.Check(t, func(t *rapid.T) { srvcheck.Run(t, "C10") })
}
