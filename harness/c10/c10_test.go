package c10

import (
	"context"
	"fmt"
	"io"
	"regexp"
	"sort"
	"strings"
	"testing"

	"github.com/atlassian/gostatsd"
	"github.com/atlassian/gostatsd/pkg/statsd"
	"github.com/sirupsen/logrus"
	"github.com/spf13/viper"
	"pgregory.net/rapid"

	"verifharness/internal/ev"
	"verifharness/internal/fakes"
	"verifharness/internal/gen"
	"verifharness/internal/model"
	"verifharness/internal/vt"
)

func TestMain(m *testing.M) {
	logrus.SetOutput(io.Discard)
	ev.C().Rule("rapid: 0..4 filters, each with 0..3 patterns per list from {exact, prefix*, !exact, !prefix*, regex:, !regex:} over a small name/tag alphabet, drop flags; static tag lists with duplicates and droppable tags; metric maps of all four types whose series differ only in droppable tags or host (forced collisions) and carry duplicate tags; events. Oracle: tag-stage model written from FILTERING.md + reference merge; pattern semantics against strings/regexp directly. Non-trivial = >= 2 filters with >= 1 satisfied and (a collision after dropping tags or an inverted pattern deciding the outcome)")
	vt.Main(m)
}

var names = []string{"a", "ab", "abc", "global.x", "noisy.a", "noisy.butok.a", "b"}
var tags = []string{"host:h1", "host:h2", "env:prod", "env:dev", "request_path:/a", "request_path:/b", "k:v", "k", "ab", "abc"}
var exacts = []string{"a", "ab", "abc", "host:h1", "env:prod", "k", "k:v", "global.x", "noisy.a", ""}
var prefixes = []string{"a*", "ab*", "host:*", "env:*", "request_path:*", "global.*", "noisy.*", "noisy.butok.*", "*", "k*"}
var regexes = []string{"regex:^a", "regex:b$", "regex:.*abc.*", "regex:^host:h[12]$", "regex:o", "regex:^noisy\\.", "regex:path:/a", "regex:^$"}

// pattern is the reference semantics of one match string, written directly from FILTERING.md.
type pattern struct {
	src string
}

func (p pattern) match(s string) bool {
	t := p.src
	inv := strings.HasPrefix(t, "!")
	if inv {
		t = t[1:]
	}
	var m bool
	switch {
	case strings.HasPrefix(t, "regex:"):
		m = regexp.MustCompile(t[len("regex:"):]).MatchString(s)
	case strings.HasSuffix(t, "*"):
		m = strings.HasPrefix(s, t[:len(t)-1])
	default:
		m = s == t
	}
	return m != inv
}

func patternGen() *rapid.Generator[string] {
	return rapid.Custom(func(t *rapid.T) string {
		var s string
		switch rapid.IntRange(0, 2).Draw(t, "kind") {
		case 0:
			s = rapid.SampledFrom(exacts).Draw(t, "exact")
		case 1:
			s = rapid.SampledFrom(prefixes).Draw(t, "prefix")
		default:
			s = rapid.SampledFrom(regexes).Draw(t, "regex")
		}
		if rapid.IntRange(0, 3).Draw(t, "invert") == 0 {
			s = "!" + s
		}
		return s
	})
}

type filterSpec struct {
	MatchMetrics, ExcludeMetrics, MatchTags, DropTags []string
	DropMetric, DropHost                              bool
}

func filterGen() *rapid.Generator[filterSpec] {
	return rapid.Custom(func(t *rapid.T) filterSpec {
		l := func(label string) []string {
			if rapid.Bool().Draw(t, label+"-empty") {
				return nil
			}
			return rapid.SliceOfN(patternGen(), 1, 3).Draw(t, label)
		}
		return filterSpec{MatchMetrics: l("match-metrics"), ExcludeMetrics: l("exclude-metrics"), MatchTags: l("match-tags"), DropTags: l("drop-tags"),
			DropMetric: rapid.IntRange(0, 4).Draw(t, "drop-metric") == 0, DropHost: rapid.IntRange(0, 2).Draw(t, "drop-host") == 0}
	})
}

func toList(ps []string) gostatsd.StringMatchList {
	var l gostatsd.StringMatchList
	for _, p := range ps {
		l = append(l, gostatsd.NewStringMatch(p))
	}
	return l
}

func anyMatch(ps []string, s string) bool {
	for _, p := range ps {
		if (pattern{p}).match(s) {
			return true
		}
	}
	return false
}

// stage is the reference model of the tag stage for one metric.
// Returns dropped, the resulting tag set, the resulting source, and whether an inverted pattern took part in a decision.
func stage(filters []filterSpec, static []string, name string, tags []string, source string) (bool, []string, string, int) {
	drop := map[string]bool{}
	satisfied := 0
	for _, f := range filters {
		if len(f.MatchMetrics) > 0 && !anyMatch(f.MatchMetrics, name) {
			continue
		}
		if anyMatch(f.ExcludeMetrics, name) {
			continue
		}
		if len(f.MatchTags) > 0 {
			ok := false
			for _, tg := range tags {
				if anyMatch(f.MatchTags, tg) {
					ok = true
				}
			}
			if !ok {
				continue
			}
		}
		satisfied++
		if f.DropMetric {
			return true, nil, "", satisfied
		}
		for _, tg := range tags {
			if anyMatch(f.DropTags, tg) {
				drop[tg] = true
			}
		}
		if f.DropHost {
			source = ""
		}
	}
	set := map[string]bool{}
	for _, tg := range tags {
		if !drop[tg] {
			set[tg] = true
		}
	}
	for _, tg := range static {
		if !drop[tg] {
			set[tg] = true
		}
	}
	var out []string
	for tg := range set {
		out = append(out, tg)
	}
	sort.Strings(out)
	return false, out, source, satisfied
}

func TestPatternSemantics(t *testing.T) {
	rapid.Check(t, func(t *rapid.T) {
		p := patternGen().Draw(t, "pattern")
		s := rapid.OneOf(rapid.SampledFrom(names), rapid.SampledFrom(tags), rapid.SampledFrom([]string{"", "xyz", "abcd", "ABC", "xyz.abc.123", "a*"})).Draw(t, "subject")
		got := gostatsd.NewStringMatch(p).Match(s)
		want := (pattern{p}).match(s)
		if got != want {
			vt.Fail(t, "C10:pattern", "pattern %q on %q: Match=%v, documented meaning gives %v", p, s, got, want)
		}
		ev.C().Case("P|"+p+"|"+s, strings.HasPrefix(p, "!"), "pattern-semantics")
	})
}

// TestPatternLongLived: one compiled pattern, as a filter holds it for the life of the server, asked about a long
// sequence of subjects - up to 300 distinct generated names with repeats. Every answer is the documented meaning of the
// pattern for that subject, whatever it was asked before.
func TestPatternLongLived(t *testing.T) {
	rapid.Check(t, func(t *rapid.T) {
		p := patternGen().Draw(t, "pattern")
		sm := gostatsd.NewStringMatch(p)
		ref := pattern{p}
		n := rapid.SampledFrom([]int{10, 80, 300}).Draw(t, "subjects")
		stem := rapid.SampledFrom([]string{"service.endpoint", "noisy.", "a", "host:h", "shard:"}).Draw(t, "stem")
		pool := append([]string{}, names...)
		pool = append(pool, tags...)
		for i := 0; i < n; i++ {
			pool = append(pool, fmt.Sprintf("%s%d", stem, i))
		}
		asks := rapid.IntRange(n, 3*n).Draw(t, "asks")
		matched, unmatched := 0, 0
		for i := 0; i < asks; i++ {
			var s string
			if i < len(pool) {
				s = pool[i] // every subject once, in order ...
			} else {
				s = rapid.SampledFrom(pool).Draw(t, "subject") // ... then again in a drawn order
			}
			got, want := sm.Match(s), ref.match(s)
			if got != want {
				vt.Fail(t, "C10:pattern", "pattern %q, asked about %d subjects before: on %q Match=%v, the documented meaning gives %v", p, i, s, got, want)
			}
			if want {
				matched++
			} else {
				unmatched++
			}
		}
		ev.C().Case(fmt.Sprintf("L|%s|%s|%d|%d", p, stem, n, asks), matched > 0 && unmatched > 0 && n >= 80, "pattern-long-lived")
	})
}

func metricGen() *rapid.Generator[*gostatsd.Metric] {
	return rapid.Custom(func(t *rapid.T) *gostatsd.Metric {
		m := &gostatsd.Metric{
			Type:      rapid.SampledFrom(gen.Types).Draw(t, "type"),
			Name:      rapid.SampledFrom(names).Draw(t, "name"),
			Source:    gostatsd.Source(rapid.SampledFrom([]string{"", "1.1.1.1", "2.2.2.2"}).Draw(t, "source")),
			Rate:      1,
			Timestamp: gostatsd.Nanotime(rapid.Int64Range(1, 4).Draw(t, "ts")),
		}
		n := rapid.IntRange(0, 4).Draw(t, "ntags")
		for i := 0; i < n; i++ { // duplicates allowed
			m.Tags = append(m.Tags, rapid.SampledFrom(tags).Draw(t, "tag"))
		}
		switch m.Type {
		case gostatsd.SET:
			m.StringValue = rapid.SampledFrom([]string{"u1", "u2", "u3"}).Draw(t, "member")
		default:
			m.Value = float64(rapid.IntRange(1, 50).Draw(t, "value"))
			if m.Type != gostatsd.GAUGE {
				m.Rate = rapid.SampledFrom([]float64{1, 0.5}).Draw(t, "rate")
			}
		}
		return m
	})
}

func TestTagStage(t *testing.T) {
	rapid.Check(t, func(t *rapid.T) {
		specs := rapid.SliceOfN(filterGen(), 0, 4).Draw(t, "filters")
		// a long filter list: the drawn filters come after 60..130 filters that no generated metric satisfies (the number of filters
		// is not bounded by the configuration)
		if k := rapid.SampledFrom([]int{0, 0, 0, 0, 0, 0, 0, 60, 63, 64, 65, 130}).Draw(t, "filters-ahead"); k > 0 {
			pad := make([]filterSpec, k, k+len(specs))
			for i := range pad {
				pad[i] = filterSpec{MatchMetrics: []string{fmt.Sprintf("no.such.metric.%d", i)}, DropTags: []string{"regex:.*"}, DropHost: true}
			}
			specs = append(pad, specs...)
		}
		var filters []statsd.Filter
		for _, s := range specs {
			filters = append(filters, statsd.Filter{MatchMetrics: toList(s.MatchMetrics), ExcludeMetrics: toList(s.ExcludeMetrics), MatchTags: toList(s.MatchTags), DropTags: toList(s.DropTags), DropMetric: s.DropMetric, DropHost: s.DropHost})
		}
		static := rapid.SliceOfN(rapid.SampledFrom([]string{"static:1", "env:prod", "host:h1", "k", "static:1", "region:us"}), 0, 4).Draw(t, "static-tags")
		points := rapid.SliceOfN(metricGen(), 0, 14).Draw(t, "datapoints")
		// twins: the same datapoint once more with one of its tags repeated - a different key on arrival, the same series
		// after de-duplication, whatever the filters and static tags are (also with none of either)
		if rapid.IntRange(0, 2).Draw(t, "duplicate-tag-twins") == 0 {
			if rapid.Bool().Draw(t, "plain-stage") {
				specs, static, filters = nil, nil, nil
			}
			var twins []*gostatsd.Metric
			for _, m := range points {
				if len(m.Tags) > 0 && rapid.Bool().Draw(t, "twin") {
					c := gen.CopyMetric(m)
					c.Tags = append(c.Tags, c.Tags[rapid.IntRange(0, len(c.Tags)-1).Draw(t, "repeated-tag")])
					if c.Type != gostatsd.SET {
						c.Value = float64(rapid.IntRange(1, 9).Draw(t, "twin-value"))
					}
					twins = append(twins, c)
				}
			}
			points = append(points, twins...)
		}
		// the incoming map: series keyed by their (duplicate-carrying) tag lists
		in := gostatsd.NewMetricMap(rapid.Bool().Draw(t, "forwarded"))
		for _, m := range points {
			in.Receive(gen.CopyMetric(m))
		}
		want := model.Agg{}
		collisions, inverted, satisfiedAny := 0, false, false
		seen := map[model.Key]model.Key{}
		addSeries := func(typ gostatsd.MetricType, name string, tg gostatsd.Tags, src gostatsd.Source, add func(k model.Key)) {
			dropped, nt, ns, sat := stage(specs, static, name, tg, string(src))
			if sat > 0 {
				satisfiedAny = true
			}
			if dropped {
				return
			}
			k := model.MakeKey(typ, name, nt, ns)
			orig := model.MakeKey(typ, name, tg, string(src))
			if prev, ok := seen[k]; ok && prev != orig {
				collisions++
			}
			seen[k] = orig
			add(k)
		}
		in.Counters.Each(func(n, _ string, c gostatsd.Counter) {
			addSeries(gostatsd.COUNTER, n, c.Tags, c.Source, func(k model.Key) { want.AddCounter(k, c.Value, c.Timestamp) })
		})
		in.Gauges.Each(func(n, _ string, c gostatsd.Gauge) {
			addSeries(gostatsd.GAUGE, n, c.Tags, c.Source, func(k model.Key) { want.AddGauge(k, c.Value, c.Timestamp) })
		})
		in.Timers.Each(func(n, _ string, c gostatsd.Timer) {
			vals := append([]float64(nil), c.Values...)
			addSeries(gostatsd.TIMER, n, c.Tags, c.Source, func(k model.Key) { want.AddTimer(k, vals, c.SampledCount, c.Timestamp) })
		})
		in.Sets.Each(func(n, _ string, c gostatsd.Set) {
			mem := map[string]struct{}{}
			for v := range c.Values {
				mem[v] = struct{}{}
			}
			addSeries(gostatsd.SET, n, c.Tags, c.Source, func(k model.Key) { want.AddSet(k, mem, c.Timestamp) })
		})
		for _, s := range specs {
			for _, l := range [][]string{s.MatchMetrics, s.ExcludeMetrics, s.MatchTags, s.DropTags} {
				for _, p := range l {
					if strings.HasPrefix(p, "!") {
						inverted = true
					}
				}
			}
		}

		sink := fakes.NewSink()
		th := statsd.NewTagHandler(sink, gostatsd.Tags(append([]string(nil), static...)), filters)
		if rapid.Bool().Draw(t, "filters-from-configuration") {
			// the same filters the way the server gets them: a "filters" list naming "filter.<name>" blocks (FILTERING.md)
			v := viper.New()
			var names []string
			blocks := map[string]interface{}{}
			for i, sp := range specs {
				n := fmt.Sprintf("f%d", i)
				names = append(names, n)
				b := map[string]interface{}{}
				if len(sp.MatchMetrics) > 0 {
					b["match-metrics"] = append([]string(nil), sp.MatchMetrics...)
				}
				if len(sp.ExcludeMetrics) > 0 {
					b["exclude-metrics"] = append([]string(nil), sp.ExcludeMetrics...)
				}
				if len(sp.MatchTags) > 0 {
					b["match-tags"] = append([]string(nil), sp.MatchTags...)
				}
				if len(sp.DropTags) > 0 {
					b["drop-tags"] = append([]string(nil), sp.DropTags...)
				}
				if sp.DropMetric {
					b["drop-metric"] = true
				}
				if sp.DropHost {
					b["drop-host"] = true
				}
				blocks[n] = b
			}
			if rapid.Bool().Draw(t, "names-one-missing-block") {
				names = append(names, "nosuchfilter") // named but not defined: logged and skipped
			}
			v.Set("filters", names)
			v.Set("filter", blocks)
			th = statsd.NewTagHandlerFromViper(v, sink, gostatsd.Tags(append([]string(nil), static...)))
		}
		th.DispatchMetricMap(context.Background(), gen.CopyMap(in))
		maps, _ := sink.Snapshot()
		if len(maps) > 1 {
			vt.Fail(t, "C10:map-count", "one map in, %d maps out", len(maps))
		}
		got := model.Agg{}
		for _, mm := range maps {
			if mm.Forwarded != in.Forwarded {
				vt.Fail(t, "C10:forwarded-flag", "Forwarded flag changed")
			}
			check := func(kind, n string, tg gostatsd.Tags) {
				s := map[string]bool{}
				for _, x := range tg {
					if s[x] {
						vt.Fail(t, "C10:duplicate-tag", "%s %q leaves the tag stage with duplicate tag %q: %q (filters %+v static %q)", kind, n, x, []string(tg), specs, static)
					}
					s[x] = true
				}
			}
			mm.Counters.Each(func(n, _ string, c gostatsd.Counter) { check("counter", n, c.Tags) })
			mm.Gauges.Each(func(n, _ string, c gostatsd.Gauge) { check("gauge", n, c.Tags) })
			mm.Timers.Each(func(n, _ string, c gostatsd.Timer) { check("timer", n, c.Tags) })
			mm.Sets.Each(func(n, _ string, c gostatsd.Set) { check("set", n, c.Tags) })
			if d := model.DupKeys(mm); len(d) > 0 {
				vt.Fail(t, "C10:duplicate-series", "series under two keys after the tag stage: %v", d)
			}
			if d := model.StaleKeys(mm); len(d) > 0 {
				vt.Fail(t, "C10:stale-key", "after the tag stage a series is stored under a key that is not its own: %v", d)
			}
			got.AddMap(mm)
		}
		if d := model.Diff(got, want, model.Opts{SampledTol: 1e-12}); d != "" {
			vt.WriteCase(map[string]interface{}{"filters": specs, "static": static, "in": gen.DescribeMap(in)})
			vt.Fail(t, "C10:tag-stage", "filters %+v static %q input %v: %s", specs, static, gen.DescribeMap(in), d)
		}

		// events: static tags united, de-duplicated, nothing dropped
		e := &gostatsd.Event{Title: "t", Tags: gostatsd.Tags(rapid.SliceOfN(rapid.SampledFrom(tags), 0, 4).Draw(t, "event-tags")), Source: "1.1.1.1"}
		wantTags := map[string]bool{}
		for _, x := range e.Tags {
			wantTags[x] = true
		}
		for _, x := range static {
			wantTags[x] = true
		}
		th.DispatchEvent(context.Background(), fakes.CopyEvent(e))
		_, evs := sink.Snapshot()
		if len(evs) != 1 {
			vt.Fail(t, "C10:event-count", "%d events out", len(evs))
		}
		gotTags := map[string]bool{}
		for _, x := range evs[0].Tags {
			if gotTags[x] {
				vt.Fail(t, "C10:event-duplicate-tag", "event leaves with duplicate tag %q", x)
			}
			gotTags[x] = true
		}
		if len(gotTags) != len(wantTags) || evs[0].Source != e.Source {
			vt.Fail(t, "C10:event-tags", "event tags %q want set %v (source %q)", []string(evs[0].Tags), wantTags, evs[0].Source)
		}
		for x := range wantTags {
			if !gotTags[x] {
				vt.Fail(t, "C10:event-tags", "event tags %q lack %q", []string(evs[0].Tags), x)
			}
		}

		nt := len(specs) >= 2 && satisfiedAny && (collisions > 0 || inverted)
		labels := []string{fmt.Sprintf("filters=%d", len(specs))}
		if collisions > 0 {
			labels = append(labels, "collision-after-filtering")
		}
		if inverted {
			labels = append(labels, "inverted-pattern")
		}
		if satisfiedAny {
			labels = append(labels, "some-filter-satisfied")
		}
		if ev.C().WantSample() {
			ev.C().Sample(map[string]interface{}{"filters": specs, "static": static, "in": gen.DescribeMap(in), "out": gen.DescribeMap(gostatsd.MergeMaps(append(maps, gostatsd.NewMetricMap(false))))})
		}
		ev.C().Case(fmt.Sprintf("%+v|%q|%v", specs, static, gen.DescribeMap(in)), nt, labels...)
	})
}
