package c02

import (
	"fmt"
	"strings"
	"testing"

	"github.com/atlassian/gostatsd"
	"github.com/atlassian/gostatsd/pkg/statsd"
	"github.com/atlassian/gostatsd/verifhooks"
	"pgregory.net/rapid"

	"verifharness/internal/ev"
	"verifharness/internal/gen"
	"verifharness/internal/model"
	"verifharness/internal/rig"
	"verifharness/internal/vt"
)

// TestLinesThroughParser: the lines of a datagram are exactly its newline-separated byte strings. A datagram of
// generated lines (some ending in '\r', blank, tab or other bytes that belong to the line) goes through a real
// DatagramParser; the result must be the fold of what the lexer alone yields for each of those byte strings -
// the other C02 jobs compare the lexer with the grammar, this one pins what the lexer is given.
func TestLinesThroughParser(t *testing.T) {
	l := verifhooks.NewLexer(0)
	rapid.Check(t, func(t *rapid.T) {
		ns := rapid.SampledFrom(namespaces).Draw(t, "namespace")
		k := rapid.IntRange(1, 6).Draw(t, "lines")
		var lines []string
		for i := 0; i < k; i++ {
			var line string
			switch rapid.IntRange(0, 4).Draw(t, "kind") {
			case 0:
				line = gen.Event().Draw(t, "event").Line
			default:
				line = gen.Line().Draw(t, "line").Line
			}
			line += rapid.SampledFrom([]string{"", "", "", "\r", " ", "\t", "|", "\r\r"}).Draw(t, "suffix")
			if strings.ContainsAny(line, "\n\x00") {
				t.Skip("out of domain")
			}
			lines = append(lines, line)
		}
		datagram := strings.Join(lines, "\n")
		if rapid.Bool().Draw(t, "trailing-newline") {
			datagram += "\n"
		}
		// rarely: the datagram is as large as a datagram gets - exactly the receive buffer (65535 bytes, what a unix datagram
		// socket can deliver), one byte less, or the largest UDP payload - the drawn lines being its last ones
		if rapid.IntRange(0, 19).Draw(t, "full-size-datagram") == 0 {
			target := rapid.SampledFrom([]int{65535, 65535, 65534, 65507}).Draw(t, "datagram-bytes")
			if f := target - len(datagram); f >= 6 {
				filler := []string{"p" + strings.Repeat("x", f%6) + ":1|c"}
				for i := 1; i < f/6; i++ {
					filler = append(filler, "p:1|c")
				}
				lines = append(filler, lines...)
				datagram = strings.Join(filler, "\n") + "\n" + datagram
			}
		}
		r := rig.NewParser(ns, false, 0, nil)
		defer r.Cancel()
		if p := r.Feed([]*statsd.Datagram{{IP: "1.2.3.4", Msg: []byte(datagram), Timestamp: 5, DoneFunc: func() {}}}); p != "" {
			vt.Fail(t, "C02:parser-failed", "parser failed on %q: %s", datagram, p)
		}
		maps, events := r.Sink.Snapshot()
		got := model.Agg{}
		for _, mm := range maps {
			got.AddMap(mm)
		}
		want := model.Agg{}
		var wantEvents []*gostatsd.Event
		bad := 0.0
		crEnd := false
		for _, line := range lines {
			crEnd = crEnd || strings.HasSuffix(line, "\r")
			res := lex(t, l, line, ns)
			switch {
			case res.m != nil:
				m := res.m
				m.Source, m.Timestamp = "1.2.3.4", 5
				if m.Type == gostatsd.GAUGE {
					want.SetGaugeLast(model.MakeKey(m.Type, m.Name, m.Tags, string(m.Source)), m.Value, m.Timestamp)
				} else {
					want.AddMetric(m)
				}
			case res.e != nil:
				wantEvents = append(wantEvents, res.e)
			default:
				bad++
			}
		}
		if d := model.Diff(got, want, model.Opts{SampledTol: 1e-12}); d != "" {
			vt.Fail(t, "C02:line-bytes", "datagram %q (ns %q): what the parser dispatched differs from lexing each newline-separated line as it is: %s", datagram, ns, d)
		}
		if len(events) != len(wantEvents) {
			vt.Fail(t, "C02:line-bytes", "datagram %q: %d events dispatched, lexing each line as it is gives %d", datagram, len(events), len(wantEvents))
		}
		for i, e := range events {
			w := wantEvents[i]
			if e.Title != w.Title || e.Text != w.Text || e.AggregationKey != w.AggregationKey || e.SourceTypeName != w.SourceTypeName ||
				e.Priority != w.Priority || e.AlertType != w.AlertType || strings.Join(e.Tags, ",") != strings.Join(w.Tags, ",") {
				vt.Fail(t, "C02:line-bytes", "datagram %q: event %d is %+v, lexing its line as it is gives %+v", datagram, i, *e, *w)
			}
		}
		_, _, b := r.Counters()
		if b != bad {
			vt.Fail(t, "C02:line-bytes", "datagram %q: parser counted %v bad lines, lexing each line as it is rejects %v", datagram, b, bad)
		}
		ev.C().Case("P|"+ns+"|"+datagram, crEnd, "through-parser", fmt.Sprintf("lines=%d", min(k, 7)), fmt.Sprintf("full-size=%v", len(datagram) >= 65507))
		if ev.C().WantSample() {
			ev.C().Sample(map[string]interface{}{"datagram": datagram, "bad_lines": bad, "events": len(wantEvents)})
		}
	})
}
