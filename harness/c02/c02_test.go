package c02

import (
	"bytes"
	"fmt"
	"math"
	"strings"
	"testing"

	"github.com/atlassian/gostatsd"
	"github.com/atlassian/gostatsd/verifhooks"
	"pgregory.net/rapid"

	"verifharness/internal/ev"
	"verifharness/internal/gen"
	"verifharness/internal/model"
	"verifharness/internal/vt"
)

func TestMain(m *testing.M) {
	ev.C().Rule("rapid + native fuzz: (i) grammar-generated metric and event lines with the expected fields known by construction, (ii) near-miss mutations of them, (iii) arbitrary byte strings without NUL/newline; non-trivial = valid line with >= 2 optional fields or a normalised name, or a mutation/arbitrary string that triggers at least one stated rejection rule or is accepted with >= 1 tag")
	vt.Main(m)
}

var namespaces = []string{"", "ns", "a.b"}

type result struct {
	m   *gostatsd.Metric
	e   *gostatsd.Event
	err error
}

var sentinel = []byte{'\n', 0xEE, 0xEE, 0xEE, 0xEE, 0xEE, 0xEE, 0xEE}

// lex runs the real lexer on a private copy of line that sits inside a larger buffer (as in the
// datagram parser), checks that nothing beyond the line was written, copies the result and
// returns the pooled metric.
func lex(t vt.TB, l *verifhooks.Lexer, line string, ns string) result {
	buf := make([]byte, 0, len(line)+len(sentinel))
	buf = append(buf, line...)
	buf = append(buf, sentinel...)
	in := buf[:len(line)]
	var (
		m   *gostatsd.Metric
		e   *gostatsd.Event
		err error
	)
	func() {
		// a panic is C03's subject (crash-freedom); for the grammar property the line counts as not accepted
		defer func() {
			if p := recover(); p != nil {
				ev.C().Excluded("lexer-panic-(reported-by-C03)", 1)
				m, e, err = nil, nil, fmt.Errorf("panic: %v", p)
			}
		}()
		m, e, err = l.Run(in, ns)
	}()
	if !bytes.Equal(buf[len(line):len(line)+len(sentinel)], sentinel) {
		vt.Fail(t, "C02:wrote-beyond-line", "lexer modified bytes beyond the line %q", line)
	}
	// the receive buffer is re-used for the next datagram as soon as the line is parsed: a result that still points into
	// it changes with it (the datagram-level statement of this is C05's)
	for i := range in {
		in[i] = '#'
	}
	var r result
	r.err = err
	if err != nil && (m != nil || e != nil) {
		vt.Fail(t, "C02:result-with-error", "line %q: error %v together with a result", line, err)
	}
	if err == nil && (m == nil) == (e == nil) {
		vt.Fail(t, "C02:neither-or-both", "line %q: metric=%v event=%v without error", line, m, e)
	}
	if m != nil {
		c := *m
		c.Tags = m.Tags.Copy()
		c.DoneFunc = nil
		r.m = &c
		m.Done() // back to the pool: the next line re-uses the metric and its tag buffer
	}
	if e != nil {
		c := *e
		c.Tags = e.Tags.Copy()
		r.e = &c
	}
	return r
}

func wellFormedTags(t vt.TB, line string, tags gostatsd.Tags) {
	for _, tag := range tags {
		if tag == "" {
			vt.Fail(t, "C02:empty-tag", "line %q accepted with an empty tag: %q", line, []string(tags))
		}
		if strings.ContainsAny(tag, ",|") {
			vt.Fail(t, "C02:separator-in-tag", "line %q accepted with tag %q", line, tag)
		}
	}
}

// wellFormed checks what the property says about anything that is accepted.
func wellFormed(t vt.TB, line, ns string, r result) {
	if r.m != nil {
		m := r.m
		if m.Name == "" || (ns != "" && m.Name == ns+".") {
			vt.Fail(t, "C02:empty-name", "line %q accepted with an empty name", line)
		}
		if m.Type != gostatsd.SET && math.IsNaN(m.Value) {
			vt.Fail(t, "C02:nan-value", "line %q accepted with NaN value", line)
		}
		if !(m.Rate > 0) || math.IsInf(m.Rate, 0) {
			vt.Fail(t, "C02:bad-sample-rate", "line %q accepted with sample rate %v (must be finite and > 0)", line, m.Rate)
		}
		switch m.Type {
		case gostatsd.COUNTER, gostatsd.GAUGE, gostatsd.TIMER, gostatsd.SET:
		default:
			vt.Fail(t, "C02:unknown-type-accepted", "line %q accepted with type %d", line, m.Type)
		}
		wellFormedTags(t, line, m.Tags)
		// the name rule is defined for every metric line: normalise the bytes before the first ':'
		if colon := strings.IndexByte(line, ':'); colon >= 0 && line[0] != '_' {
			want := gen.NormalizeName(line[:colon])
			if ns != "" {
				want = ns + "." + want
			}
			if m.Name != want {
				vt.Fail(t, "C02:name", "line %q ns %q: name %q want %q", line, ns, m.Name, want)
			}
		}
	}
	if r.e != nil {
		wellFormedTags(t, line, r.e.Tags)
	}
}

func implications(t vt.TB, line, ns string, r result) (reasons []string) {
	reasons, excluded := model.MustReject(line)
	for _, x := range excluded {
		ev.C().Excluded(x, 1)
	}
	if len(reasons) > 0 && r.err == nil {
		vt.Fail(t, "C02:accepted:"+reasons[0], "line %q must be rejected (%v) but was accepted: metric=%+v event=%+v", line, reasons, r.m, r.e)
	}
	if r.err == nil {
		wellFormed(t, line, ns, r)
	}
	return reasons
}

func tagsEqual(a gostatsd.Tags, b []string) bool {
	if len(a) != len(b) {
		return false
	}
	for i := range a {
		if a[i] != b[i] {
			return false
		}
	}
	return true
}

func checkMetricSpec(t vt.TB, l *verifhooks.Lexer, s gen.LineSpec, ns string) (accepted bool) {
	r := lex(t, l, s.Line, ns)
	implications(t, s.Line, ns, r)
	// what the grammar subset must do
	valueOK := true
	if s.Type != gostatsd.SET {
		reasons, _ := model.MustReject(s.Line)
		valueOK = len(reasons) == 0
	}
	rateOK := !s.HasRate || (s.Rate > 0 && !math.IsInf(s.Rate, 0))
	nameOK := s.Name != ""
	if !(valueOK && rateOK && nameOK) {
		if !rateOK && r.err == nil {
			vt.Fail(t, "C02:bad-sample-rate", "line %q accepted with sample rate %v", s.Line, s.Rate)
		}
		if !nameOK && r.err == nil {
			vt.Fail(t, "C02:empty-name", "line %q accepted although its name normalises to nothing", s.Line)
		}
		return false
	}
	if r.err != nil {
		vt.Fail(t, "C02:valid-line-rejected", "documented line %q rejected: %v", s.Line, r.err)
	}
	m := r.m
	if m == nil {
		vt.Fail(t, "C02:valid-line-not-metric", "line %q did not produce a metric", s.Line)
	}
	wantName := s.Name
	if ns != "" {
		wantName = ns + "." + s.Name
	}
	if m.Name != wantName {
		vt.Fail(t, "C02:name", "line %q ns %q: name %q want %q", s.Line, ns, m.Name, wantName)
	}
	if m.Type != s.Type {
		vt.Fail(t, "C02:type", "line %q: type %v want %v", s.Line, m.Type, s.Type)
	}
	if s.Type == gostatsd.SET {
		if m.StringValue != s.ValueStr {
			vt.Fail(t, "C02:set-value", "line %q: set value %q want %q", s.Line, m.StringValue, s.ValueStr)
		}
	} else {
		if math.Float64bits(m.Value) != math.Float64bits(s.Value) {
			vt.Fail(t, "C02:value", "line %q: value %v want %v", s.Line, m.Value, s.Value)
		}
		if m.StringValue != "" {
			vt.Fail(t, "C02:string-value-left", "line %q: numeric metric keeps string value %q", s.Line, m.StringValue)
		}
	}
	if m.Rate != s.Rate {
		vt.Fail(t, "C02:rate", "line %q: rate %v want %v", s.Line, m.Rate, s.Rate)
	}
	if !tagsEqual(m.Tags, s.Tags) {
		vt.Fail(t, "C02:tags", "line %q: tags %q want %q", s.Line, []string(m.Tags), s.Tags)
	}
	if m.Source != "" || m.Timestamp != 0 || m.TagsKey != "" {
		vt.Fail(t, "C02:stale-pool-state", "line %q: metric carries stale state source=%q ts=%d tagskey=%q", s.Line, m.Source, m.Timestamp, m.TagsKey)
	}
	return true
}

func checkEventSpec(t vt.TB, l *verifhooks.Lexer, s gen.EventSpec, ns string) {
	r := lex(t, l, s.Line, ns)
	implications(t, s.Line, ns, r)
	if r.err != nil {
		vt.Fail(t, "C02:valid-event-rejected", "documented event %q rejected: %v", s.Line, r.err)
	}
	e := r.e
	if e == nil {
		vt.Fail(t, "C02:valid-event-not-event", "event line %q did not produce an event", s.Line)
	}
	w := s.Event
	if e.Title != w.Title || e.Text != w.Text || e.DateHappened != w.DateHappened || e.AggregationKey != w.AggregationKey ||
		e.SourceTypeName != w.SourceTypeName || e.Source != w.Source || e.Priority != w.Priority || e.AlertType != w.AlertType || !tagsEqual(e.Tags, w.Tags) {
		vt.Fail(t, "C02:event-fields", "event line %q: got %+v want %+v", s.Line, *e, w)
	}
}

// mutate derives a near miss from a valid line.
func mutate(t *rapid.T, line string) (string, string) {
	kind := rapid.IntRange(0, 9).Draw(t, "mutation")
	switch kind {
	case 0:
		return strings.Replace(line, ":", "", 1), "drop-first-colon"
	case 1:
		return strings.ReplaceAll(line, ":", ""), "drop-all-colons"
	case 2:
		return strings.Replace(line, "|", "", 1), "drop-first-bar"
	case 3:
		return strings.ReplaceAll(line, "|", ""), "drop-all-bars"
	case 4: // corrupt the type
		c := strings.IndexByte(line, ':')
		b := strings.IndexByte(line[c+1:], '|')
		if c < 0 || b < 0 {
			return line, "none"
		}
		p := c + 1 + b + 1
		end := strings.IndexByte(line[p:], '|')
		if end < 0 {
			end = len(line) - p
		}
		nt := rapid.SampledFrom([]string{"", "x", "m", "mss", "cs", "C", "G", "sm", "hh", "q", "ms ", " c", "c\t", "\xff"}).Draw(t, "badtype")
		return line[:p] + nt + line[p+end:], "corrupt-type"
	case 5: // non-numeric value
		c := strings.IndexByte(line, ':')
		b := strings.IndexByte(line[c+1:], '|')
		if c < 0 || b < 0 {
			return line, "none"
		}
		nv := rapid.SampledFrom([]string{"", "abc", "NaN", "nan", "+nan", "-NaN", "1,5", "1 ", " 1", "1e", "--1", "0x", "1.2.3", "١", "1e400", "in", "infin"}).Draw(t, "badvalue")
		return line[:c+1] + nv + line[c+1+b:], "corrupt-value"
	case 6: // bad rate appended
		br := rapid.SampledFrom([]string{"@", "@x", "@0.1.2", "@ 1", "@1,0", "@nan", "@NaN", "@0", "@-1", "@-0.5", "@inf", "@+Inf", "@-inf", "@1e400", "@0x", "@1e-400", "@-0"}).Draw(t, "badrate")
		return line + "|" + br, "append-rate"
	case 7: // swap two '|' fields
		parts := strings.Split(line, "|")
		if len(parts) < 3 {
			return line, "none"
		}
		i := rapid.IntRange(1, len(parts)-1).Draw(t, "i")
		j := rapid.IntRange(1, len(parts)-1).Draw(t, "j")
		parts[i], parts[j] = parts[j], parts[i]
		return strings.Join(parts, "|"), "swap-fields"
	case 8: // delete a byte
		if len(line) == 0 {
			return line, "none"
		}
		i := rapid.IntRange(0, len(line)-1).Draw(t, "del")
		return line[:i] + line[i+1:], "delete-byte"
	default: // insert a byte
		i := rapid.IntRange(0, len(line)).Draw(t, "ins")
		c := rapid.SampledFrom([]string{"|", ":", "@", "#", ",", "_", "e", "{", "}", "1", "\xff"}).Draw(t, "insbyte")
		return line[:i] + c + line[i:], "insert-byte"
	}
}

func TestGrammarLines(t *testing.T) {
	l := verifhooks.NewLexer(0)
	l4 := verifhooks.NewLexer(4)
	rapid.Check(t, func(t *rapid.T) {
		ns := rapid.SampledFrom(namespaces).Draw(t, "namespace")
		lx := l
		if rapid.Bool().Draw(t, "pooled-tag-buffer") {
			lx = l4
		}
		if rapid.IntRange(0, 3).Draw(t, "event") == 0 {
			s := gen.Event().Draw(t, "eventline")
			checkEventSpec(t, lx, s, ns)
			if ev.C().WantSample() {
				ev.C().Sample(map[string]interface{}{"line": s.Line, "expect": fmt.Sprintf("%+v", s.Event)})
			}
			ev.C().Case("E|"+ns+"|"+s.Line, s.Opt >= 2, "event", fmt.Sprintf("event-attrs=%d", s.Opt))
			return
		}
		s := gen.Line().Draw(t, "line")
		ok := checkMetricSpec(t, lx, s, ns)
		labels := []string{"type=" + s.TypeStr, fmt.Sprintf("optional-fields=%d", s.Opt)}
		if s.Normal {
			labels = append(labels, "normalised-name")
		}
		if !ok {
			labels = append(labels, "grammar-line-that-must-be-rejected")
		}
		if len(s.Fields) >= 2 {
			labels = append(labels, "order="+string(s.Fields[0][0])+string(s.Fields[1][0]))
		}
		if ev.C().WantSample() {
			ev.C().Sample(map[string]interface{}{"line": s.Line, "namespace": ns, "expect": fmt.Sprintf("name=%q value=%v/%q type=%v rate=%v tags=%q accepted=%v", s.Name, s.Value, s.ValueStr, s.Type, s.Rate, s.Tags, ok)})
		}
		ev.C().Case("M|"+ns+"|"+s.Line, s.Opt >= 2 || s.Normal, labels...)
	})
}

func TestNearMisses(t *testing.T) {
	l := verifhooks.NewLexer(2)
	rapid.Check(t, func(t *rapid.T) {
		ns := rapid.SampledFrom(namespaces).Draw(t, "namespace")
		var base string
		if rapid.IntRange(0, 3).Draw(t, "event") == 0 {
			base = gen.Event().Draw(t, "eventline").Line
		} else {
			base = gen.Line().Draw(t, "line").Line
		}
		line, kind := mutate(t, base)
		if rapid.IntRange(0, 4).Draw(t, "twice") == 0 {
			var k2 string
			line, k2 = mutate(t, line)
			kind += "+" + k2
		}
		if strings.ContainsAny(line, "\x00\n") {
			t.Skip("out of domain")
		}
		r := lex(t, l, line, ns)
		reasons := implications(t, line, ns, r)
		labels := []string{"mutation=" + kind}
		for _, x := range reasons {
			labels = append(labels, "must-reject="+x)
		}
		if r.err == nil {
			labels = append(labels, "accepted")
		} else {
			labels = append(labels, "rejected")
		}
		if ev.C().WantSample() {
			ev.C().Sample(map[string]interface{}{"base": base, "mutated": line, "mutation": kind, "must_reject": reasons, "accepted": r.err == nil})
		}
		ev.C().Case("N|"+ns+"|"+line, len(reasons) > 0 || (r.m != nil && len(r.m.Tags) > 0), labels...)
	})
}

var arbitraryPieces = []string{":", "|", "@", "#", ",", "_e{", "}", "c", "g", "ms", "h", "s", "1", "0.5", "-", ".", "e", "a", "b", "nan", "inf", " ", "\t", "/", "\xff", "\xc3\xa9", "_", "{", "d:", "h:", "p:low", "t:error", "|#", "|@", "1,1", "\\n", "\r"}

func TestArbitraryStrings(t *testing.T) {
	l := verifhooks.NewLexer(1)
	rapid.Check(t, func(t *rapid.T) {
		ns := rapid.SampledFrom(namespaces).Draw(t, "namespace")
		var line string
		if rapid.Bool().Draw(t, "bytes") {
			b := rapid.SliceOfN(rapid.ByteRange(1, 255), 0, 200).Draw(t, "raw")
			line = strings.ReplaceAll(string(b), "\n", "|")
		} else {
			n := rapid.IntRange(0, 25).Draw(t, "pieces")
			var sb strings.Builder
			for i := 0; i < n; i++ {
				sb.WriteString(rapid.SampledFrom(arbitraryPieces).Draw(t, "p"))
			}
			line = sb.String()
		}
		r := lex(t, l, line, ns)
		reasons := implications(t, line, ns, r)
		labels := []string{"arbitrary"}
		if r.err == nil {
			labels = append(labels, "arbitrary-accepted")
		}
		for _, x := range reasons {
			labels = append(labels, "must-reject="+x)
		}
		ev.C().Case("A|"+ns+"|"+line, len(reasons) > 0 || (r.m != nil && len(r.m.Tags) > 0), labels...)
	})
}

// checkBytes is the oracle used by the fuzz target and the corpus replay.
func checkBytes(t vt.TB, l *verifhooks.Lexer, data []byte, ns string) {
	if bytes.ContainsAny(data, "\x00\n") || len(data) > 65535 {
		return
	}
	line := string(data)
	r := lex(t, l, line, ns)
	implications(t, line, ns, r)
}

func FuzzLexImplications(f *testing.F) {
	for _, s := range seedLines {
		f.Add([]byte(s), byte(0))
	}
	l := verifhooks.NewLexer(2)
	f.Fuzz(func(t *testing.T, data []byte, nsi byte) {
		checkBytes(t, l, data, namespaces[int(nsi)%len(namespaces)])
		ev.C().Extra("fuzz_inputs", 1)
	})
}

// TestSeedCorpus replays the seed corpus (lines from the repository's own lexer tests plus hostile constants)
// through the same oracle without the fuzzing engine.
func TestSeedCorpus(t *testing.T) {
	l := verifhooks.NewLexer(2)
	for _, s := range seedLines {
		for _, ns := range namespaces {
			checkBytes(t, l, []byte(s), ns)
			reasons, _ := model.MustReject(s)
			ev.C().Case("S|"+ns+"|"+s, len(reasons) > 0 || strings.Contains(s, "#"), "seed-corpus")
		}
	}
}

var seedLines = []string{
	"foo.bar.baz:2|c", "abc.def.g:3|g", "def.g:10|ms", "def.h:10|h", "def.i:10|h|#foo", "smp.rte:5|c|@0.1", "smp.rte:5|c|@0.1|#foo:bar,baz",
	"smp.rte:5|c|#foo:bar,baz", "smp.gge:1|g|#fo_o:ba-r", "smp.gge:1|g|#Foo:Bar", "uniq.usr:joe|s", "fooBarBaz:2|c", "smp,gge$:1|g", "un1qu3:john|s",
	"un1qu3:john|s|#some:42", "da-sh:1|s", "under_score:1|s", "a:1|g|#f,,z", "a:1|g|#,,", "a:1|g|#,", "a:1|g|#", "c.after.tags:1|g|#f,,z|c:xyz",
	"field.order.rev.all:1|g|c:xyz|#foo:bar|@0.1", "new.last.empty:1|g|#,|c:xyz|", "new.mid.empty:1|g|#,||c:xyz", "new.first.empty:1|g||#,|c:xyz",
	"new.first.colon:1|g|:|#|c:xyz", "smp/gge:1|g", "smp gge:1|g",
	"fOO|bar:bazkk", "foo.bar.baz:1|q", "NaN.should.be:NaN|g", "bad.sampling:1|g|@", "a:1|c|@0", "a:1|c|@-1", "a:1|c|@nan", "a:1|c|@inf", "a:1|ms|@1e-400",
	"_e{1,1}:a|b", "_e{1,1}:a|b|#tag1,t:tag2", "_e{1,1}:a|b|t:warning|d:123123|h:hoost|p:low|c:xyz|#tag1,t:tag2|x:unk", "_e{6,18}:ab||_c|hello,\\nmy_friend!",
	"_e{20,34}:Deployment_completed|Deployment_completed_in_7_minutes.|d:1463746133|h:9c00cf070c14|s:Micros_Server|t:success|#topic:service.deploy",
	"_e{1,2}:a|b", "_e{2,1}:a|b", "_e{,1}:a|b", "_e{1,999999999999999999999999}:a|b", "_e{5,4294967290}:abcde|xyz", "_e{4294967295,4294967295}:a|b",
	"_e{0,0}:|", "_e{1,1}:a|b|d:9223372036854775808", "_e{1,1}:a|b|d:18446744073709551616", "_e{1,1}:a|b|p:high", "_x{1,1}:a|b", "_", "", ":", "|", "a:|c", ":1|c", "$$:1|c",
}
