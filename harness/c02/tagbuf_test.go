package c02

import (
	"fmt"
	"strings"
	"testing"

	"github.com/atlassian/gostatsd/verifhooks"
	"pgregory.net/rapid"

	"verifharness/internal/ev"
	"verifharness/internal/gen"
	"verifharness/internal/vt"
)

// TestTagBufferIndependence: what a line parses to must not depend on the capacity of the tag buffer the lexer
// happens to hold (the pool's estimated-tags setting, or whatever the recycled metric carried before). Lines here
// may carry several '#' fields between their other optional fields; every lexer must report the same result, and
// for a line with a single '#' field that result is additionally the generated tag list.
func TestTagBufferIndependence(t *testing.T) {
	caps := []int{0, 1, 2, 4, 16, 64}
	lexers := make([]*verifhooks.Lexer, len(caps))
	for i, c := range caps {
		lexers[i] = verifhooks.NewLexer(c)
	}
	warm := verifhooks.NewLexer(0)
	rapid.Check(t, func(t *rapid.T) {
		ns := rapid.SampledFrom(namespaces).Draw(t, "namespace")
		var head string
		event := rapid.IntRange(0, 2).Draw(t, "event") == 0
		if event {
			title := rapid.SampledFrom([]string{"t", "title", "a|b"}).Draw(t, "title")
			text := rapid.SampledFrom([]string{"x", "some text", ""}).Draw(t, "text")
			head = fmt.Sprintf("_e{%d,%d}:%s|%s", len(title), len(text), title, text)
		} else {
			head = rapid.SampledFrom([]string{"a:1|c", "req.time:2.5|ms", "g:3|g", "u:x|s", "h:4|h"}).Draw(t, "head")
		}
		nf := rapid.IntRange(1, 4).Draw(t, "fields")
		var fields []string
		var want []string
		tagFields := 0
		for i := 0; i < nf; i++ {
			switch rapid.IntRange(0, 3).Draw(t, "fieldkind") {
			case 0, 1:
				n := rapid.SampledFrom([]int{1, 1, 2, 3, 5, 9, 17}).Draw(t, "ntags")
				var tags []string
				for j := 0; j < n; j++ {
					tags = append(tags, gen.TagString().Draw(t, "tag"))
				}
				fields = append(fields, "#"+strings.Join(tags, ","))
				want = append(want, tags...)
				tagFields++
			case 2:
				if event {
					fields = append(fields, rapid.SampledFrom([]string{"p:low", "t:error", "k:agg", "d:5", "s:src"}).Draw(t, "attr"))
				} else {
					fields = append(fields, "@"+rapid.SampledFrom([]string{"0.5", "1", "0.1"}).Draw(t, "rate"))
				}
			default:
				if event {
					fields = append(fields, "h:host-1")
				} else {
					fields = append(fields, rapid.SampledFrom([]string{"c:container", "T1656581400"}).Draw(t, "unknown"))
				}
			}
		}
		line := head
		for _, f := range fields {
			line += "|" + f
		}
		// a lexer whose pooled metric was last used for a line with many tags
		lex(t, warm, "warm:1|c|#"+strings.Repeat("w,", rapid.IntRange(0, 40).Draw(t, "warm-tags"))+"w", "")
		all := append(append([]*verifhooks.Lexer(nil), lexers...), warm)
		var first result
		for i, l := range all {
			r := lex(t, l, line, ns)
			wellFormed(t, line, ns, r)
			if i == 0 {
				first = r
				continue
			}
			if d := sameResult(first, r); d != "" {
				name := "a lexer that just parsed a line with many tags"
				if i < len(caps) {
					name = fmt.Sprintf("a lexer with estimated-tags %d", caps[i])
				}
				vt.Fail(t, "C02:tags", "line %q parses differently under a lexer with estimated-tags %d and %s: %s", line, caps[0], name, d)
			}
		}
		if tagFields == 1 {
			var got []string
			switch {
			case first.m != nil:
				got = first.m.Tags
			case first.e != nil:
				got = first.e.Tags
			default:
				vt.Fail(t, "C02:rejected-grammar-line", "line %q was rejected: %v", line, first.err)
			}
			if strings.Join(got, ",") != strings.Join(want, ",") {
				vt.Fail(t, "C02:tags", "line %q: tags %q want %q", line, got, want)
			}
		}
		labels := []string{"tag-buffer", fmt.Sprintf("tag-fields=%d", tagFields)}
		if event {
			labels = append(labels, "event")
		}
		ev.C().Case("B|"+ns+"|"+line, tagFields >= 2, labels...)
		if ev.C().WantSample() {
			ev.C().Sample(map[string]interface{}{"line": line, "tag_fields": tagFields})
		}
	})
}

func sameResult(a, b result) string {
	if (a.err == nil) != (b.err == nil) {
		return fmt.Sprintf("accepted=%v versus accepted=%v", a.err == nil, b.err == nil)
	}
	if (a.m == nil) != (b.m == nil) || (a.e == nil) != (b.e == nil) {
		return "metric versus event"
	}
	if a.m != nil {
		if a.m.Name != b.m.Name || a.m.Type != b.m.Type || a.m.Rate != b.m.Rate || a.m.StringValue != b.m.StringValue ||
			(a.m.Value != b.m.Value && !(a.m.Value != a.m.Value && b.m.Value != b.m.Value)) {
			return fmt.Sprintf("%+v versus %+v", *a.m, *b.m)
		}
		if strings.Join(a.m.Tags, ",") != strings.Join(b.m.Tags, ",") {
			return fmt.Sprintf("tags %q versus %q", []string(a.m.Tags), []string(b.m.Tags))
		}
	}
	if a.e != nil {
		if a.e.Title != b.e.Title || a.e.Text != b.e.Text || a.e.Priority != b.e.Priority || a.e.AlertType != b.e.AlertType ||
			a.e.AggregationKey != b.e.AggregationKey || a.e.SourceTypeName != b.e.SourceTypeName || a.e.Source != b.e.Source {
			return fmt.Sprintf("%+v versus %+v", *a.e, *b.e)
		}
		if strings.Join(a.e.Tags, ",") != strings.Join(b.e.Tags, ",") {
			return fmt.Sprintf("tags %q versus %q", []string(a.e.Tags), []string(b.e.Tags))
		}
	}
	return ""
}
