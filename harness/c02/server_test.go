package c02

import (
	"fmt"
	"strings"
	"testing"
	"time"

	"github.com/atlassian/gostatsd"
	"github.com/atlassian/gostatsd/pkg/statsd"
	"pgregory.net/rapid"

	"verifharness/internal/ev"
	"verifharness/internal/model"
	"verifharness/internal/rig"
	"verifharness/internal/vt"
)

// TestLinesThroughServer: the grammar's promises about name, tags and source for lines that reach a whole statsd.Server
// assembled from its settings (namespace, ignore-host, log-raw-metric, estimated-tags) the way the gostatsd command
// assembles it: every accepted line yields exactly its name (namespace prefixed), its tags, and the source the
// ignore-host setting prescribes - the sender's address, or with ignore-host the value of the first host: tag (which
// then is not a tag any more).
func TestLinesThroughServer(t *testing.T) {
	rapid.Check(t, func(t *rapid.T) {
		ignoreHost := rapid.Bool().Draw(t, "ignore-host")
		logRaw := rapid.Bool().Draw(t, "log-raw-metric")
		ns := rapid.SampledFrom([]string{"", "", "app", "a.b"}).Draw(t, "namespace")
		est := rapid.SampledFrom([]int{0, 1, 4}).Draw(t, "estimated-tags")
		srv, err := rig.StartServer(rig.ServerConfig{Tune: func(s *statsd.Server) {
			s.IgnoreHost, s.LogRawMetric, s.Namespace, s.EstimatedTags = ignoreHost, logRaw, ns, est
		}})
		if err != nil {
			t.Skip("no loopback socket: " + err.Error())
		}
		defer srv.Stop()
		desc := fmt.Sprintf("ignore-host=%v log-raw-metric=%v namespace=%q estimated-tags=%d", ignoreHost, logRaw, ns, est)
		want := model.Agg{}
		var sent []string
		n := rapid.IntRange(1, 10).Draw(t, "lines")
		hostTagged := false
		var dg []string
		for i := 0; i < n; i++ {
			name := fmt.Sprintf("s%d", i)
			tags := rapid.SliceOfNDistinct(rapid.SampledFrom([]string{"host:web01", "aa:1", "zz:2", "host:other", "hostx:1", "k"}), 0, 4, rapid.ID[string]).Draw(t, "tags")
			val := rapid.IntRange(1, 50).Draw(t, "value")
			line := fmt.Sprintf("%s:%d|c", name, val)
			if len(tags) > 0 {
				line += "|#" + strings.Join(tags, ",")
			}
			sent = append(sent, line)
			dg = append(dg, line)
			src := "127.0.0.1"
			etags := append([]string(nil), tags...)
			if ignoreHost {
				src = ""
				for j, tg := range etags {
					if strings.HasPrefix(tg, "host:") {
						src = tg[5:]
						etags = append(etags[:j], etags[j+1:]...)
						hostTagged = true
						break
					}
				}
			} else {
				for _, tg := range etags {
					hostTagged = hostTagged || strings.HasPrefix(tg, "host:")
				}
			}
			full := name
			if ns != "" {
				full = ns + "." + name
			}
			want.AddCounter(model.MakeKey(gostatsd.COUNTER, full, etags, src), int64(val), 1)
			if len(dg) >= rapid.IntRange(1, 4).Draw(t, "lines-per-datagram") || i == n-1 {
				if err := srv.Send(strings.Join(dg, "\n")); err != nil {
					t.Skip("client socket: " + err.Error())
				}
				dg = nil
				time.Sleep(200 * time.Microsecond)
			}
		}
		if !srv.Barrier(30 * time.Second) {
			if err := srv.Stop(); err != nil && !strings.Contains(err.Error(), "context canceled") {
				vt.Fail(t, "C02:server-stopped", "the server (%s) stopped or never flushed what it was sent: %v; lines %q", desc, err, sent)
			}
			ev.C().Excluded("server-did-not-flush-within-30s", 1)
			t.Skip("no flush within 30s")
		}
		got := srv.Total(nsPrefix(ns) + "verif.")
		if d := model.Diff(got, want, model.Opts{IgnoreTimestamps: true}); d != "" {
			if len(got) < len(want) && missingOnly(got, want) {
				// a datagram may be lost between the sockets; what did arrive must be right
				ev.C().Excluded("datagram-lost-on-loopback", 1)
				t.Skip("a datagram did not arrive")
			}
			vt.Fail(t, "C02:server-line-fields", "lines sent to a server with %s came out with other names, tags or sources: %s; lines %q", desc, d, sent)
		}
		ev.C().Case(fmt.Sprintf("V|%s|%q", desc, sent), hostTagged, "through-server", fmt.Sprintf("server-ignore-host=%v", ignoreHost))
		if ev.C().WantSample() {
			ev.C().Sample(map[string]interface{}{"server": desc, "lines": sent})
		}
	})
}

func nsPrefix(ns string) string {
	if ns == "" {
		return ""
	}
	return ns + "."
}

// missingOnly: every series that did arrive is as expected (so the difference is only absent series).
func missingOnly(got, want model.Agg) bool {
	sub := model.Agg{}
	for k := range got {
		if w, ok := want[k]; ok {
			sub[k] = w
		} else {
			return false
		}
	}
	return model.Diff(got, sub, model.Opts{IgnoreTimestamps: true}) == ""
}
