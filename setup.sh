#!/bin/sh
# setup_cmd: offline; generates the harness module file from /repo/go.mod and pre-builds every check's test binary.
cd "$(dirname "$0")" || exit 2
mkdir -p .build evidence
exec ./check --build-all
