"""Per-property job tables for ./check.  Job kinds: rapid (default), plain, fuzz."""

PROPS = {}

PROPS["C06"] = {
    "pkg": "c06", "level": "exploration",
    "jobs": {
        "quick": [
            {"name": "split", "run": "^TestSplitPartition$", "checks": 36000, "shards": 4},
            {"name": "dispatch", "run": "^TestDispatchRoutesByPartIndex$", "checks": 9000, "shards": 2},
            {"name": "splitlarge", "run": "^TestSplitLargeBatch$", "checks": 240, "shards": 8},
            {"name": "server", "run": "^TestWholeServer$", "checks": 96, "shards": 16},
        ],
        "thorough": [
            {"name": "split", "run": "^TestSplitPartition$", "checks": 800000, "shards": 12, "timeout": 2400},
            {"name": "dispatch", "run": "^TestDispatchRoutesByPartIndex$", "checks": 120000, "shards": 4, "timeout": 2400},
            {"name": "splitlarge", "run": "^TestSplitLargeBatch$", "checks": 16000, "shards": 16, "timeout": 2400},
            {"name": "server", "run": "^TestWholeServer$", "checks": 6400, "shards": 16, "timeout": 2400},
        ],
    },
    "assumptions": [
        "server jobs run a whole statsd.Server in process on the real clock (100 ms flush interval) over loopback UDP; a case whose datagrams did not all arrive (only whole series missing, everything present correct) is excluded and counted, never judged; the own-socket job judges a deficit only when the kernel's drop counter for the port (/proc/net/udp) did not move",
        "series identity = (type, name, tag multiset, source); tags that contain ',' or start with 's:' are excluded because two identities then render to one map key (documented exclusion)",
    ],
}

PROPS["C07"] = {
    "pkg": "c07", "level": "exploration",
    "jobs": {
        "quick": [{"name": "probes", "kind": "plain", "run": "^TestProbe"},
                  {"name": "merge", "run": "^TestMergeArrangements$", "checks": 20000, "shards": 8}],
        "thorough": [{"name": "probes", "kind": "plain", "run": "^TestProbe"},
                     {"name": "merge", "run": "^TestMergeArrangements$", "checks": 640000, "shards": 16, "timeout": 2400}],
    },
    "assumptions": [
        "gauge ties: when several datapoints carry the newest timestamp any of their values is accepted",
        "sampled counts compared with relative tolerance 1e-9 (floating-point addition is not associative)",
        "inputs are deep-copied per arrangement (the production code hands ownership over)",
    ],
}

PROPS["C02"] = {
    "pkg": "c02", "level": "exploration",
    "jobs": {
        "quick": [
            {"name": "corpus", "kind": "plain", "run": "^TestSeedCorpus$"},
            {"name": "grammar", "run": "^TestGrammarLines$", "checks": 192000, "shards": 6},
            {"name": "nearmiss", "run": "^TestNearMisses$", "checks": 192000, "shards": 6},
            {"name": "arbitrary", "run": "^TestArbitraryStrings$", "checks": 96000, "shards": 3},
            {"name": "tagbuf", "run": "^TestTagBufferIndependence$", "checks": 48000, "shards": 3},
            {"name": "parser", "run": "^TestLinesThroughParser$", "checks": 24000, "shards": 4},
            {"name": "server", "run": "^TestLinesThroughServer$", "checks": 192, "shards": 16},
        ],
        "thorough": [
            {"name": "corpus", "kind": "plain", "run": "^TestSeedCorpus$"},
            {"name": "grammar", "run": "^TestGrammarLines$", "checks": 3200000, "shards": 6, "timeout": 2400},
            {"name": "nearmiss", "run": "^TestNearMisses$", "checks": 3200000, "shards": 6, "timeout": 2400},
            {"name": "arbitrary", "run": "^TestArbitraryStrings$", "checks": 1600000, "shards": 4, "timeout": 2400},
            {"name": "tagbuf", "run": "^TestTagBufferIndependence$", "checks": 1600000, "shards": 4, "timeout": 2400},
            {"name": "parser", "run": "^TestLinesThroughParser$", "checks": 800000, "shards": 4, "timeout": 2400},
            {"name": "server", "run": "^TestLinesThroughServer$", "checks": 8000, "shards": 16, "timeout": 2400},
            {"name": "fuzz", "kind": "fuzz", "fuzz": "FuzzLexImplications", "time": "240s", "timeout": 600},
        ],
    },
    "assumptions": [
        "server jobs run a whole statsd.Server in process on the real clock (100 ms flush interval) over loopback UDP; a case whose datagrams did not all arrive (only whole series missing, everything present correct) is excluded and counted, never judged; the own-socket job judges a deficit only when the kernel's drop counter for the port (/proc/net/udp) did not move",
        "strconv.ParseFloat (error == nil) is the definition of a parsable number",
        "documented grammar is silent, hence excluded: names starting with '_' other than '_e{', empty attribute fields (the lexer then treats the following field as unknown), event attribute values containing '|', event header numbers of more than 19 digits",
    ],
}

PROPS["C03"] = {
    "pkg": "c03", "level": "exploration", "crash_is_violation": True,
    "jobs": {
        "quick": [
            {"name": "seeds", "kind": "plain", "run": "^(TestDatagramSeeds|TestHeaderBoundaryPairs)$"},
            {"name": "lexer", "run": "^TestLexerNeverPanics$", "checks": 64000, "shards": 4},
            {"name": "parser", "run": "^TestParserAccounting$", "checks": 16000, "shards": 6},
            {"name": "http", "run": "^TestHTTPIngestion$", "checks": 12000, "shards": 5, "timeout": 900, "shrinktime": "5s"},
            {"name": "wire", "run": "^TestHTTPWire$", "checks": 4000, "shards": 4, "timeout": 900, "shrinktime": "5s"},
            {"name": "udp", "run": "^TestUDPReceiver$", "checks": 3000, "shards": 4},
            {"name": "binary", "run": "^TestBinaryConfiguredIngestion$", "checks": 64, "shards": 16, "binary": True, "shrinktime": "1s"},
        ],
        "thorough": [
            {"name": "seeds", "kind": "plain", "run": "^(TestDatagramSeeds|TestHeaderBoundaryPairs)$"},
            {"name": "lexer", "run": "^TestLexerNeverPanics$", "checks": 1600000, "shards": 5, "timeout": 2400},
            {"name": "parser", "run": "^TestParserAccounting$", "checks": 400000, "shards": 6, "timeout": 2400},
            {"name": "http", "run": "^TestHTTPIngestion$", "checks": 200000, "shards": 5, "timeout": 2400},
            {"name": "wire", "run": "^TestHTTPWire$", "checks": 120000, "shards": 6, "timeout": 2400},
            {"name": "udp", "run": "^TestUDPReceiver$", "checks": 120000, "shards": 6, "timeout": 2400},
            {"name": "binary", "run": "^TestBinaryConfiguredIngestion$", "checks": 3200, "shards": 16, "binary": True, "shrinktime": "1s", "timeout": 2400},
            {"name": "fuzz-datagram", "kind": "fuzz", "fuzz": "FuzzDatagram", "time": "180s", "timeout": 500},
            {"name": "fuzz-http-raw", "kind": "fuzz", "fuzz": "FuzzHTTPRaw", "time": "120s", "timeout": 500},
            {"name": "fuzz-http-event", "kind": "fuzz", "fuzz": "FuzzHTTPEvent", "time": "120s", "timeout": 500},
        ],
    },
    "assumptions": [
        "binary jobs run the gostatsd command built from the working tree on the real clock over loopback UDP with the stdout backend; a command that never serves (its port was taken between probe and start) or a datagram that does not arrive excludes the case (counted in the evidence) and is never a violation; a command that exits after it had served is judged (a crash)",
        "'each line is either parsed or counted as a bad line' is read as: parser.metrics_received + parser.events_received + parser.bad_lines_seen increases by the number of newline-separated segments (an empty segment in the middle counts as a bad line; the empty remainder after a trailing newline is not a segment)",
        "a wedge is reported only after 60 s (datagram) / 45 s (HTTP) without completion of an operation that normally takes microseconds",
        "the UDP socket read loop (receiver.go) is exercised by the udp job (one reader, loopback, datagrams sent one at a time so that none is dropped by the kernel); the other datagram jobs inject at the parser's input channel",
    ],
}

PROPS["C08"] = {
    "pkg": "c08", "level": "exploration",
    "jobs": {
        "quick": [
            {"name": "stats", "run": "^TestTimerStatistics$", "checks": 128000, "shards": 8},
            {"name": "hist", "run": "^TestHistograms$", "checks": 64000, "shards": 4},
            {"name": "intervals", "run": "^TestTimerIntervalsIndependent$", "checks": 32000, "shards": 4},
            {"name": "binary", "run": "^TestBinaryPercentThresholds$", "checks": 64, "shards": 16, "binary": True, "shrinktime": "1s"},
        ],
        "thorough": [
            {"name": "stats", "run": "^TestTimerStatistics$", "checks": 1600000, "shards": 12, "timeout": 2400},
            {"name": "hist", "run": "^TestHistograms$", "checks": 800000, "shards": 4, "timeout": 2400},
            {"name": "intervals", "run": "^TestTimerIntervalsIndependent$", "checks": 800000, "shards": 8, "timeout": 2400},
            {"name": "binary", "run": "^TestBinaryPercentThresholds$", "checks": 3200, "shards": 16, "binary": True, "shrinktime": "1s", "timeout": 2400},
        ],
    },
    "assumptions": [
        "binary jobs run the gostatsd command built from the working tree on the real clock over loopback UDP with the stdout backend; a command that never serves (its port was taken between probe and start) or a datagram that does not arrive excludes the case (counted in the evidence) and is never a violation; a command that exits after it had served is judged (a crash)",
        "floating-point tolerance |got-want| <= 1e-9 * (sum of |v| resp. sum of v^2) + 1e-300 for sums, means and percentile sums (the code forms upper-tail sums by subtraction); min, max, median and boundaries exact",
        "k = round(|p|*n/100) evaluated in integers; at exact .5 ties (|p|*n mod 100 == 50) with |p| not in {25, 50, 75, 100} both neighbours are accepted (the code rounds a floating-point product)",
        "count = round(sum 1/rate): when the sum is within 1e-9 of a .5 tie either neighbour is accepted (floating-point addition order)",
        "which buckets survive a limit below the number of listed buckets is not stated by the property: only 'at most limit finite buckets, all from the tag, +Inf present, counts right' is required there",
        "percentile 0 and NaN bucket items are outside the domain",
    ],
}

PROPS["C09"] = {
    "pkg": "c09", "level": "exploration",
    "jobs": {
        "quick": [{"name": "expiry", "run": "^TestExpiryHistories$", "checks": 48000, "shards": 8, "steps": 40},
                  {"name": "binary", "run": "^TestBinary", "checks": 48, "shards": 16, "binary": True, "shrinktime": "1s"},
            {"name": "server", "run": "^TestWholeServer$", "checks": 96, "shards": 16},
        ],
        "thorough": [{"name": "expiry", "run": "^TestExpiryHistories$", "checks": 1200000, "shards": 16, "steps": 60, "timeout": 2400},
                     {"name": "binary", "run": "^TestBinary", "checks": 1600, "shards": 16, "binary": True, "shrinktime": "1s", "timeout": 2400},
            {"name": "server", "run": "^TestWholeServer$", "checks": 6400, "shards": 16, "timeout": 2400},
        ],
    },
    "assumptions": [
        "binary jobs run the gostatsd command built from the working tree on the real clock over loopback UDP with the stdout backend; a command that never serves (its port was taken between probe and start) or a datagram that does not arrive excludes the case (counted in the evidence) and is never a violation; a command that exits after it had served is judged (a crash)",
        "a datapoint's timestamp is the (injected) clock reading when it is received, as in production where both come from the wall clock",
        "Flush, Process and Reset of one flush happen at one clock reading",
        "equal-timestamp gauge datapoints: any of the tied values is accepted",
        "the binary job runs on real time: flushes are counted by a heartbeat series, 'kept' is asserted only for intervals of 0 or 5 minutes, 'expires' only as absence from some flush within 60 s",
    ],
}

PROPS["C04"] = {
    "pkg": "c04", "level": "exploration", "crash_is_violation": True,
    "jobs": {
        "quick": [{"name": "flush", "run": "^TestFlushNeverCrashes$", "checks": 1600, "shards": 8, "steps": 12},
                  {"name": "binary", "run": "^TestBinaryFlushSurvivesConfiguration$", "checks": 64, "shards": 16, "binary": True, "shrinktime": "1s"}],
        "thorough": [{"name": "flush", "run": "^TestFlushNeverCrashes$", "checks": 160000, "shards": 16, "steps": 20, "timeout": 2400},
                     {"name": "binary", "run": "^TestBinaryFlushSurvivesConfiguration$", "checks": 3200, "shards": 16, "binary": True, "shrinktime": "1s", "timeout": 2400}],
    },
    "assumptions": [
        "binary jobs run the gostatsd command built from the working tree on the real clock over loopback UDP with the stdout backend; a command that never serves (its port was taken between probe and start) or a datagram that does not arrive excludes the case (counted in the evidence) and is never a violation; a command that exits after it had served is judged (a crash)",
        "HTTP transports answer 2xx at once and socket listeners accept and read everything (transport faults are C16's subject)",
        "a panic on a goroutine the backend spawns kills the test binary; the case is journaled before every flush and the driver reports the journaled case",
        "the AWS SDK is pinned offline by environment (static credentials, IMDS disabled, one attempt)",
    ],
}

PROPS["C05"] = {
    "pkg": "c05", "level": "exploration",
    "jobs": {
        "quick": [{"name": "datagram", "run": "^TestDatagramLinesIndependent$", "checks": 24000, "shards": 12},
                  {"name": "udpqueue", "run": "^TestUDPQueuedDatagrams$", "checks": 1200, "shards": 4},
                  {"name": "binary", "run": "^TestBinaryIgnoreHost$", "checks": 64, "shards": 16, "binary": True, "shrinktime": "1s"}],
        "thorough": [{"name": "datagram", "run": "^TestDatagramLinesIndependent$", "checks": 640000, "shards": 16, "timeout": 2400},
                     {"name": "udpqueue", "run": "^TestUDPQueuedDatagrams$", "checks": 80000, "shards": 16, "timeout": 2400},
                     {"name": "binary", "run": "^TestBinaryIgnoreHost$", "checks": 3200, "shards": 16, "binary": True, "shrinktime": "1s", "timeout": 2400}],
    },
    "assumptions": [
        "binary jobs run the gostatsd command built from the working tree on the real clock over loopback UDP with the stdout backend; a command that never serves (its port was taken between probe and start) or a datagram that does not arrive excludes the case (counted in the evidence) and is never a violation; a command that exits after it had served is judged (a crash)",
        "an empty line between two newlines counts as a rejected line (it is lexed and rejected); the empty remainder after a trailing newline is not a line",
        "an event without d: gets the wall-clock second of parsing: compared with a tolerance of 5 s",
        "equal-timestamp gauge lines in one datagram: the later line must win (stated by the property)",
    ],
}

PROPS["C10"] = {
    "pkg": "c10", "level": "exploration",
    "jobs": {
        "quick": [
            {"name": "patterns", "run": "^TestPattern(Semantics|LongLived)$", "checks": 24000, "shards": 2},
            {"name": "stage", "run": "^TestTagStage$", "checks": 48000, "shards": 8},
            {"name": "server", "run": "^TestWholeServer$", "checks": 96, "shards": 16},
        ],
        "thorough": [
            {"name": "patterns", "run": "^TestPattern(Semantics|LongLived)$", "checks": 200000, "shards": 2, "timeout": 2400},
            {"name": "stage", "run": "^TestTagStage$", "checks": 1000000, "shards": 14, "timeout": 2400},
            {"name": "server", "run": "^TestWholeServer$", "checks": 6400, "shards": 16, "timeout": 2400},
        ],
    },
    "assumptions": [
        "the model is FILTERING.md read literally: a filter is satisfied when (match-metrics empty or some pattern matches the name) and no exclude-metrics pattern matches the name and (match-tags empty or some pattern matches some incoming tag); drop-tags patterns are evaluated against the incoming tags",
        "a static tag equal to a tag removed from that metric is not added back (the statement's 'not itself being removed from that metric')",
    ],
}

PROPS["C18"] = {
    "pkg": "c18", "level": "exploration",
    "jobs": {
        "quick": [
            {"name": "ticker", "run": "^TestAlignedTickerValues$", "checks": 2400, "shards": 8},
            {"name": "flusher", "run": "^TestAlignedFlusher$", "checks": 2400, "shards": 8},
            {"name": "jumps", "run": "^TestAlignedFlusherJumps$", "checks": 2400, "shards": 8},
            {"name": "realclock", "run": "^TestAlignedFlusherRealClock$", "checks": 160, "shards": 8},
            {"name": "binary", "run": "^TestBinaryAlignedFlush$", "checks": 32, "shards": 16, "binary": True, "shrinktime": "1s"},
        ],
        "thorough": [
            {"name": "ticker", "run": "^TestAlignedTickerValues$", "checks": 160000, "shards": 8, "timeout": 2400},
            {"name": "flusher", "run": "^TestAlignedFlusher$", "checks": 160000, "shards": 8, "timeout": 2400},
            {"name": "jumps", "run": "^TestAlignedFlusherJumps$", "checks": 160000, "shards": 8, "timeout": 2400},
            {"name": "realclock", "run": "^TestAlignedFlusherRealClock$", "checks": 8000, "shards": 16, "timeout": 2400},
            {"name": "binary", "run": "^TestBinaryAlignedFlush$", "checks": 640, "shards": 16, "binary": True, "shrinktime": "1s", "timeout": 2400},
        ],
    },
    "assumptions": [
        "binary jobs run the gostatsd command built from the working tree on the real clock over loopback UDP with the stdout backend; a command that never serves (its port was taken between probe and start) or a datagram that does not arrive excludes the case (counted in the evidence) and is never a violation; a command that exits after it had served is judged (a crash)",
        "'multiple of the interval' is counted from Go's zero time, as time.Truncate documents; the oracle recomputes it with big integers",
        "the property is about the arithmetic of tick values and of the clock reading under exact stepping; real-time scheduling jitter is out of scope (a real ticker fires microseconds after the boundary and the tick value is rounded down to it)",
        "under jumps and late consumers ticks may be dropped (non-blocking send): alignment and strict increase are still required, 'clock reads exactly the tick value' only under exact stepping",
    ],
}

PROPS["C14"] = {
    "pkg": "c14", "level": "exploration",
    "jobs": {
        "quick": [
            {"name": "roundtrip", "run": "^TestRoundTrip$", "checks": 9600, "shards": 8},
            {"name": "differential", "run": "^TestIngestDifferential$", "checks": 18000, "shards": 4},
            {"name": "server", "run": "^TestWholeServer$", "checks": 96, "shards": 16},
            {"name": "overload", "run": "^TestBatchesWaitForARequestSlot$", "checks": 64, "shards": 16, "shrinktime": "1s"},
        ],
        "thorough": [
            {"name": "roundtrip", "run": "^TestRoundTrip$", "checks": 320000, "shards": 10, "timeout": 2400},
            {"name": "differential", "run": "^TestIngestDifferential$", "checks": 800000, "shards": 6, "timeout": 2400},
            {"name": "fuzz", "kind": "fuzz", "fuzz": "FuzzIngestBody", "time": "180s", "timeout": 500},
            {"name": "server", "run": "^TestWholeServer$", "checks": 6400, "shards": 16, "timeout": 2400},
            {"name": "overload", "run": "^TestBatchesWaitForARequestSlot$", "checks": 1600, "shards": 16, "shrinktime": "1s", "timeout": 2400},
        ],
    },
    "assumptions": [
        "timestamps are not carried (stated by the property); an empty tag list may decode as nil",
        "the reference decode uses compress/zlib, pierrec/lz4 and proto.Unmarshal directly (same libraries, independent call path)",
        "strings are valid UTF-8 (protobuf string fields); non-UTF-8 strings are C15's finding",
    ],
}

PROPS["C01"] = {
    "pkg": "c01", "level": "exploration",
    "jobs": {
        "quick": [
            {"name": "pipeline", "run": "^TestPipelineConservation$", "checks": 2400, "shards": 8},
            {"name": "pipeline-race", "run": "^TestPipelineConservation$", "checks": 320, "shards": 4, "race": True},
            {"name": "history", "run": "^TestShardHistory$", "checks": 8000, "shards": 4, "steps": 40},
            {"name": "server", "run": "^TestWholeServer$", "checks": 96, "shards": 16},
            {"name": "ownsocket", "run": "^TestServerOwnSocket$", "checks": 48, "shards": 16},
        ],
        "thorough": [
            {"name": "pipeline", "run": "^TestPipelineConservation$", "checks": 120000, "shards": 8, "timeout": 2400},
            {"name": "pipeline-race", "run": "^TestPipelineConservation$", "checks": 16000, "shards": 4, "race": True, "timeout": 2400},
            {"name": "history", "run": "^TestShardHistory$", "checks": 400000, "shards": 4, "steps": 60, "timeout": 2400},
            {"name": "server", "run": "^TestWholeServer$", "checks": 6400, "shards": 16, "timeout": 2400},
            {"name": "ownsocket", "run": "^TestServerOwnSocket$", "checks": 2400, "shards": 16, "timeout": 2400},
        ],
    },
    "assumptions": [
        "server jobs run a whole statsd.Server in process on the real clock (100 ms flush interval) over loopback UDP; a case whose datagrams did not all arrive (only whole series missing, everything present correct) is excluded and counted, never judged; the own-socket job judges a deficit only when the kernel's drop counter for the port (/proc/net/udp) did not move",
        "the Go scheduler is not owned: the concurrent layer samples interleavings (diversified by GOMAXPROCS, queue size 0, feeder/flush concurrency, a Gosched inside the aggregator wrapper); the oracle is schedule independent (totals after a deterministic join)",
        "expiry intervals are 0 so that no series disappears during a run (C09 covers expiry)",
        "gauges are excluded from the sum oracle (level semantics; C05/C07 cover them) but must be reported and not invented",
        "UDP socket reads are not part of this harness (datagram batches are written to the parser input channel, as the property's observation point says)",
    ],
}

PROPS["C11"] = {
    "pkg": "c11", "level": "exploration",
    "jobs": {
        "quick": [{"name": "cloud", "run": "^TestCloudStageHistories$", "checks": 6400, "shards": 16, "steps": 25},
            {"name": "server", "run": "^TestWholeServer$", "checks": 96, "shards": 16},
        ],
        "thorough": [{"name": "cloud", "run": "^TestCloudStageHistories$", "checks": 320000, "shards": 16, "steps": 40, "timeout": 2400},
            {"name": "server", "run": "^TestWholeServer$", "checks": 6400, "shards": 16, "timeout": 2400},
        ],
    },
    "assumptions": [
        "server jobs run a whole statsd.Server in process on the real clock (100 ms flush interval) over loopback UDP; a case whose datagrams did not all arrive (only whole series missing, everything present correct) is excluded and counted, never judged; the own-socket job judges a deficit only when the kernel's drop counter for the port (/proc/net/udp) did not move",
        "the cache contract: an answer on InfoSource follows a request on IpSink (completions are only generated for sources the stage actually requested)",
        "deliveries after a completion happen on goroutines the stage spawns: the harness waits for the expected number of deliveries (progress wait; only 'never delivered within 30 s' is reported)",
        "stats emission is fire-and-forget in the stage: the harness re-triggers it until it lands (progress only)",
    ],
}

PROPS["C12"] = {
    "pkg": "c12", "level": "exploration",
    "jobs": {
        "quick": [{"name": "cache", "run": "^TestInstanceCacheHistories$", "checks": 400, "shards": 16, "steps": 14},
                  {"name": "slowconsumer", "run": "^TestSlowConsumer$", "checks": 480, "shards": 8}],
        "thorough": [{"name": "cache", "run": "^TestInstanceCacheHistories$", "checks": 9600, "shards": 16, "steps": 25, "timeout": 2400},
                     {"name": "slowconsumer", "run": "^TestSlowConsumer$", "checks": 32000, "shards": 16, "timeout": 2400}],
    },
    "assumptions": [
        "the implementation mixes time.Now() (entry expiry, last access) with the refresh ticker's time; tick values are real now + k*10 min while TTL (15 min), negative TTL (5 min) and idle period (25 min) are odd multiples of 5 min, so every comparison is decided with >= 5 min of margin against seconds of real drift; boundaries at equality and per-entry differences in idle age are therefore not explored",
        "lookup batching waits 10 ms of real time when the batch limit is not reached (bounds the number of histories per second)",
        "the model folds answers in the order the provider was called (the order in which the cache processes them)",
    ],
}

PROPS["C13"] = {
    "pkg": "c13", "level": "exploration",
    "jobs": {
        "quick": [{"name": "pods", "run": "^TestPodHistories$", "checks": 4800, "shards": 12, "steps": 32},
                  {"name": "relist", "run": "^TestPodHistories$", "checks": 400, "shards": 16, "steps": 24, "env": {"C13_RELIST": "1"}},
                  {"name": "inflight", "run": "^TestLookupInFlightDuringEvent$", "checks": 1600, "shards": 8},
                  {"name": "fromconfig", "run": "^TestProviderFromConfiguration$", "checks": 160, "shards": 8}],
        "thorough": [{"name": "pods", "run": "^TestPodHistories$", "checks": 128000, "shards": 16, "steps": 30, "timeout": 2400},
                     {"name": "relist", "run": "^TestPodHistories$", "checks": 12000, "shards": 16, "steps": 24, "timeout": 2400, "env": {"C13_RELIST": "1"}},
                     {"name": "inflight", "run": "^TestLookupInFlightDuringEvent$", "checks": 64000, "shards": 16, "timeout": 2400},
                     {"name": "fromconfig", "run": "^TestProviderFromConfiguration$", "checks": 8000, "shards": 16, "timeout": 2400}],
    },
    "assumptions": [
        "the history layers issue lookups only at quiescent points (after the sentinel barrier), which is what 'after any history has been observed' states; the window between the informer's index update and the provider's invalidation callback is not explored",
        "the inflight layer relies on the provider logging at debug level, with the address in the field 'ip', between reading the pod from the informer and memoising the answer (that is where the harness parks a lookup); if that log call goes away the job fails with the harness signature C13:harness-lookup-not-parked rather than passing vacuously",
        "the barrier relies on client-go delivering handler notifications in event order and on absent results not being memoised by the provider",
        "no regex in the pool matches the empty string as a whole; distinct IPs among existing pods",
        "a relist (the watch answers 'resource version too old', the informer lists again and finds pods gone) costs about a second of client-go's real-time back-off, so it is generated in its own job, once per history",
    ],
}

PROPS["C16"] = {
    "pkg": "c16", "level": "fault_enumeration", "crash_is_violation": True,
    "jobs": {
        "quick": [
            {"name": "enumeration", "kind": "plain", "run": "^TestHTTPFaultEnumeration$", "shards": 8},
            {"name": "random", "run": "^TestHTTPFaultsRandom$", "checks": 320, "shards": 4},
            {"name": "sender", "run": "^TestSenderFaults$", "checks": 96, "shards": 16},
            {"name": "socket", "run": "^TestSocketBackends$", "checks": 960, "shards": 8},
            {"name": "sharedtransport", "run": "^TestBackendsShareTransport$", "checks": 48, "shards": 16, "shrinktime": "1s"},
            {"name": "largepayload", "run": "^TestLargePayloadsKeepRequestSlots$", "checks": 160, "shards": 8, "shrinktime": "1s"},
        ],
        "thorough": [
            {"name": "enumeration", "kind": "plain", "run": "^TestHTTPFaultEnumeration$", "shards": 8, "timeout": 2400},
            {"name": "random", "run": "^TestHTTPFaultsRandom$", "checks": 32000, "shards": 4, "timeout": 2400},
            {"name": "sender", "run": "^TestSenderFaults$", "checks": 3200, "shards": 16, "timeout": 2400},
            {"name": "socket", "run": "^TestSocketBackends$", "checks": 32000, "shards": 8, "timeout": 2400},
            {"name": "sharedtransport", "run": "^TestBackendsShareTransport$", "checks": 1600, "shards": 16, "shrinktime": "1s", "timeout": 2400},
            {"name": "largepayload", "run": "^TestLargePayloadsKeepRequestSlots$", "checks": 1600, "shards": 16, "shrinktime": "1s", "timeout": 2400},
        ],
    },
    "assumptions": [
        "HTTP backends take timers and backoff clocks from the request context: a mock clock is advanced whenever no callback has arrived, so retry windows are crossed in milliseconds",
        "'exactly one callback' observes a finite grace period after the first callback (context cancelled, clock run one hour ahead, 2 ms of real time)",
        "an error is required whenever the last observed attempt of some request body failed; whether a cancelled flush without transport failure reports an error is not asserted (the statement does not say)",
        "the scripted RoundTripper, like net/http's transport, fails an attempt whose request body is shorter than its Content-Length (the OTLP backend re-sends a consumed request on retry; its retries therefore always fail - noted in DESIGN.md, not a listed property)",
        "the sender's reconnect timer is 1 s of real time: at most one connect failure per generated case",
    ],
}

PROPS["C17"] = {
    "pkg": "c17", "level": "exploration",
    "jobs": {
        "quick": [
            {"name": "probes", "kind": "plain", "run": "^TestProbe"},
            {"name": "payloads", "run": "^TestPayloadsCarryEverySeriesOnce$", "checks": 1920, "shards": 8},
            {"name": "relay", "run": "^TestRelayRoundTrip$", "checks": 1920, "shards": 4},
            {"name": "relay-events", "run": "^TestRelayEvents$", "checks": 1200, "shards": 2},
            {"name": "relay-concurrent", "run": "^TestConcurrentRelayFlushes$", "checks": 600, "shards": 6},
        ],
        "thorough": [
            {"name": "probes", "kind": "plain", "run": "^TestProbe"},
            {"name": "payloads", "run": "^TestPayloadsCarryEverySeriesOnce$", "checks": 64000, "shards": 10, "timeout": 2400},
            {"name": "relay", "run": "^TestRelayRoundTrip$", "checks": 64000, "shards": 4, "timeout": 2400},
            {"name": "relay-events", "run": "^TestRelayEvents$", "checks": 40000, "shards": 2, "timeout": 2400},
            {"name": "relay-concurrent", "run": "^TestConcurrentRelayFlushes$", "checks": 20000, "shards": 8, "timeout": 2400},
            {"name": "relay-concurrent-race", "run": "^TestConcurrentRelayFlushes$", "checks": 1500, "shards": 4, "race": True, "timeout": 2400},
        ],
    },
    "assumptions": [
        "datapoints are attributed to a series by the name token contained in the emitted metric name and by the decoded tag set (and host where the backend's format carries it: datadog, newrelic, otlp, graphite tags mode, the relay); influxdb, cloudwatch and graphite legacy/basic do not transmit the source and graphite legacy/basic drop tags (documented), so those are compared without host resp. tags",
        "values are compared as multisets per series identity with tolerance 1e-6 absolute / 1e-9 relative (text formats print 6 decimals)",
        "newrelic flush-type metrics always carries count/sum/min/max in its summary metric; under a sub-metric mask that variant is only checked for validity",
        "tags have distinct keys, non-numeric-ambiguous values and at most one value-less tag so that every backend's tag encoding is invertible",
        "stdout and null have no wire payload and are not part of this property",
    ],
}

PROPS["C15"] = {
    "pkg": "c15", "level": "exploration",
    "jobs": {
        "quick": [
            {"name": "probes", "kind": "plain", "run": "^TestProbe"},
            {"name": "delivery", "run": "^TestForwarderDelivery$", "checks": 1440, "shards": 8},
            {"name": "faults", "run": "^TestForwarderDeliveryFaults$", "checks": 144, "shards": 16},
        ],
        "thorough": [
            {"name": "probes", "kind": "plain", "run": "^TestProbe"},
            {"name": "delivery", "run": "^TestForwarderDelivery$", "checks": 48000, "shards": 8, "timeout": 2400},
            {"name": "delivery-race", "run": "^TestForwarderDelivery$", "checks": 4000, "shards": 4, "race": True, "timeout": 2400},
            {"name": "faults", "run": "^TestForwarderDeliveryFaults$", "checks": 1600, "shards": 16, "timeout": 2400},
        ],
    },
    "assumptions": [
        "flushes are not overlapped with each other: the next trigger is issued only after all data dispatched before the previous trigger reached a final state; a body is attributed to the last trigger issued before its first attempt; only dispatches overlap flushes",
        "retry sleeps are real time (0.25-1.1 s each): scripted failures are limited to two per body and the retry window is either disabled (-1) or 2 s",
        "dynamic headers are combined with the timer-driven mode only (README documents them as unsupported with the manual flush coordinator)",
        "datapoints are globally unique so that duplication between bodies is observable; gauges are checked for presence only",
        "strings are valid UTF-8 in the main generator; the non-UTF-8 case is a recorded finding re-checked by a probe",
    ],
}

PROPS["C19"] = {
    "pkg": "c19", "level": "exploration",
    "jobs": {
        "quick": [
            {"name": "probes", "kind": "plain", "run": "^TestProbe"},
            {"name": "pipeline", "run": "^TestEventsThroughPipeline$", "checks": 9600, "shards": 8},
            {"name": "gated", "run": "^TestWaitForEventsGated$", "checks": 1920, "shards": 8},
            {"name": "forwarder", "run": "^TestEventsForwarderMode$", "checks": 1600, "shards": 8},
            {"name": "server", "run": "^TestWholeServer$", "checks": 96, "shards": 16},
        ],
        "thorough": [
            {"name": "probes", "kind": "plain", "run": "^TestProbe"},
            {"name": "pipeline", "run": "^TestEventsThroughPipeline$", "checks": 160000, "shards": 8, "timeout": 2400},
            {"name": "pipeline-race", "run": "^TestEventsThroughPipeline$", "checks": 8000, "shards": 4, "race": True, "timeout": 2400},
            {"name": "gated", "run": "^TestWaitForEventsGated$", "checks": 16000, "shards": 8, "timeout": 2400},
            {"name": "forwarder", "run": "^TestEventsForwarderMode$", "checks": 40000, "shards": 16, "timeout": 2400},
            {"name": "server", "run": "^TestWholeServer$", "checks": 6400, "shards": 16, "timeout": 2400},
        ],
    },
    "assumptions": [
        "server jobs run a whole statsd.Server in process on the real clock (100 ms flush interval) over loopback UDP; a case whose datagrams did not all arrive (only whole series missing, everything present correct) is excluded and counted, never judged; the own-socket job judges a deficit only when the kernel's drop counter for the port (/proc/net/udp) did not move",
        "an event without d: gets the wall-clock second of receipt: accepted within [start-1, end+1] of the case",
        "events posted to /v2/event carry a non-zero time (the only documented client, gostatsd's forwarder, always sets it)",
        "a premature WaitForEvents return is detected by observing a return within 15 ms while the backends are still gated: a correct implementation blocks, so the wait cannot produce a false alarm",
        "the expected tag set is event tags, then cloud tags, then static tags, compared as a set",
    ],
}

PROPS["C20"] = {
    "pkg": "c20", "level": "exploration",
    "jobs": {
        "quick": [
            {"name": "ordering", "run": "^TestExtensionOrdering$", "checks": 192, "shards": 16},
            {"name": "startup", "run": "^TestStartupFailure$", "checks": 72, "shards": 4},
            {"name": "startupkinds", "run": "^TestStartupFailureKinds$", "checks": 240, "shards": 4, "shrinktime": "1s"},
        ],
        "thorough": [
            {"name": "ordering", "run": "^TestExtensionOrdering$", "checks": 3200, "shards": 16, "timeout": 2400},
            {"name": "startup", "run": "^TestStartupFailure$", "checks": 400, "shards": 4, "timeout": 2400},
            {"name": "startupkinds", "run": "^TestStartupFailureKinds$", "checks": 8000, "shards": 8, "timeout": 2400, "shrinktime": "1s"},
        ],
    },
    "assumptions": [
        "the real Lambda freeze cannot be reproduced; the invariant is checked on the order of requests in one mutex-ordered log shared by the fake runtime API and the fake upstream",
        "'accepted' means the ingestion endpoint answered 202; datapoints accepted after the runtimeDone record was posted are not required in that invocation's flush",
        "the initial flush is made observable by holding the answer to the telemetry subscription until the start-up datapoints were accepted (the heartbeat starts only after that answer)",
        "upstream retries are disabled (max-request-elapsed-time -1) so that 'has reached or been refused by the upstream' is one finished request",
        "dynamic headers are out of scope (documented as unsupported in this mode)",
    ],
}
