"""Per-property job tables for ./check.  Job kinds: rapid (default), plain, fuzz."""

PROPS = {}

PROPS["C06"] = {
    "pkg": "c06", "level": "exploration",
    "jobs": {
        "quick": [
            {"name": "split", "run": "^TestSplitPartition$", "checks": 6000, "shards": 4},
            {"name": "dispatch", "run": "^TestDispatchRoutesByPartIndex$", "checks": 1500, "shards": 2},
        ],
        "thorough": [
            {"name": "split", "run": "^TestSplitPartition$", "checks": 800000, "shards": 12, "timeout": 1500},
            {"name": "dispatch", "run": "^TestDispatchRoutesByPartIndex$", "checks": 120000, "shards": 4, "timeout": 1500},
        ],
    },
    "assumptions": [
        "series identity = (type, name, tag multiset, source); tags that contain ',' or start with 's:' are excluded because two identities then render to one map key (documented exclusion)",
    ],
}

PROPS["C07"] = {
    "pkg": "c07", "level": "exploration",
    "jobs": {
        "quick": [{"name": "merge", "run": "^TestMergeArrangements$", "checks": 4000, "shards": 8}],
        "thorough": [{"name": "merge", "run": "^TestMergeArrangements$", "checks": 640000, "shards": 16, "timeout": 1700}],
    },
    "assumptions": [
        "gauge ties: when several datapoints carry the newest timestamp any of their values is accepted",
        "sampled counts compared with relative tolerance 1e-9 (floating-point addition is not associative)",
        "inputs are deep-copied per arrangement (the production code hands ownership over)",
    ],
}
