#!/usr/bin/env python3
"""Regenerates /verif/MANIFEST.json from lib/props.py + lib/claims.py (run after editing either)."""
import json, os, sys
here = os.path.dirname(os.path.abspath(__file__))
sys.path.insert(0, here)
from props import PROPS
from claims import CLAIMS, PENDING

ALL = ["C%02d" % i for i in range(1, 21)]
checks = []
for pid in ALL:
    if pid not in PROPS or pid not in CLAIMS:
        continue
    c = CLAIMS[pid]
    checks.append({
        "property_id": pid,
        "quick_cmd": "./check %s --tier quick" % pid,
        "thorough_cmd": "./check %s --tier thorough" % pid,
        "evidence_file": "/verif/evidence/%s.json" % pid,
        "replay_cmd_template": "./check %s --replay {path}" % pid,
        "engine": "harness",
        "level_claimed": {"category": PROPS[pid]["level"], "text": c["text"], "design_ref": "DESIGN.md §4 " + pid},
        "level_note": c["note"],
        "technique": c["technique"],
    })
na = [{"property_id": pid, "reason": PENDING.get(pid, "check not built yet in this revision; planned in DESIGN.md §4")}
      for pid in ALL if pid not in PROPS or pid not in CLAIMS]
m = {
    "version": 1,
    "setup_cmd": "./setup.sh",
    "hooks": {
        "guard": "verif (Go build tag)",
        "enable": "go test -tags verif (the harness module replaces github.com/atlassian/gostatsd with /repo's working tree)",
        "baseline_off_cmd": "cd /repo && env -u AWS_CA_BUNDLE PATH=/root/go/pkg/mod/golang.org/toolchain@v0.0.1-go1.23.6.linux-amd64/bin:$PATH GOTOOLCHAIN=local GOFLAGS=-mod=mod GOPROXY=off GOSUMDB=off go test -json -vet=off -count=1 -timeout 25m ./...",
        "source_commits": ["478010b", "34fbf49"],
        "add_only": True,
    },
    "engines": [{
        "name": "harness", "path": "/verif/harness",
        "serves_properties": [c["property_id"] for c in checks],
        "kind_free_text": "Go module of property-based tests (pgregory.net/rapid v1.3.0: generators, state machines, shrinking) and native go fuzz targets, run against /repo's working tree by the python driver /verif/check, which shards by seed, merges evidence and maps failures to VIOLATION / KNOWN-FINDING lines",
    }],
    "checks": checks,
    "not_applicable": na,
    "notes": "All checks decide their property by generated-input search against an explicit oracle (reference model, round trip, differential/metamorphic relation, history invariant). See DESIGN.md. known_findings.json lists genuine defects recorded or fixed.",
}
json.dump(m, open(os.path.join(here, "..", "MANIFEST.json"), "w"), indent=1)
print("checks:", len(checks), "not_applicable:", len(na))
