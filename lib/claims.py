"""Claim texts per property (what each check assures, what it trusts, deciding technique)."""
PENDING = {}
CLAIMS = {}

CLAIMS["C06"] = {
    "text": "Random metric maps of all four types (names/sources incl. empty strings and near-collisions) x shard counts 1..16: "
            "Split is checked to be an exact partition (every series in exactly one part with deep-equal content, nothing invented, input untouched) "
            "and the part index is checked to depend on identity only (re-insertion order, other values/timestamps, other batches); through a real "
            "BackendHandler the worker that receives a series is checked to be the one Split assigns. Exploration: sampled inputs, not all.",
    "note": "Trusts the harness' identity function (type, name, tag multiset, source); tags containing ',' or starting with 's:' and empty-string tags are excluded (two identities then render to one map key; the lexer never emits empty tags).",
    "technique": "property-based testing (rapid): partition + determinism oracle over generated metric maps",
}

CLAIMS["C07"] = {
    "text": "Random families of 2..6 metric maps over colliding series with tied / inverted timestamps, under a drawn permutation and bracketing, are merged by every "
            "merger the statement names (MergeMaps, pairwise Merge tree, MetricConsolidator with 1..4 slots fed concurrently by maps or raw datapoints, "
            "MetricAggregator.ReceiveMap, the cloud stage's parked queue incl. re-keying after a successful lookup, the tag stage when dropped tags make series coincide) "
            "and each result is compared, series by series and in both directions, with an independent reference fold. Exploration: sampled families and arrangements.",
    "note": "Trusts the reference fold in harness/internal/model (counters add, timer multiset union, sampled counts add with 1e-9 relative tolerance, sets unite, gauge = any value of the newest timestamp, newest timestamp kept). The forwarder's merging is exercised by C15.",
    "technique": "property-based testing (rapid): differential against a reference aggregate over generated map families, permutations and bracketings",
}
