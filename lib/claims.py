"""Claim texts per property (what each check assures, what it trusts, deciding technique)."""
PENDING = {}
CLAIMS = {}

CLAIMS["C06"] = {
    "text": "Random metric maps of all four types (names/sources incl. empty strings and near-collisions) x shard counts 1..16: "
            "Split is checked to be an exact partition (every series in exactly one part with deep-equal content, nothing invented, input untouched) "
            "and the part index is checked to depend on identity only (re-insertion order, other values/timestamps, other batches); through a real "
            "BackendHandler the worker that receives a series is checked to be the one Split assigns. Exploration: sampled inputs, not all.",
    "note": "Trusts the harness' identity function (type, name, tag multiset, source); tags containing ',' or starting with 's:' and empty-string tags are excluded (two identities then render to one map key; the lexer never emits empty tags).",
    "technique": "property-based testing (rapid): partition + determinism oracle over generated metric maps",
}
