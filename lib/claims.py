"""Claim texts per property (what each check assures, what it trusts, deciding technique)."""
PENDING = {}
CLAIMS = {}

CLAIMS["C06"] = {
    "text": "Random metric maps of all four types (names/sources incl. empty strings and near-collisions) x shard counts 1..16: "
            "Split is checked to be an exact partition (every series in exactly one part with deep-equal content, nothing invented, input untouched) "
            "and the part index is checked to depend on identity only (re-insertion order, other values/timestamps, other batches); through a real "
            "BackendHandler the worker that receives a series is checked to be the one Split assigns. Exploration: sampled inputs, not all.",
    "note": "Trusts the harness' identity function (type, name, tag multiset, source); tags containing ',' or starting with 's:' and empty-string tags are excluded (two identities then render to one map key; the lexer never emits empty tags).",
    "technique": "property-based testing (rapid): partition + determinism oracle over generated metric maps",
}

CLAIMS["C07"] = {
    "text": "Random families of 2..6 metric maps over colliding series with tied / inverted timestamps, under a drawn permutation and bracketing, are merged by every "
            "merger the statement names (MergeMaps, pairwise Merge tree, MetricConsolidator with 1..4 slots fed concurrently by maps or raw datapoints, "
            "MetricAggregator.ReceiveMap, the cloud stage's parked queue incl. re-keying after a successful lookup, the tag stage when dropped tags make series coincide) "
            "and each result is compared, series by series and in both directions, with an independent reference fold. Exploration: sampled families and arrangements.",
    "note": "Trusts the reference fold in harness/internal/model (counters add, timer multiset union, sampled counts add with 1e-9 relative tolerance, sets unite, gauge = any value of the newest timestamp, newest timestamp kept). The forwarder's merging is exercised by C15.",
    "technique": "property-based testing (rapid): differential against a reference aggregate over generated map families, permutations and bracketings",
}

CLAIMS["C02"] = {
    "text": "Grammar-directed generation of metric and event lines whose expected fields are known by construction (names needing normalisation, all number spellings, "
            "optional fields in every order, empty tag items, unknown fields, all event attributes, three namespaces) compared field by field with the lexer's result; "
            "near-miss mutations of valid lines and arbitrary byte strings are checked against the stated rejection rules (no ':' / no '|' / unknown type / unparsable or NaN value / unparsable rate) "
            "and against the stated well-formedness of anything accepted (non-empty normalised name, non-NaN value, finite rate > 0, tags non-empty without ',' or '|'). "
            "Every call runs on a private copy embedded in a larger buffer whose tail must stay untouched, and recycles the pooled metric. Exploration plus a native fuzz campaign in the thorough tier.",
    "note": "strconv.ParseFloat defines 'parsable number'. Silent regions of the documented grammar are excluded and counted: names starting with '_' other than '_e{', empty attribute fields, '|' inside event attribute values, header numbers of more than 19 digits.",
    "technique": "property-based testing (rapid) with construction-known expected fields + implication oracle on mutated/arbitrary strings; native go fuzzing with the same oracle",
}
CLAIMS["C03"] = {
    "text": "Generated datagrams (arbitrary bytes with NUL and newlines, 65 KiB lines, event headers with declared lengths around 0, the real length, 2^31, 2^32, 2^63, 2^64 and "
            "uint64-wrapping digit strings; the header-number grid is enumerated exhaustively) are run through the lexer and through a real DatagramParser whose goroutine the harness owns: "
            "any panic or wedge is a violation, metrics+events+bad-lines must equal the number of lines, and a following good datagram must still be parsed. HTTP bodies "
            "(valid, truncated, bit-flipped, random, empty, highly compressible, wrong codec) x Content-Encoding go through the real ingestion router: a status in {202,4xx,5xx}, nothing dispatched on error, "
            "no 202 for a body that does not decompress, and following valid requests still served. Native fuzz targets in the thorough tier.",
    "note": "The harness recovers panics only to report them. UDP socket reads (receiver.go) are not driven here (C20 runs the server end to end). Wedge detection uses a generous wall-clock bound (60/120 s) as the only time-based signal.",
    "technique": "property-based testing (rapid) + exhaustive boundary grid + native go fuzzing: crash-freedom with line/request accounting oracle",
}

CLAIMS["C08"] = {
    "text": "Random timer multisets (n 0..40 incl. duplicates, negatives, 12 orders of magnitude), sample rates, arrival orders and batchings, integer percentile lists of both signs, "
            "flush intervals and sub-metric masks are flushed by a real MetricAggregator; every reported statistic (count, per-second, min, max, sum, sum of squares, mean, median, population "
            "standard deviation, and per percentile count/sum/mean/sum-of-squares/boundary with k = round(|p|n/100), k=1 for n=1, omitted for k=0) is compared with an independently computed "
            "reference, and a permuted/re-batched arrival must give the same report. Histogram-tagged timers (malformed, duplicate, unsorted, infinite bucket items x limits incl. 0) are compared "
            "with #{v <= bound} per bucket, at-most-limit finite buckets, +Inf present, nothing for limit 0, and no summary statistics. Exploration.",
    "note": "Stated floating-point tolerances (1e-9 x scale) for sums; exact equality for order statistics; both neighbours accepted at exact .5 ties of k and of count. Percentile 0 and NaN bucket items are outside the domain.",
    "technique": "property-based testing (rapid): independent reference statistics + permutation/batching metamorphic relation",
}

CLAIMS["C09"] = {
    "text": "A rapid state machine drives one real MetricAggregator with an injected clock through histories of datapoints, clock advances chosen around the expiry boundaries "
            "(interval-1ns, =, +1ns) and flushes, for 8 series (two per type) with an expiry drawn independently per type from {-1s, 0, 1s, 10s, 1m}. After every flush the reported set of series "
            "and their values (idle counters 0/0, empty sets, timers count 0 without percentiles, gauges' last value) are compared with a history model: reported iff live, removed after a flush at t iff "
            "interval != 0 and t - T > interval, never reported again without new data. Exploration with shrinking histories.",
    "note": "Needs the verif-tagged VerifSetNow hook to own the aggregator's clock. Datapoint timestamps are the injected clock's reading at receipt.",
    "technique": "stateful property-based testing (rapid state machine) against a history model",
}

CLAIMS["C04"] = {
    "text": "A rapid state machine draws an aggregator configuration (0..4 integer percentiles in [-100,100] incl. 0 and +-100, histogram limit 0/1/2/5/max, sub-metric masks) and a history of "
            "merge(batch)/flush over counters, gauges, sets and timers (0..12 values incl. +-Inf and extremes; gsd_histogram tags incl. empty, malformed, duplicate, inf, nan bucket lists) with idle flushes; "
            "after every real Aggregator.Flush the same map is handed to all 17 bundled backend variants (graphite legacy/basic/tags, statsdaemon udp/tcp/no-tags, datadog, influxdb v1/v2, newrelic infra/insights/metrics, "
            "otlp AsGauge/AsHistogram, cloudwatch, stdout, null) built through backends.InitBackend under drawn batch size / compression / mask. Any panic in Flush or in a payload builder, a builder that does not return, "
            "or a missing completion with an always-accepting transport is a violation. Exploration.",
    "note": "HTTP goes to a scripted RoundTripper injected through the transport pool, sockets to a loopback listener. A panic on a goroutine the backend spawns kills the test binary: cases are journaled before each flush and the driver reports the journaled case (crash_is_violation).",
    "technique": "stateful property-based testing (rapid state machine) with a crash-freedom oracle over every bundled backend",
}

CLAIMS["C05"] = {
    "text": "Generated datagrams mix lines with known fields (colliding series, names needing in-place normalisation, up to 7 tags incl. host: tags), known-invalid lines, events, empty lines and arbitrary pieces, "
            "with/without trailing newline, under ignore-host on/off, namespaces, senders and timestamps, through a real DatagramParser. Three oracles: (1) metamorphic - the dispatched map, events and the "
            "metrics/events/bad-line counters equal the fold of parsing every line alone in a fresh parser, the last gauge line winning; (2) a direct model built from the known fields (receive time, source = sender or first host: tag, "
            "remaining tags, values); (3) immutability - DoneFunc immediately overwrites the buffer, a second datagram goes through the same parser (pool reuse) and the objects dispatched for the first datagram must not change. Exploration.",
    "note": "The parser runs on a goroutine the harness owns; quiescence is a sentinel batch whose DoneFunc fires after the previous batch's accounting. Wall-clock event dates (no d: field) are compared with 5 s tolerance.",
    "technique": "property-based testing (rapid): metamorphic relation (whole = fold of lines) + direct model + snapshot-immutability oracle",
}

CLAIMS["C10"] = {
    "text": "Random filter lists (0..4 filters; match-metrics / exclude-metrics / match-tags / drop-tags lists of exact, prefix*, !negated and regex: patterns over an alphabet where matches are common; drop-metric / drop-host flags), "
            "static tag lists with duplicates and droppable tags, and metric maps of all four types with duplicate tags and series that coincide once tags or host are dropped are sent through a real TagHandler; the output is compared in both "
            "directions with a model written from FILTERING.md plus the reference merge (nothing lost when series coincide), no tag may appear twice, and events must carry tags U static tags de-duplicated. Pattern semantics are checked separately against strings/regexp. Exploration.",
    "note": "Trusts the literal reading of FILTERING.md encoded in the model (see assumptions in the evidence file).",
    "technique": "property-based testing (rapid): reference model of the documented filter rules + reference merge",
}

CLAIMS["C18"] = {
    "text": "Start instants on / one nanosecond around / anywhere between boundaries, six intervals, offsets 0, inside, at and beyond the interval, and advancement patterns (exact next-deadline steps, small steps, jumps over 2..5 intervals, a consumer that reads late) "
            "drive (1) the aligned ticker on a mock clock: every tick value must satisfy (t - offset) mod interval = 0 (recomputed with big integers from the zero time), strictly increase, the first be in (start, start+interval], and under exact stepping equal the clock reading; "
            "(2) a real MetricFlusher with aligned flushing and a recording aggregator, stepped to each deadline only while parked: clock reading at aggregator invocation on a boundary, strictly increasing, first within one interval, and the elapsed time handed to Aggregator.Flush for every later flush a positive multiple of the interval equal to the distance of the flush times. Exploration.",
    "note": "Needs the verif-tagged NewAlignedTicker re-export (internal/util). Real-time jitter is out of scope: the property is decided on a mock clock.",
    "technique": "property-based testing (rapid) on a mock clock with an independent modular-arithmetic oracle",
}

CLAIMS["C14"] = {
    "text": "Metric maps built directly (every representable aggregate: int64-range counters, gauge/timer values incl. -0, +-Inf, NaN, denormals, arbitrary sampled counts, empty timers/sets, empty tag lists and sources, ',' ':' newlines in valid-UTF-8 strings) "
            "and events with every field are given to a real HttpForwarderHandlerV2 (compression off/zlib/lz4 x level 0..9, 1..3 consolidator slots, manual flush coordinator) whose transport calls the real ingestion router in-process; what the ingesting side dispatches must equal what was given "
            "(series keys, tags, sources, values bit for bit, sampled counts, members, event fields; timestamps excepted). Arbitrary / damaged bodies x encodings are compared with a reference decode: undecodable => 4xx/5xx and nothing dispatched, decodable => 202 and identical content. Native fuzzing of the body in the thorough tier.",
    "note": "Needs the verif-tagged flush coordinator re-export to flush deterministically. Non-UTF-8 strings are outside this property's domain (see C15).",
    "technique": "property-based testing (rapid): round trip through the real encoder and decoder + differential against a reference decode; native go fuzzing",
}

CLAIMS["C01"] = {
    "text": "(a) Concurrent pipeline: drawn configuration (1..4 parsers, 1..5 shards, queue 0..3, GOMAXPROCS 1/2/4/16, optional tag stage) and a stream of up to 40 datagrams of valid lines over colliding series (counters and timers with sample rates, sets, gauges; two sources) "
            "is written by 1..3 feeder goroutines to real DatagramParser goroutines -> BackendHandler -> real MetricAggregators, while flush ticks are handed to a real MetricFlusher (owned ticker) at drawn positions without waiting for quiescence; after a parser barrier, cancel and join, and a final direct flush, "
            "the sum over all flushed maps must equal the reference aggregate of the lines sent (counter sums of trunc(v/rate), timer value multisets, sampled-count sums, set members), nothing invented, no series twice or in two shards within one flush, a series always reported by the same aggregator, and no aggregator entered by two goroutines at once. "
            "Part of the runs under the race detector. (b) Sequential shard history: a state machine over one real aggregator (ReceiveMap | Flush+Process+Reset) where each flush must report exactly the data received since the previous one. Exploration: schedules are sampled, not enumerated.",
    "note": "The oracle is schedule independent (totals after a deterministic join). Flush ticks use a clock wrapper whose ticker channel is unbuffered and harness-owned, so a tick is an exact hand-off to the flusher goroutine. UDP reads are out of scope here (the property observes the parser input channel).",
    "technique": "property-based testing (rapid) of the concurrent pipeline with a conservation oracle after a deterministic join + stateful model-based testing of one shard; race detector on a subset",
}

CLAIMS["C11"] = {
    "text": "A rapid state machine drives a real CloudHandler whose instance cache is owned by the harness (Peek contents, unbuffered IpSink and InfoSource): metric batches and events from three sources and the empty source, lookup completions (found / not found) in any order for sources actually requested, cache inserts/evictions and stats emissions. "
            "A parked-state model checks after every step and at the end: every datapoint and event leaves exactly once (immediately on cache hit or empty source, otherwise after its completion), enriched with the instance's tags and id iff the lookup succeeded, series re-keyed and merged without loss; a lookup is requested exactly when something is parked for a source with none outstanding and never twice; hosts_queued/items_queued gauges equal the model's counts. Exploration with shrinking histories.",
    "note": "The stage's single event loop serialises arrivals and completions; the harness relies on its unbuffered channels for hand-off and uses progress waits (30 s) only for deliveries made on goroutines the stage spawns.",
    "technique": "stateful property-based testing (rapid state machine) against a parked-state model",
}

CLAIMS["C12"] = {
    "text": "A rapid state machine drives a real CachedCloudProvider (batch limit 1/2/5) with a scripted provider (full, partial, empty, error-with-partial-data per call) and a harness-owned refresh ticker: submissions of 1..3 sources (duplicates allowed), Peeks, refresh ticks at real-now + k*10 min and stats emissions. "
            "Checked: every submitted source reaches the provider within the batch limit; the multiset of answers on InfoSource equals the (source, result) pairs of all provider calls, client-requested or refresh-started; Peek agrees with a cache model in which a failed or empty refresh keeps the resolved instance; a tick queries exactly the entries past their (negative) TTL and evicts entries past the idle period; cache_positive/cache_negative equal the model's counts. Exploration.",
    "note": "Assumes the stated >= 5 min margin between tick times and TTL/idle boundaries because the implementation reads time.Now() for expiry and last access (not injectable without rewriting existing lines); per-entry idle ages and equality boundaries are therefore not explored.",
    "technique": "stateful property-based testing (rapid state machine) against a cache model with scripted provider outcomes",
}

CLAIMS["C13"] = {
    "text": "A rapid state machine drives k8s.NewProvider over a fake clientset and fake watcher: pods with distinct names and IPs (pool of 4, re-used only after the holder was deleted) are added, updated (phase, host network, host IP, IP set/unset/changed, deletion timestamp, label and annotation edits) and deleted, "
            "interleaved with lookups through Peek and through IpSink->InfoSource, under label/annotation regexes with and without the named group 'tag' (incl. a group that can match empty text). After every watch event a sentinel-pod barrier guarantees that the provider's invalidation handlers ran; every lookup is compared with a pod model: "
            "identity namespace/name and the tag multiset of the running, non-host-network, non-terminating pod holding the IP, or nothing. Stale answers (memoised before an update/delete) are what the non-trivial cases target. Exploration.",
    "note": "Quiescent-point lookups only; relies on client-go's in-order handler notifications for the barrier.",
    "technique": "stateful property-based testing (rapid state machine) against a pod model with a black-box quiescence barrier",
}

CLAIMS["C16"] = {
    "text": "Fault enumeration: for each HTTP backend variant (datadog, influxdb v1/v2, newrelic infra/insights/metrics, otlp, cloudwatch) every per-attempt outcome script of length <= 3 (<= 4 thorough) over {2xx, 5xx, transport error} x {then recovers, then keeps failing until the retry window ends} x {0, 1, 3} batches x "
            "{no cancellation, cancelled before the call, when attempt 1 or 2 starts, while an attempt waits for its retry timer} is executed through a scripted RoundTripper on a mock clock, each followed by a clean flush on the same backend; then random longer scripts (partly through a real MetricFlusher, whose flush must return), "
            "sender.Sender with scripted connect/write failures and cancelled streams, and graphite / statsdaemon (tcp, udp) / stdout / null against loopback listeners that accept, were closed, with cancelled requests. Oracle per request: exactly one completion callback, an error whenever the last attempt of some request body failed, no panic, the call returns, the following request completes.",
    "note": "The expected error is derived from the attempts observed at the RoundTripper (grouped by body), so it does not depend on how goroutines interleave. A second callback arriving later than the grace period would be missed. Real-time reconnect timers bound the socket cases.",
    "technique": "fault enumeration over scripted transport outcomes + property-based testing (rapid) for longer scripts, on a mock clock",
}

CLAIMS["C17"] = {
    "text": "Maps flushed by a real aggregator (name tokens, tags with distinct keys plus a value-less tag, two hosts, finite values with <= 6 decimals, idle series, gsd_histogram timers under bucket limits, percentiles, sub-metric masks) are sent with batch sizes 1..60 and compression on/off to datadog, influxdb v1/v2, newrelic infra/insights/metrics, otlp AsGauge/AsHistogram, cloudwatch (scripted transport) and graphite legacy/basic/tags (loopback listener). "
            "Decoders written in the harness (JSON, influx line protocol with escapes, graphite lines, ExportMetricsServiceRequest, awsquery form, with gzip/deflate) must accept every payload; the multiset of values decoded per series identity (name token, tag set, host where the format carries it) over all payloads of the flush must equal the aggregate's enabled sub-metrics - each exactly once, nothing for unknown series; "
            "influx lines and otlp metrics per request must not exceed the batch size and cloudwatch calls 20 data. The statsd relay (udp/tcp) output is parsed back with gostatsd's own lexer and must reproduce names, tags (+ s:source), counter totals, gauge values, timer values and set members, with datagrams <= 1472 bytes unless a single line is longer; relayed events must parse back to the same fields. Exploration.",
    "note": "Known finding (printed as KNOWN-FINDING, excluded from the generator for that variant, re-checked by a probe): newrelic flush-type metrics emits sets without type and value. Representation choices that are documented or inherent (newrelic numeric tag values, histogram buckets as counters with a zero rate, sources not transmitted by influxdb/cloudwatch/graphite basic) are modelled, not asserted against.",
    "technique": "property-based testing (rapid): independent protocol decoders + multiset conservation oracle; round trip of the relay through the system's own parser",
}

CLAIMS["C15"] = {
    "text": "A real HttpForwarderHandlerV2 (1..4 consolidator slots, concurrent-merge 1..3, max-requests 1..4, compression none/zlib/lz4, dynamic header names from {region, service} in timer mode, timer-driven through a harness-owned ticker or manual through the real flush coordinator, retries disabled or a 2 s window) "
            "receives maps of identifiable datapoints (unique timer values and set members, one bit per counter datapoint, gauges with a companion value) from 1..4 concurrent dispatcher goroutines in phases; flushes are triggered while further dispatches may run concurrently; per-body upstream scripts answer 2xx / 503 / 400 / transport error / slowly. "
            "Every request body is decoded at the transport and judged: the distinct bodies together equal what was dispatched with no datapoint in two bodies; data dispatched before a flush is in that flush's bodies, data dispatched during it in that or the next; an identical body is never re-sent after a 2xx and never given up inside the retry window; "
            "each series travels in exactly one request whose dynamic headers equal its tag values; http.forwarder.created/sent/retried/dropped/invalid equal the tallies seen upstream; Run returns after cancellation (all semaphore tokens returned). Exploration; part of the thorough tier runs under the race detector.",
    "note": "Known finding (probe + KNOWN-FINDING line): a tag that is not valid UTF-8 makes the merged batch unencodable and every client's datapoints of that flush are discarded. Real-time retry sleeps bound the number of fault cases. Needs the verif-tagged flush coordinator re-export for the manual mode.",
    "technique": "property-based testing (rapid) of the concurrent forwarder with a conservation / attribution / retry-discipline oracle over decoded request bodies",
}

CLAIMS["C19"] = {
    "text": "Event lines of the full documented grammar from 1..4 concurrent senders (UDP-style datagrams through 1..3 parser goroutines, or protobuf events on the real /v2/event route) run through DatagramParser -> CloudHandler -> TagHandler -> BackendHandler with 0..3 capturing backends, max-concurrent-events 1..4, "
            "per-sender cache hit / negative hit / miss-then-success / miss-then-failure answered by a harness-owned instance cache, and static tags overlapping the event tags; every backend must receive exactly the multiset of accepted events with title, text (newlines restored), time (given or receipt), aggregation key, source type, priority, alert type, "
            "tags = event + cloud + static as a set, and source = sender or instance id. A gated variant blocks every backend in SendEvent and requires WaitForEvents not to return before the gate (and a pending lookup) is released and to return afterwards with all calls completed. A forwarder-mode variant requires exactly one upstream /v2/event request per accepted event with the same fields. Exploration; race detector on a subset in the thorough tier.",
    "note": "Known finding (probe + KNOWN-FINDING line): in forwarder mode an event carrying a string that is not valid UTF-8 is discarded (same root cause as C15's finding). The harness waits for parked metric batches before shutting the pipeline down (dispatch into a stopped BackendHandler is outside every listed property).",
    "technique": "property-based testing (rapid) of the composed event pipeline with an exactly-once multiset oracle and a gated completion oracle",
}

CLAIMS["C20"] = {
    "text": "End to end on loopback: lambda.NewExtension with per-invocation flushing wraps a forwarder-mode statsd.Server (real HTTP ingestion server, real forwarder, real flush coordinator, real telemetry server); a fake Lambda runtime API (register, telemetry subscription, long-polled /event/next released by the harness, /init/error, /exit/error) "
            "and a fake upstream /v2/raw with drawn latency and outcome (2xx, 5xx, connection close) write one mutex-ordered log. Histories of 1..5 invocations with 0..4 uniquely valued datapoints accepted over HTTP and 1..3 telemetry batches (other record types around at most one platform.runtimeDone) are checked for: every /event/next request preceded by the finished upstream request(s) "
            "carrying every datapoint accepted before the preceding runtime-done signal (and before the subscription answer for the initial flush), exactly one /event/next per invocation, no init error on a healthy start; a second scenario starts servers that fail during start-up and requires exactly one /init/error and no /event/next. Exploration.",
    "note": "The Lambda freeze itself cannot be reproduced; the order of requests in the shared log is the observable. About 0.3 s per history bounds the case count.",
    "technique": "property-based testing (rapid) end to end with a history-order invariant over a global request log",
}
